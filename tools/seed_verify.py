#!/venv/bin/python
"""seed_verify.py <seed_dir> <Cxx> [--tier quick] [--skip-baseline]
Confirms a seeded change in a throw-away worktree of /repo HEAD (never in /repo itself): demo passes without the change,
baseline suite passes with it, demo fails with it; then runs ./check <Cxx> against the changed worktree and reports whether
it raised a VIOLATION.  Prints a JSON summary."""
import json, os, subprocess, sys, tempfile, time
seed, pid = sys.argv[1], sys.argv[2]
tier = 'quick'
if '--tier' in sys.argv: tier = sys.argv[sys.argv.index('--tier') + 1]
wt = tempfile.mkdtemp(prefix='wt_verify_', dir='/tmp')
os.rmdir(wt)
env = dict(os.environ, NUMBA_DISABLE_JIT='1', PYTHONPATH=wt, PYTHONWARNINGS='ignore', VERIF_REPO=wt)
res = dict(seed=seed, property=pid)
def run(cmd, **kw):
    p = subprocess.run(cmd, stdout=subprocess.PIPE, stderr=subprocess.STDOUT, text=True, env=env, **kw)
    return p.returncode, p.stdout
try:
    subprocess.check_call(['git', '-C', '/repo', 'worktree', 'add', '--detach', '-f', wt, 'HEAD'], stdout=subprocess.DEVNULL, stderr=subprocess.DEVNULL)
    demo = os.path.join(seed, 'demo.py')
    res['demo_without'] = run(['/venv/bin/python', demo, wt], cwd='/tmp')[0]
    rc, out = run(['git', '-C', wt, 'apply', os.path.join(os.path.abspath(seed), 'patch.diff')])
    if rc:  # the seed was written against an older HEAD: fall back to a 3-way / fuzzy application
        rc, out = run(['git', '-C', wt, 'apply', '--3way', os.path.join(os.path.abspath(seed), 'patch.diff')])
        if rc:
            rc, out = run(['patch', '-p1', '-d', wt, '-i', os.path.join(os.path.abspath(seed), 'patch.diff')])
        run(['git', '-C', wt, 'reset', '-q'])
    res['apply'] = rc
    if rc: res['apply_out'] = out[-500:]
    if '--skip-baseline' not in sys.argv:
        rc, out = run(['/verif/tools/baseline.sh'])
        res['baseline'] = (out.strip().splitlines()[-1] if out.strip() else '')[:60]
        res['baseline_rc'] = rc
    rc, out = run(['/venv/bin/python', demo, wt], cwd='/tmp')
    res['demo_with'] = rc; res['demo_out'] = out.strip()[-400:]
    t = time.time()
    extra = []
    if '--systems' in sys.argv: extra += ['--systems', sys.argv[sys.argv.index('--systems') + 1]]
    if '--workers' in sys.argv: extra += ['--workers', sys.argv[sys.argv.index('--workers') + 1]]
    rc, out = run(['/verif/check', pid, '--tier', tier, '--no-evidence'] + extra, cwd='/verif')
    res['check_rc'] = rc; res['check_wall'] = round(time.time() - t, 1)
    lines = out.splitlines()
    res['check_violations'] = [l for l in lines if l.startswith('VIOLATION')][:5]
    res['check_detail'] = [l for l in lines if l.startswith('  system=')][:5]
    res['check_tail'] = lines[-1:] 
    res['harness'] = [l for l in lines if 'HARNESS' in l][:3]
finally:
    subprocess.run(['git', '-C', '/repo', 'worktree', 'remove', '--force', wt], stdout=subprocess.DEVNULL, stderr=subprocess.DEVNULL)
print(json.dumps(res, indent=1))
