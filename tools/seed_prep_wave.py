#!/venv/bin/python
"""seed_prep_wave.py <Cxx> <tag> [n]: seed_prep.py plus a paragraph listing the summaries of the changes already kept for
the property (so that a later wave looks somewhere new). Writes /tmp/seedtools/prompt_<tag>.txt."""
import glob, json, subprocess, sys
pid, tag = sys.argv[1], sys.argv[2]
subprocess.check_call(['/venv/bin/python', '/verif/tools/seed_prep.py'] + sys.argv[1:], stdout=subprocess.DEVNULL)
path = f'/tmp/seedtools/prompt_{tag}.txt'
lines = []
for m in sorted(glob.glob(f'/verif/seeded/{pid}-*/meta.json')):
    s = json.load(open(m)).get('summary', '')
    if s: lines.append('  - ' + s[:200])
extra = ("\n\nOther engineers have ALREADY proposed the following changes for this property (earlier rounds); do NOT repeat these "
         "mechanisms or close variants. Find something genuinely different: another function or file on the path of the described "
         "behaviour, another documented argument / class attribute / alternative constructor, another kind of state that survives "
         "between calls, another pair of interacting features, or corner values of the stated domain that none of the entries below "
         "involves:\n" + '\n'.join(lines) + '\n')
open(path, 'a').write(extra)
print(path, len(lines))
