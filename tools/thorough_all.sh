#!/bin/sh
# runs the thorough tier of the given properties one after the other (development aid; no evidence written)
for p in "$@"; do
  start=$(date +%s)
  ./check $p --tier thorough --no-evidence ${VERIF_WORKERS:+--workers $VERIF_WORKERS} 2>&1 | grep "^\[\|VIOLATION\|HARNESS\|KNOWN-FINDING\|NOTE\|^  system" | cut -c1-400
  echo "=== $p thorough rc=$? wall=$(( $(date +%s) - start ))s"
done
