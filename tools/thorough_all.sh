#!/bin/sh
# runs the thorough tier of the given properties one after the other (development aid; no evidence written)
for p in "$@"; do
  start=$(date +%s)
  out=$(mktemp)
  ./check $p --tier thorough --no-evidence ${VERIF_WORKERS:+--workers $VERIF_WORKERS} > "$out" 2>&1
  rc=$?
  grep "^\[\|VIOLATION\|HARNESS\|KNOWN-FINDING\|NOTE\|^  system" "$out" | cut -c1-400
  rm -f "$out"
  echo "=== $p thorough rc=$rc wall=$(( $(date +%s) - start ))s"
done
