#!/venv/bin/python
"""seed_keep.py <seed_dir> <name> <caught: yes|no|after-strengthening> <ran...>: keep a confirmed seeded change under /verif/seeded/<name>/"""
import json, os, shutil, sys
src, name, caught = sys.argv[1:4]
ran = ' '.join(sys.argv[4:])
dst = f'/verif/seeded/{name}'
os.makedirs(dst, exist_ok=True)
for f in ('patch.diff', 'demo.py'): shutil.copy(os.path.join(src, f), dst)
m = json.load(open(os.path.join(src, 'meta.json')))
m['confirmed_by_me'] = dict(how='tools/seed_verify.py in a throw-away worktree of /repo HEAD: demo exits 0 without the patch, pinned suite 210/210 with it, demo exits 1 with it',
                            check_catches=caught, ran=ran)
json.dump(m, open(os.path.join(dst, 'meta.json'), 'w'), indent=1)
print(dst)
