#!/venv/bin/python
"""integrate.py <Cxx> id=commit|open ...   merge findings/<Cxx>/proposed_findings.json into known_findings.json.
An entry mapped to a commit hash becomes a 'fixed' entry (suppresses nothing, witness replayed on every run);
an entry mapped to 'open' becomes a listed known finding.  Entries not named are ignored."""
import json, sys, os
pid = sys.argv[1]
mapping = dict(a.split('=') for a in sys.argv[2:])
kf = json.load(open('/verif/known_findings.json'))
prop = json.load(open(f'/verif/findings/{pid}/proposed_findings.json'))['findings']
if os.path.exists(f'/verif/findings/{pid}/fallback_findings.json'): prop += json.load(open(f'/verif/findings/{pid}/fallback_findings.json'))['findings']
byid = {e['id']: e for e in prop}
for fid, how in mapping.items():
    e = byid[fid]
    assert not e.get('witness') or os.path.exists('/verif/' + e['witness']), e['witness']
    kf['findings'] = [x for x in kf['findings'] if x.get('id') != fid]
    kf['fixed'] = [x for x in kf['fixed'] if x.get('id') != fid]
    if how == 'open':
        e = dict(e); e['status'] = 'open'
        kf['findings'].append(e)
    else:
        kf['fixed'].append(dict(id=fid, line=f"fixed: property={pid} {how} {e['what']}", property=pid, commit=how, witness=e.get('witness')))
json.dump(kf, open('/verif/known_findings.json', 'w'), indent=1)
print('open:', [x['id'] for x in kf['findings'] if x['property'] == pid], 'fixed:', [x.get('id') for x in kf['fixed'] if x['property'] == pid])
