#!/venv/bin/python
"""add_fixed.py <Cxx> <commit> <witness-or-> <id> <what...>: record a repaired defect (suppresses nothing; witness replayed every run)"""
import json, sys, os
pid, commit, witness, fid = sys.argv[1:5]; what = ' '.join(sys.argv[5:])
kf = json.load(open('/verif/known_findings.json'))
kf['fixed'] = [x for x in kf['fixed'] if x.get('id') != fid]
if witness == '-': witness = None
assert witness is None or os.path.exists('/verif/' + witness), witness
kf['fixed'].append(dict(id=fid, line=f'fixed: property={pid} {commit} {what}', property=pid, commit=commit, witness=witness))
json.dump(kf, open('/verif/known_findings.json', 'w'), indent=1)
