#!/venv/bin/python
"""Rewrites the generated tables of DESIGN.md (between the BEGIN/END GENERATED markers) from known_findings.json and seeded/*/meta.json."""
import json, os, glob, re
ROOT = '/verif'
kf = json.load(open(f'{ROOT}/known_findings.json'))
out = []
out.append('### Repaired defects (`fix:` commits in /repo; each witness is replayed on every run and suppresses nothing)\n')
out.append('| property | commit | what failed | witness |\n|---|---|---|---|')
for e in sorted(kf['fixed'], key=lambda e: (e['property'], e['id'])):
    what = e['line'].split(' ', 3)[3] if e['line'].count(' ') >= 3 else e['line']
    out.append(f"| {e['property']} | `{e['commit']}` | {what[:300].replace('|', '/')} | {e.get('witness') or '—'} |")
out.append('\n### Known findings (genuine defects recorded, not repaired; printed as KNOWN-FINDING, matched by clause + match fields)\n')
out.append('| id | clause / match | what fails | why not repaired here |\n|---|---|---|---|')
why = json.load(open(f'{ROOT}/tools/why_not_fixed.json')) if os.path.exists(f'{ROOT}/tools/why_not_fixed.json') else {}
for e in sorted(kf['findings'], key=lambda e: e['id']):
    m = json.dumps(e.get('match', {}))
    out.append(f"| {e['id']} | `{e['clause']}` {m.replace('|', '/')} | {e['what'][:400].replace('|', '/')} | {why.get(e['id'], why.get(e['property'], ''))} |")
findings = '\n'.join(out)

out = ['| seeded change | property | what it needs to manifest | caught by | note |\n|---|---|---|---|---|']
for d in sorted(glob.glob(f'{ROOT}/seeded/*/meta.json')):
    m = json.load(open(d)); name = os.path.basename(os.path.dirname(d))
    c = m.get('confirmed_by_me', {})
    out.append(f"| {name} | {m.get('property')} | {str(m.get('needs', ''))[:260].replace('|', '/')} | {c.get('check_catches')} | {str(c.get('ran', ''))[:200].replace('|', '/')} |")
seeded = '\n'.join(out)

s = open(f'{ROOT}/DESIGN.md').read()
for tag, body in (('findings', findings), ('seeded', seeded)):
    b, e = f'<!-- BEGIN GENERATED {tag} -->', f'<!-- END GENERATED {tag} -->'
    if b in s:
        s = s[:s.index(b) + len(b)] + '\n' + body + '\n' + s[s.index(e):]
open(f'{ROOT}/DESIGN.md', 'w').write(s)
print('DESIGN.md tables regenerated:', len(kf['fixed']), 'fixed,', len(kf['findings']), 'open,', len(glob.glob(f'{ROOT}/seeded/*/meta.json')), 'seeded')
