#!/venv/bin/python
"""seed_prep.py <Cxx> <tag> [n]: create a scratch worktree /tmp/wt_<tag> of /repo HEAD and write the prompt for an
independent seeding agent to /tmp/seedtools/prompt_<tag>.txt (the agent gets the property text only, nothing from /verif)."""
import json, subprocess, sys, os
pid, tag = sys.argv[1], sys.argv[2]
n = sys.argv[3] if len(sys.argv) > 3 else '3'
rec = next(json.loads(l) for l in open('/verif/properties.jsonl') if json.loads(l)['id'] == pid)
wt = f'/tmp/wt_{tag}'; out = f'/tmp/seed_out/{tag}'
os.makedirs(out, exist_ok=True)
os.makedirs('/tmp/seedtools', exist_ok=True)
subprocess.run(['cp', '/verif/tools/baseline.sh', '/tmp/seedtools/baseline.sh'])
if not os.path.exists(wt):
    subprocess.check_call(['git', '-C', '/repo', 'worktree', 'add', '--detach', '-f', wt, 'HEAD'], stdout=subprocess.DEVNULL)
T = open('/verif/tools/seed_prompt.txt').read()
p = (T.replace('{WT}', wt).replace('{OUT}', out).replace('{ID}', pid).replace('{TITLE}', rec['title'])
      .replace('{STATEMENT}', rec['statement']).replace('{QUANT}', rec['quantifier']['text'])
      .replace('{FILES}', ', '.join(rec['anchors']['files'])).replace('{N}', n))
open(f'/tmp/seedtools/prompt_{tag}.txt', 'w').write(p)
print(f'/tmp/seedtools/prompt_{tag}.txt')
