#!/bin/sh
# Offline setup: nothing to build; verify that the interpreter, the repository and the tooling are importable.
cd "$(dirname "$0")/.."
NUMBA_DISABLE_JIT=1 PYTHONPATH=/repo /venv/bin/python -c "import thermosteam, numpy, scipy; import mc.engine, mc.run; print('setup ok')"
