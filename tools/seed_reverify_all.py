#!/venv/bin/python
"""seed_reverify_all.py [name-prefix ...]: final pass over /verif/seeded/*: apply each kept patch to a throw-away worktree of
/repo HEAD, run the demo (must exit 1) and `./check <property> --tier quick --no-evidence` against it, and record the outcome in
meta.json ('final'); updates confirmed_by_me.check_catches (no -> after-strengthening when a strengthened check now catches it)."""
import json, os, subprocess, sys, glob, tempfile, time
want = sys.argv[1:]
for d in sorted(glob.glob('/verif/seeded/*/')):
    name = os.path.basename(d.rstrip('/'))
    if want and not any(name.startswith(w) for w in want): continue
    m = json.load(open(d + 'meta.json'))
    pid = m['property']
    wt = tempfile.mkdtemp(prefix='wt_final_', dir='/tmp'); os.rmdir(wt)
    env = dict(os.environ, NUMBA_DISABLE_JIT='1', PYTHONPATH=wt, PYTHONWARNINGS='ignore', VERIF_REPO=wt)
    def run(cmd, **kw):
        p = subprocess.run(cmd, stdout=subprocess.PIPE, stderr=subprocess.STDOUT, text=True, env=env, **kw)
        return p.returncode, p.stdout
    fin = {}
    try:
        subprocess.check_call(['git', '-C', '/repo', 'worktree', 'add', '--detach', '-f', wt, 'HEAD'], stdout=subprocess.DEVNULL, stderr=subprocess.DEVNULL)
        fin['head'] = subprocess.check_output(['git', '-C', '/repo', 'rev-parse', '--short', 'HEAD'], text=True).strip()
        rc, out = run(['git', '-C', wt, 'apply', d + 'patch.diff'])
        how = 'git apply'
        if rc:
            rc, out = run(['patch', '-p1', '-d', wt, '-i', d + 'patch.diff']); how = 'patch -p1 (fuzzy)'
        fin['apply'] = how if rc == 0 else 'FAILED: ' + out[-300:]
        if rc == 0:
            fin['demo_with'] = run(['/venv/bin/python', d + 'demo.py', wt], cwd='/tmp')[0]
            t = time.time()
            rc, out = run(['/verif/check', pid, '--tier', 'quick', '--no-evidence'], cwd='/verif')
            fin['check_rc'] = rc; fin['check_wall_s'] = round(time.time() - t, 1)
            fin['clauses'] = sorted({l.split('clause=')[1].split(' ')[0] + '@' + l.split('system=')[1].split(' ')[0] for l in out.splitlines() if l.startswith('  system=')})[:8]
    finally:
        subprocess.run(['git', '-C', '/repo', 'worktree', 'remove', '--force', wt], stdout=subprocess.DEVNULL, stderr=subprocess.DEVNULL)
    m['final'] = fin
    c = m.setdefault('confirmed_by_me', {})
    if fin.get('check_rc') == 1 and fin.get('demo_with') == 1:
        if c.get('check_catches') == 'no': c['check_catches'] = 'after-strengthening'
        c['caught_by'] = fin['clauses']
    elif fin.get('check_rc') == 0:
        c['check_catches'] = 'no'
    json.dump(m, open(d + 'meta.json', 'w'), indent=1)
    print(name, fin.get('apply'), 'demo', fin.get('demo_with'), 'check_rc', fin.get('check_rc'), fin.get('check_wall_s'), fin.get('clauses', [])[:2], flush=True)
