#!/venv/bin/python
"""Regenerates /verif/MANIFEST.json from the table below (kept valid against the schema at all times)."""
import json, os, sys
ROOT = os.path.dirname(os.path.dirname(os.path.abspath(__file__)))
sys.path.insert(0, ROOT)
from tools.manifest_table import CHECKS, NOT_APPLICABLE, HOOK_COMMITS

checks = []
for pid, d in sorted(CHECKS.items()):
    checks.append(dict(
        property_id=pid,
        quick_cmd=f'./check {pid} --tier quick',
        thorough_cmd=f'./check {pid} --tier thorough',
        evidence_file=f'/verif/evidence/{pid}.json',
        replay_cmd_template=f'./check {pid} --replay {{path}}',
        engine='mc',
        level_claimed=dict(category='model_checking', text=d['text'] + f' The systems actually built, their alphabets, bounds per tier and measured state/transition counts are in DESIGN.md section 3 ("As built") and /verif/reports/{pid}.md; every run writes what it covered to the evidence file.', design_ref=d['design_ref']),
        level_note=d['note'],
        technique=d['technique'],
    ))
m = dict(
    version=1,
    setup_cmd='./tools/setup.sh',
    hooks=dict(guard='THERMOSTEAM_VERIF', enable='no source hooks are needed: checks import /repo\'s working tree directly (NUMBA_DISABLE_JIT=1, as the pinned suite)',
               baseline_off_cmd='/verif/tools/baseline.sh', source_commits=HOOK_COMMITS, add_only=True),
    engines=[dict(name='mc', path='/verif/mc', serves_properties=sorted(CHECKS),
                  kind_free_text='hand-written explicit-state explorer: level-synchronised BFS over histories of operations on the real thermosteam objects, replay-based state reconstruction, canonical-state deduplication, reference models in lock-step, 16 fork workers')],
    checks=checks,
    not_applicable=[dict(property_id=k, reason=v) for k, v in sorted(NOT_APPLICABLE.items())],
    notes='See DESIGN.md. known_findings.json lists genuine defects recorded or repaired; seeded/ holds confirmed property-breaking changes and which checks catch them.',
)
json.dump(m, open(os.path.join(ROOT, 'MANIFEST.json'), 'w'), indent=1)
try:
    import jsonschema
    jsonschema.validate(m, json.load(open('/root/.vp/MANIFEST.schema.json')))
    print('MANIFEST.json valid;', len(checks), 'checks,', len(NOT_APPLICABLE), 'not_applicable')
except ImportError:
    print('written (jsonschema not importable here)')
