#!/bin/sh
# Runs the repository's pinned suite (guard OFF) and compares with BASELINE.json's stable_pass list.
unset THERMOSTEAM_VERIF
OUT=${1:-/tmp/verif-baseline.$$.xml}
cd ${VERIF_REPO:-/repo} && /venv/bin/python -m pytest -ra -q -p no:cacheprovider --timeout=900 --continue-on-collection-errors --junitxml=$OUT >/dev/null 2>&1
/venv/bin/python - "$OUT" <<'PY'
import sys, json, xml.etree.ElementTree as ET
base = set(json.load(open('/root/.vp/BASELINE.json'))['stable_pass'])
passed = set()
for tc in ET.parse(sys.argv[1]).getroot().iter('testcase'):
    if not any(c.tag in ('failure', 'error', 'skipped') for c in tc):
        passed.add(f"{tc.get('classname')}::{tc.get('name')}")
missing = sorted(base - passed)
print(f'baseline: {len(base & passed)}/{len(base)} stable tests pass; missing={missing}')
sys.exit(1 if missing else 0)
PY
rc=$?
rm -f "$OUT"
exit $rc
