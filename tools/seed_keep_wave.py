#!/venv/bin/python
"""seed_keep_wave.py <tag> <Cxx> <wave-digit>: keep the three verified changes /tmp/seed_out/<tag>/{1,2,3} (results in
/tmp/sv/<tag>_<k>.json from seed_verify.py) under /verif/seeded/<Cxx>-w<wave><k>-<slug>/."""
import json, re, subprocess, sys
tag, pid, w = sys.argv[1:4]
for k in (1, 2, 3):
    v = json.load(open(f'/tmp/sv/{tag}_{k}.json'))
    assert v['demo_without'] == 0 and v['demo_with'] == 1 and v['baseline_rc'] == 0, (tag, k, v.get('demo_without'), v.get('demo_with'), v.get('baseline_rc'))
    m = json.load(open(f'/tmp/seed_out/{tag}/{k}/meta.json'))
    words = re.findall(r'[A-Za-z0-9_]+', m['summary'].replace('_', ''))
    name = f"{pid}-w{w}{k}-" + '-'.join(x.lower() for x in words[:7])
    name = name[:110]
    rc = v['check_rc']
    ran = f"./check {pid} --tier quick rc={rc}" + (' (harness crash: ' + v['harness'][0][:160] + ')' if rc == 2 and v.get('harness') else '')
    subprocess.check_call(['/verif/tools/seed_keep.py', f'/tmp/seed_out/{tag}/{k}', name, 'yes' if rc == 1 else 'no', ran], stdout=subprocess.DEVNULL)
    print(name, 'yes' if rc == 1 else 'no', rc)
