HOOK_COMMITS = []
_NOTE = ('Trusted base: CPython, NumPy/SciPy/flexsolve/chemicals/thermo/pint as installed in /venv, the reference models in '
         '/verif/mc/systems (plain Python), NUMBA_DISABLE_JIT=1 (kernels run as Python source, like the pinned suite). '
         'Nothing is claimed outside the finite alphabets and bounds written to the evidence file.')
CHECKS = {
 'C18': dict(
   text='Explicit-state BFS over sequences of rewiring operations on the real AbstractUnit/AbstractStream objects: full closure '
        '(all histories of any length) for three small universes, depth-bounded for the 3-unit/5-stream universe; the connection '
        'invariant is evaluated in every reached state. Coverage statement, not a sample.',
   design_ref='DESIGN.md section 3, C18', note=_NOTE,
   technique='explicit-state model checking of the implementation (BFS to closure / bounded depth, canonical-state dedup, state invariant)'),
}
NOT_APPLICABLE = {f'C{i:02d}': 'check not built yet in this session (planned: DESIGN.md section 3); not claimed until it exists'
                  for i in range(1, 21) if f'C{i:02d}' not in CHECKS}
