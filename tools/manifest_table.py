HOOK_COMMITS = []
_NOTE = ('Trusted base: CPython, NumPy/SciPy/flexsolve/chemicals/thermo/pint as installed in /venv, the reference models in '
         '/verif/mc/systems (plain Python), NUMBA_DISABLE_JIT=1 (kernels run as Python source, like the pinned suite). '
         'Process-global library state that could alias executions (lookup caches, interned solver objects, class-level memos, module flags, the default property package) is owned by the harness: reset before every execution and, where it is the subject of the property, part of the canonical state. Listed known findings (known_findings.json) suppress only violations with the same clause and match fields; witnesses of repaired defects are replayed on every run. '
         'Nothing is claimed outside the finite alphabets and bounds written to the evidence file.')
CHECKS = {
 'C18': dict(
   text='Explicit-state BFS over sequences of rewiring operations on the real AbstractUnit/AbstractStream objects: full closure '
        '(all histories of any length) for three small universes, depth-bounded for the 3-unit/5-stream universe; the connection '
        'invariant is evaluated in every reached state. Coverage statement, not a sample.',
   design_ref='DESIGN.md section 3, C18', note=_NOTE,
   technique='explicit-state model checking of the implementation (BFS to closure / bounded depth, canonical-state dedup, state invariant)'),
}
NOT_APPLICABLE = {f'C{i:02d}': 'check not built yet in this session (planned: DESIGN.md section 3); not claimed until it exists'
                  for i in range(1, 21) if f'C{i:02d}' not in CHECKS}

_T = 'explicit-state model checking of the implementation: exhaustive BFS over bounded operation histories / complete input grids on the real objects, reference model in lock-step'
def _c(text, ref, technique=_T): return dict(text=text, design_ref=ref, note=_NOTE, technique=technique)
CHECKS.update({
 'C02': _c('Complete grids of inlet sets (phase, T, P, composition, Q, receiver kind, empty inlets, receiver among inlets) and of H/h/S setter targets, plus depth-bounded histories of mix/separate/set/scale on two streams, executed on real Stream/MultiStream objects; the oracle is an independently accumulated enthalpy and the solver\'s stated tolerance.', 'DESIGN.md section 3, C02'),
 'C05': _c('Every reaction of a menu of balanced stoichiometries (string and dict parsers, fractional coefficients) x every reactant choice x X x basis x phase tagging x target kind (stream, other-package stream, MultiStream, ndarray, SparseVector/SparseArray) x feed vectors, as single / parallel / series / system, plus histories re-applying reaction objects; NumPy reference extents, mass and atom balances.', 'DESIGN.md section 3, C05'),
 'C06': _c('The C05 menu restricted to chemicals with Hf: dH against an independent sum of Hf and latent terms, the isothermal state-function identity, and the adiabatic Hnet balance, for single/parallel/series/system reactions, both bases, gas and liquid feeds, plus histories.', 'DESIGN.md section 3, C06 and 3b'),
 'C07': _c('Complete enumeration of the configuration space the code branches on (chemical x reference phase x evaluated phase x locked state; mixture compositions on a simplex grid) with continuous arguments on a grid placed on T_ref/Tm/Tb; identities checked by Richardson-controlled central differences; mixing histories on streams.', 'DESIGN.md section 3, C07'),
 'C17': _c('All expression trees of bounded depth over the reaction arithmetic (+ - * / neg copy backwards, in-place forms, copy(basis), set items, reduce) on a heap of reactions sharing a reactant, compared on feeds with the parallel application; operand digests before/after every non-in-place form.', 'DESIGN.md section 3, C17'),
 'C19': _c('Every connected DAG of n<=3 (quick) / n<=4 (thorough) units with all port-count choices and every permutation of the unit list, larger n with minimal ports and fixed order lists, each also with 1-3 back-edges; Network.from_units on real units; oracle computed by an independent DFS on the unit/stream graph; rewire-then-build histories.', 'DESIGN.md section 3, C19 and 3b'),
 'C20': _c('Complete input grids for every separation helper named by the property (feeds over a dyadic flow alphabet, split vectors, K grids with forced chemicals, moisture targets, efficiencies, balance matrices) and histories that re-apply the helpers to their own outlets; per-chemical balance, non-negativity and target oracles.', 'DESIGN.md section 3, C20'),
})

CHECKS.update({
 'C01': _c('Complete grids of mix_from (receiver kind x 0-3 inlets from a menu of single/multi-phase templates over s/l/g/S/L x two property packages with re-ordered chemicals x dyadic flow vectors x receiver-among-inlets x energy balance), split_to, separate_out, copy_flow(remove) and scaling, plus BFS over histories of those operations on three streams with the chemicals lookup cache as part of the state; exact per-chemical balances against a dense CAS-keyed reference.', 'DESIGN.md section 3, C01'),
 'C10': _c('BFS over sequences of get/set with every key form (ID, alias, CAS, tuples, lists, groups, nested groups, ellipsis, phase pairs), cache floods that drive both lookup caches through eviction, cross-package operations that write into the shared cache, set_alias/define_group, on ChemicalIndexer and MaterialIndexer over packages of size 1-8; every lookup is compared with an own name table and with a freshly built indexer holding the same data.', 'DESIGN.md section 3, C10'),
})

CHECKS.update({
 'C12': _c('Explicit-state BFS over sequences of phase-set changes (every target set containing the non-empty phases up to case), single/multi conversions, reduce_phases, as_stream, touching .vle/.lle/.sle, taking phase views, writes through views and through the parent, get_data/set_data with earlier snapshots and copy_like, over flows from a small alphabet on s/l/g/S/L; closure for three phase universes, depth-bounded for wider alphabets; totals, per-phase rows, T, P and view liveness are checked after every transition.', 'DESIGN.md section 3, C12 and 3b'),
 'C13': _c('Explicit-state BFS over copy / copy_like / link_with (8 flag sets) / unlink / proxy / flow_proxy / mutation / pickle round-trip on a universe of three streams (single and multi-phase, two property packages); the reference model is a union-find over the shareable containers plus values; a complete pickle grid over constructor arguments and over reactions, chemicals and packages.', 'DESIGN.md section 3, C13'),
})

CHECKS.update({
 'C15': _c('Complete grids of lle(T, top_chemical, use_cache) over compositions x temperatures x solver methods x scale factors x top-chemical choices, and every history of 1-3 (thorough: 4) earlier calls from a 9-call alphabet followed by a probe executed with and without reuse and compared with a fresh stream; SLE grids over solutes x solvents x T x given/computed solubility preceded by 0-2 earlier calls; activity equality evaluated independently with thermo.Gamma.', 'DESIGN.md section 3, C15 and 3b'),
})

CHECKS.update({
 'C11': _c('Explicit-state BFS over interleavings of view reads/writes (mol, mass, vol, imass, ivol, set_flow, set_total_flow, F_* setters in eight units of measure, constructor units) with changes of T, P, phase, phases, link_with (flag subsets), unlink, copy_like, property-package reset and empty; after every action mass == mol*MW, vol == mol*V_i(phase,T,P) re-evaluated afresh, totals, unit round trips with conversion constants hard-coded in the harness, DimensionError on wrong dimensions.', 'DESIGN.md section 3, C11'),
 'C14': _c('Explicit-state BFS over interleavings of property reads (18 properties) on a stream, its proxy, a linked stream and a phase view with every public mutator (incl. A->B->A restorations that defeat a key-based memo); the memo and its key are part of the canonical state; every read is compared with a freshly created stream with the same flows, phases, T, P (rtol 1e-12).', 'DESIGN.md section 3, C14'),
})

CHECKS.update({
 'C08': _c('Complete grids of BubblePoint/DewPoint calls over chemical lists (all subsets of two homologous families and every permutation of water/ethanol/methanol), ideal / Dortmund / Dortmund+Poynting packages, simplex-grid compositions incl. zero and trace components, scale factors, T and P grids, plus call histories on the interned solver objects; residual of the defining equation re-evaluated independently, round trips, bracketing, single-component limits, scale and permutation invariance.', 'DESIGN.md section 3, C08'),
 'C16': _c('Complete enumeration of model class x chemical set (with and without group-less members) x every permutation x simplex-grid compositions incl. vertices and traces x temperatures; vertex normalisation, Gibbs-Duhem by central differences along every edge, permutation invariance, exact ones for group-less chemicals and ideal models, bit-identical caller arrays, obj(x,T) == obj.f(x,T,*obj.args); histories of consecutive calls on the interned objects to closure (scratch-buffer leakage).', 'DESIGN.md section 3, C16'),
})

CHECKS.update({
 'C09': _c('Depth-1 layers enumerate every operator (binary, reflected, in-place, comparisons, logical, unary, reductions with axis/keepdims, conversions, construction, every get/set index form x value form, read-only targets) over every operand kind pairing and all vectors of size 1-3 / arrays up to 2x2 (thorough 2x3) over a 4-value alphabet; history layers run explicit-state search over in-place operations and item assignments on a heap of sparse objects inside a value lattice - to CLOSURE for a size-2 vector (all histories of any length), depth-bounded for the 4-5 object heaps incl. a row view aliasing the array. Oracle: NumPy on the dense images; representation invariant in every state.', 'DESIGN.md section 3, C09 and 3b'),
})

CHECKS.update({
 'C03': _c('Complete grids of vle calls (all 31 chemical subsets of a package with volatile, gas-locked and solid-locked members x magnitude patterns x 7 initial phase distributions x all 11 specification pairs x value grids), lle/vlle and sle grids, and histories of 2-3 consecutive equilibrium calls on the same stream (the cached solver objects keep warm-start state); per-chemical phase sums, non-negativity and phase-lock rules after every call that returns.', 'DESIGN.md section 3, C03'),
 'C04': _c('The C03 driver with specification oracles: exact T/P, H/S reproduction within the solver resolution, V-spec bracketing against an independent Rachford-Rice reference flash (bisection on K re-evaluated from the package models), phase-boundary and iso-fugacity clauses for homologous families with Dortmund, Raoult-law agreement for ideal packages, feed-scaling; histories of 2-3 calls for warm-start dependence.', 'DESIGN.md section 3, C04'),
})
NOT_APPLICABLE = {k: v for k, v in NOT_APPLICABLE.items() if k not in CHECKS}
