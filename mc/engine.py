"""
Bounded explicit-state explorer over the REAL thermosteam objects (DESIGN.md section 1).

A *system* closes a narrow seam of the library with a small driver:

    class MySystem(System):
        name = 'c18.closure'
        def configs(self, tier, seed)   -> list of JSON-able initial configurations
        def build(self, config)         -> state object (fresh real objects + reference model)
        def actions(self, st)           -> ordered list of JSON-able enabled actions
        def step(self, st, action)      -> JSON-able observation; raise Violation / return normally
        def invariants(self, st)        -> iterable of Violation (state oracle)
        def canon(self, st)             -> hashable digest of the complete concrete state
        def depth(self, tier)           -> int depth bound (None = run to closure)

The search is a level-synchronised breadth-first search: the master process owns the
``seen`` set and the frontier (each frontier entry is the *shortest history* reaching a
state, plus the state digest); every level is farmed out in chunks to a fork()ed worker
pool.  A worker rebuilds the state by replaying the history on fresh real objects
(live thermosteam objects are never copied), checks that the digest it obtains is the one
recorded when the state was first reached (any divergence is HARNESS-NONDETERMINISM, exit
2), then executes every enabled action from a fresh rebuild, evaluating the transition
oracle (inside ``step``) and the state oracle (``invariants``).

A transition that violates the oracle is recorded and *cut* (its successor is not
expanded: the concrete state can no longer be trusted to correspond to the reference model).
"""
from __future__ import annotations
import hashlib, json, os, sys, time, traceback, itertools
import multiprocessing as mp

# --------------------------------------------------------------------------------------

class Violation(Exception):
    """The property does not hold on this transition / in this state.

    clause : short stable name of the clause of the property that failed
    match  : dict of small, stable fields classifying the failure (used by the
             known-findings matcher; e.g. {'op': 'pop', 'fixed': False})
    detail : free-form JSON-able details (expected/observed)
    """
    def __init__(self, clause, msg='', match=None, detail=None, residual=None):
        super().__init__(f'{clause}: {msg}')
        self.clause = clause
        self.msg = msg
        self.match = dict(match or {})
        self.detail = detail if detail is not None else {}
        self.residual = residual

    def to_dict(self):
        d = dict(clause=self.clause, msg=self.msg, match=self.match, detail=jsonable(self.detail))
        if self.residual is not None: d['residual'] = float(self.residual)
        return d

    def group(self):
        return (self.clause, tuple(sorted((k, repr(v)) for k, v in self.match.items())))


class HarnessError(Exception):
    pass


class Rejected(Exception):
    """Raised by a system's step to signal that the real code rejected the call with a
    documented exception; the engine records it as an outcome and cuts the transition if
    ``cut`` is true (state unknown) or keeps the state otherwise."""
    def __init__(self, what, cut=False):
        super().__init__(what)
        self.what = what
        self.cut = cut


def jsonable(x):
    import numpy as np
    if isinstance(x, dict):
        return {str(k): jsonable(v) for k, v in x.items()}
    if isinstance(x, (list, tuple, set, frozenset)):
        return [jsonable(i) for i in x]
    if isinstance(x, np.ndarray):
        return jsonable(x.tolist())
    if isinstance(x, (np.floating,)):
        return float(x)
    if isinstance(x, (np.integer,)):
        return int(x)
    if isinstance(x, (np.bool_,)):
        return bool(x)
    if isinstance(x, float):
        if x != x: return 'nan'
        if x in (float('inf'), float('-inf')): return repr(x)
        return x
    if isinstance(x, (int, str, bool)) or x is None:
        return x
    return repr(x)


def detuple(x):
    """JSON lists -> tuples (actions/configs are tuples of primitives)."""
    if isinstance(x, list):
        return tuple(detuple(i) for i in x)
    if isinstance(x, dict):
        return {k: detuple(v) for k, v in x.items()}
    return x


def digest(obj):
    return hashlib.blake2b(repr(obj).encode(), digest_size=12).digest()


class System:
    name = 'system'
    #: cap on number of canonical states; exceeding it stops the search (reported, exhaustive=False)
    state_cap = 3_000_000
    #: whether violating transitions should be cut
    def configs(self, tier, seed): return [None]
    def build(self, config): raise NotImplementedError
    def actions(self, st): return []
    def step(self, st, action): raise NotImplementedError
    def invariants(self, st): return ()
    def canon(self, st): raise NotImplementedError
    def depth(self, tier): return 1
    def nontrivial(self, st, action, obs): return True
    def outcome(self, st, action, obs):
        """key for the 'distinct observed outcomes' counter"""
        return repr(obs)[:200]
    def warm(self): pass
    def reset_globals(self): pass
    def describe(self, tier): return {}
    #: wall-clock budget (s) per tier after which the search stops at the end of the level in
    #: progress and reports what it completed (exhaustive=False)
    def time_cap(self, tier): return None


# --------------------------------------------------------------------------------------
# worker side

_SYS = None
_TIER = None

def _rebuild(system, config, hist):
    system.reset_globals()
    st = system.build(config)
    for a in hist:
        try:
            system.step(st, a)
        except Rejected as r:
            if r.cut: raise HarnessError(f'cut transition inside a replayed prefix: {a}')
        except Violation as v:
            raise HarnessError(f'HARNESS-NONDETERMINISM: violation while replaying an accepted prefix: {v}')
    return st


def _expand_chunk(args):
    """Expand a chunk of frontier entries.  Returns a dict of aggregated results."""
    kind, items, want_succ = args
    system = _SYS
    out = dict(succ=[], viol=[], vgroups={}, transitions=0, rejected=0, cut=0, nontrivial=set(),
               outcomes=set(), states=set(), samples=[], error=None, rej_kinds={})
    def addv(ci, hist, a, vd):
        gk = (vd['clause'], json.dumps(vd.get('match', {}), sort_keys=True))
        g = out['vgroups'].setdefault(gk, [0, None])
        g[0] += 1
        r = vd.get('residual')
        if r is not None and (g[1] is None or abs(r) > g[1]): g[1] = abs(r)
        if g[0] <= 25: out['viol'].append((ci, hist, a, vd))
    try:
        if kind == 'init':
            for ci, config in items:
                system.reset_globals()
                st = system.build(config)
                bad = False
                for v in system.invariants(st):
                    addv(ci, (), None, v.to_dict()); bad = True
                k = digest((None if system.merge_across_configs else ci, system.canon(st)))
                out['states'].add(k)
                if not bad: out['succ'].append((ci, (), k))
            return out
        for ci, config, hist, k0 in items:
            st = _rebuild(system, config, hist)
            k = digest((None if system.merge_across_configs else ci, system.canon(st)))
            if k != k0:
                raise HarnessError('HARNESS-NONDETERMINISM: digest of replayed history differs '
                                   f'from the digest recorded when it was first reached: config={config!r} hist={hist!r}')
            acts = list(system.actions(st))
            first = True
            for a in acts:
                if not first:
                    st = _rebuild(system, config, hist)
                first = False
                out['transitions'] += 1
                bad = False
                obs = None
                try:
                    obs = system.step(st, a)
                except Rejected as r:
                    out['rejected'] += 1
                    out['rej_kinds'][r.what] = out['rej_kinds'].get(r.what, 0) + 1
                    obs = ('rejected', r.what)
                    if r.cut:
                        out['cut'] += 1
                        out['outcomes'].add(system.outcome(st, a, obs))
                        continue
                except Violation as v:
                    addv(ci, hist, a, v.to_dict()); bad = True
                if not bad:
                    for v in system.invariants(st):
                        addv(ci, hist, a, v.to_dict()); bad = True
                if bad:
                    out['cut'] += 1
                    try:
                        if system.nontrivial(st, a, obs):
                            out['nontrivial'].add(digest((ci if system.nontrivial_per_config else 0, k, a)))
                    except Exception:
                        pass
                    continue
                out['outcomes'].add(system.outcome(st, a, obs))
                k1 = digest((None if system.merge_across_configs else ci, system.canon(st)))
                out['states'].add(k1)
                try:
                    if system.nontrivial(st, a, obs):
                        out['nontrivial'].add(digest((ci if system.nontrivial_per_config else 0, k, a)))
                except Exception:
                    pass
                if len(out['samples']) < 2:
                    out['samples'].append(dict(config=jsonable(config), actions=jsonable(hist + (a,)), obs=jsonable(obs)))
                if want_succ:
                    out['succ'].append((ci, hist + (a,), k1))
    except HarnessError as e:
        out['error'] = str(e)
    except Exception:
        out['error'] = 'HARNESS-ERROR: ' + traceback.format_exc()
    return out

System.nontrivial_per_config = True
#: states reached from different configs are merged only if the system says that canon() captures everything a
#: config can influence (default: never merge across configs)
System.merge_across_configs = False

# --------------------------------------------------------------------------------------
# master side

class Result:
    def __init__(self, system):
        self.system = system.name
        self.states = 0
        self.transitions = 0
        self.rejected = 0
        self.cut = 0
        self.nontrivial = 0
        self.outcomes = 0
        self.depth_completed = 0
        self.depth_bound = None
        self.exhaustive = False
        self.caps = []
        self.violations = []     # list of dict(config, hist, action, v)  (first 25 per group)
        self.viol_groups = {}    # (clause, match-json) -> dict(count, max_residual, kept)
        self.samples = []
        self.configs = 0
        self.wall = 0.0
        self.levels = []
        self.rej_kinds = {}
        self.describe = {}

    def summary(self):
        return dict(system=self.system, configs=self.configs, states=self.states, transitions=self.transitions,
                    rejected_calls=self.rejected, rejected_by_kind=self.rej_kinds, cut_transitions=self.cut,
                    distinct_nontrivial=self.nontrivial,
                    distinct_outcomes=self.outcomes, depth_completed=self.depth_completed,
                    depth_bound=self.depth_bound, exhaustive=self.exhaustive, caps_hit=self.caps,
                    violations=sum(g['count'] for g in self.viol_groups.values()), wall_s=round(self.wall, 2), level_sizes=self.levels,
                    **self.describe)


def explore(system, tier='quick', seed=0, workers=None, log=print):
    """Run the level-synchronised BFS for one system.  Returns a Result."""
    global _SYS, _TIER
    t0 = time.time()
    workers = workers or int(os.environ.get('VERIF_WORKERS', '0')) or min(16, os.cpu_count() or 1)
    system.tier, system.seed = tier, seed     # visible to actions()/step() (fork()ed workers inherit them)
    system.warm()
    configs = list(system.configs(tier, seed))
    depth = system.depth(tier)
    tcap = system.time_cap(tier)
    res = Result(system)
    res.depth_bound = depth
    res.configs = len(configs)
    res.describe = system.describe(tier) or {}
    _SYS = system; _TIER = tier
    ctx = mp.get_context('fork')
    pool = ctx.Pool(workers) if workers > 1 else None
    seen = set()
    nontrivial = set(); outcomes = set()
    partial = []

    def run_chunks(kind, items, want_succ):
        if not items: return []
        n = max(1, min(len(items), max(workers * 6, len(items) // 200)))
        size = max(1, (len(items) + n - 1) // n)
        chunks = [(kind, items[i:i + size], want_succ) for i in range(0, len(items), size)]
        if pool is None:
            return [_expand_chunk(c) for c in chunks]
        return pool.imap(_expand_chunk, chunks)   # ordered: which history represents a state must not depend on scheduling

    def absorb(outs, frontier_next):
        for o in outs:
            if tcap is not None and time.time() - t0 > tcap * 1.25 + 5 and not partial:
                # hard stop inside a level: what was absorbed so far stays valid, the level is reported as incomplete
                partial.append(True)
            if partial:
                break
            if o['error']:
                raise HarnessError(o['error'])
            res.transitions += o['transitions']; res.rejected += o['rejected']; res.cut += o['cut']
            for kk, n in o['rej_kinds'].items(): res.rej_kinds[kk] = res.rej_kinds.get(kk, 0) + n
            nontrivial.update(o['nontrivial']); outcomes.update(o['outcomes'])
            for gk, (cnt, mr) in o['vgroups'].items():
                # per (clause, match) group: every occurrence is counted, the largest residual is tracked, and the first
                # (= shortest, BFS order) few records are retained -- bounded memory on violation-heavy spaces
                g = res.viol_groups.setdefault(gk, dict(count=0, max_residual=None, kept=0))
                g['count'] += cnt
                if mr is not None and (g['max_residual'] is None or mr > g['max_residual']): g['max_residual'] = mr
            for (ci, hist, a, v) in o['viol']:
                gk = (v['clause'], json.dumps(v.get('match', {}), sort_keys=True))
                g = res.viol_groups[gk]
                if g['kept'] < 25:
                    g['kept'] += 1
                    res.violations.append(dict(config=configs[ci], hist=hist, action=a, v=v))
            if len(res.samples) < 6: res.samples.extend(o['samples'][:1])
            if frontier_next is None:
                seen.update(o['states'])
            else:
                for (ci, hist, k) in o['succ']:
                    if k not in seen:
                        seen.add(k)
                        frontier_next.append((ci, configs[ci], hist, k))
                seen.update(o['states'])

    try:
        frontier = []
        absorb(run_chunks('init', list(enumerate(configs)), True), frontier)
        res.levels.append(len(frontier))
        level = 0
        stopped = None
        while frontier:
            if depth is not None and level >= depth:
                break
            if tcap is not None and time.time() - t0 > tcap:
                stopped = f'time cap {tcap}s reached before level {level + 1}'
                break
            if len(seen) > system.state_cap:
                stopped = f'state cap {system.state_cap} reached before level {level + 1}'
                break
            last = depth is not None and level + 1 >= depth
            nxt = None if last else []
            # deterministic order whatever the pool returns
            frontier.sort(key=lambda e: (e[0], len(e[2]), repr(e[2])))
            absorb(run_chunks('expand', frontier, not last), nxt)
            if partial:
                stopped = f'time cap {tcap}s exceeded inside level {level + 1}; that level is incomplete'
                break
            level += 1
            res.depth_completed = level
            frontier = nxt if nxt is not None else []
            res.levels.append(len(frontier) if not last else len(seen) - sum(res.levels))
            if last: frontier = []; break
        if stopped:
            res.caps.append(stopped)
            res.exhaustive = False
        else:
            # either closure (frontier empty) or the depth bound was enumerated completely
            res.exhaustive = True
            res.closure = not frontier and (depth is None or level < depth)
    finally:
        if pool is not None:
            pool.terminate(); pool.join()
    res.states = len(seen)
    res.nontrivial = len(nontrivial)
    res.outcomes = len(outcomes)
    res.wall = time.time() - t0
    return res


def replay(system, config, actions, log=print):
    """Plain build + step loop without the explorer; returns list of violations (dicts)."""
    system.warm()
    system.reset_globals()
    st = system.build(config)
    viols = []
    obs_list = []
    for v in system.invariants(st):
        viols.append(v.to_dict())
    for a in actions:
        try:
            obs = system.step(st, a)
        except Rejected as r:
            obs = ('rejected', r.what)
        except Violation as v:
            viols.append(v.to_dict()); obs_list.append(('violation', v.clause)); break
        obs_list.append(jsonable(obs))
        bad = False
        for v in system.invariants(st):
            viols.append(v.to_dict()); bad = True
        if bad: break
    return viols, obs_list
