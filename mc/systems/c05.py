"""
C05 — reactions conserve mass and atoms and convert exactly X of the reactant.

Bounded exhaustive exploration of the real `thermosteam.reaction` objects in lock-step with a NumPy
reference  n' = n + X * n[r] * nu .  Three layers:

  c05.single   depth 1: every menu stoichiometry x every reactant choice x parser (str/dict) x phase tagging x
               route to the basis (mol, wt by setter / by copy / defined by weight) x written scale
               -> every target kind x feed x conversion
  c05.sets     depth 1: ordered pairs / triples / selected 4-tuples combined as ParallelReaction, SeriesReaction,
               ReactionSystem (flat and nested), a ReactionItem and a slice of a set
  c05.history  depth >= 2: one reaction object reused on several targets, with conversion / basis changes in between, incl.
               changing the basis / conversion of a MEMBER reaction object after the Parallel/Series/System was built
"""
from __future__ import annotations
import itertools
import numpy as np
from mc.engine import System, Violation, Rejected, HarnessError
from mc import fixtures as fx
from mc.systems import _rxn_common as rc
from mc.systems._rxn_common import IDS, N, POS, MENU

PROPERTY = 'C05'
RULE = ('Every case is one call of a real Reaction / ParallelReaction / SeriesReaction / ReactionSystem / ReactionItem on a '
        'freshly built target, enumerated as the full product (thorough) or a fixed sub-product (quick) of: menu stoichiometry, '
        'reactant, parser, phase tags, basis route, written scale, target kind (Stream on the same / a re-ordered / a superset / a '
        'subset package, MultiStream, ndarray, SparseVector/SparseArray, stream.mol / stream.mass passed directly), feed, conversion.  '
        'Two cases are distinct when configuration or action differ; a case is non-trivial when the reference model says material '
        'actually moves (non-zero extent) or the conversion is infeasible, i.e. the call reached the arithmetic under test.')
ASSUMPTIONS = [
    'package PKG_RXN = (H2,O2,H2O,CH4,CO,CO2,Ethanol,Glucose,AceticAcid); 12 atomically balanced stoichiometries incl. fractional coefficients',
    'conversions X in {0, 0.3, 1} (thorough adds 0.5); feeds: 13 reaction-relative vectors (excess, stoichiometric, limiting co-reactant, zero '
    'reactant, zero, reactant only, x1000, /1024, products only, dense, 1e-9 short, disparate scales, stoichiometric up to rounding 0.1+0.2)',
    'a phase-less reaction is applied to single-phase streams and 1-d arrays only (the Reaction docstring restricts phase-less reactions to '
    'single-phase streams); phase-tagged reactions to MultiStreams with exactly the reaction\'s phases and to 2-d arrays',
    'elemental composition and the menu are hard-coded in the harness; molecular weights are read from the package (checked to balance the menu)',
    'the state a target is left in after InfeasibleRegion / a documented rejection is not part of the property and is not examined',
    'values between the alphabet points are not claimed',
]
TOLERANCES = {
    'flow_rtol': 1e-9,              # observed flows vs reference, relative to the largest feed entry
    'balance_rtol': 1e-9,           # total mass and every element, relative to the feed total
    'infeasible_band': 1e-9,        # reference entry below -band*scale => InfeasibleRegion is demanded
    'feasible_band': 1e-13,         # reference entry above -band*scale => a normal return is demanded
    'stoichiometry_rtol': 1e-12,    # stoichiometry after basis round trips
}

FLOW_RTOL = TOLERANCES['flow_rtol']

_loaded = False
def _load():
    global _loaded
    if not _loaded:
        fx.tmo()
        for k in 'PRXB': rc.package(k)
        rc.MW()
        _loaded = True

# ---------------------------------------------------------------------------------------------------------
# feeds

FEEDS = ('excess', 'stoich', 'limit', 'noreact', 'zero', 'only-r', 'big', 'small', 'products', 'dense', 'short', 'disparate', 'fp')
FEEDS_T = FEEDS + ('rich', 'trace', 'half')        # thorough tier adds these

def feed_amounts(ri, reactant, fname):
    """dict ID -> amount for the named reaction-relative feed"""
    d = MENU[ri][1]
    F = 2.0
    need = {k: abs(x) / abs(d[reactant]) * F for k, x in d.items() if x < 0 and k != reactant}
    prods = [k for k, x in d.items() if x > 0]
    inert = next(k for k in IDS if k not in d)
    out = {}
    def excess(mult=1.0):
        out[reactant] = F * mult
        for k, x in need.items(): out[k] = 4 * x * mult
        for k in prods: out[k] = 0.375 * mult
        out[inert] = 1.0 * mult
    if fname == 'excess': excess()
    elif fname == 'stoich':
        out[reactant] = F
        for k, x in need.items(): out[k] = x
    elif fname == 'limit':
        out[reactant] = F
        for k, x in need.items(): out[k] = 0.5 * x
        for k in prods: out[k] = 0.375
    elif fname == 'noreact':
        for k, x in need.items(): out[k] = x
        for k in prods: out[k] = 1.0
    elif fname == 'zero': pass
    elif fname == 'only-r': out[reactant] = F
    elif fname == 'big': excess(1000.)
    elif fname == 'small': excess(1. / 1024.)
    elif fname == 'products':
        for k in prods: out[k] = 1.0
    elif fname == 'dense':
        for k in IDS: out[k] = 8.0
    elif fname == 'short':
        out[reactant] = F
        first = True
        for k, x in need.items():
            out[k] = x - 1e-9 if first else x
            first = False
    elif fname == 'disparate':
        out[reactant] = 1. / 512.
        for k, x in need.items(): out[k] = 1000. * x
    elif fname == 'fp':
        # stoichiometric only up to floating-point rounding (non-dyadic): reactant 0.1 + 0.2, co-reactants need * 0.3; every other
        # chemical present, in particular those at low package indices
        for k in IDS: out[k] = 0.7
        out[reactant] = 0.1 + 0.2
        for k, x in need.items(): out[k] = x / F * 0.3
    elif fname == 'rich':
        out[reactant] = F
        for k, x in need.items(): out[k] = 16 * x
    elif fname == 'trace':
        out[reactant] = 2. ** -20
        for k, x in need.items(): out[k] = x
        for k in prods: out[k] = 1.0
    elif fname == 'half':                     # co-reactants exactly sufficient for X = 0.5
        out[reactant] = F
        for k, x in need.items(): out[k] = 0.5 * x
        out[inert] = 0.375
    else: raise ValueError(fname)
    return out

def feed_array(ri, reactant, fname, tagmap, spread=False):
    am = feed_amounts(ri, reactant, fname)
    if not tagmap:
        n = np.zeros(N)
        for k, x in am.items(): n[POS[k]] = x
        return n
    phases = rc.phases_of(tagmap)
    n = np.zeros((len(phases), N))
    for k, x in am.items():
        p = phases.index(tagmap[k]) if k in tagmap else 0
        n[p, POS[k]] = x
    if spread:
        for k in tagmap:
            for p in range(len(phases)):
                if p != phases.index(tagmap[k]): n[p, POS[k]] += 0.375
    return n

# ---------------------------------------------------------------------------------------------------------
# targets

class Target:
    """A freshly built real target + how to pass it to the reaction + how to read it back by NAME."""
    def __init__(self, kind, n0, phases, T=298.15, P=101325.):
        t = fx.tmo()
        from thermosteam.base import SparseVector, SparseArray
        self.kind = kind
        self.n0 = np.array(n0, float)
        self.phases = tuple(phases)
        self.stream = None
        self.array = None
        self.units = 'mol'          # what the numbers handed to the reaction mean for a wt-basis reaction
        self.pkg = None
        base = kind.split('+')[0]
        if base in ('A', 'A2'):
            self.array = self.n0.copy(); self.arg = self.array; self.units = 'raw'
        elif base == 'V':
            self.array = SparseVector(self.n0.copy()); self.arg = self.array; self.units = 'raw'
        elif base == 'V2':
            self.array = SparseArray(self.n0.copy()); self.arg = self.array; self.units = 'raw'
        else:
            pk = 'P'
            for c in 'RXB':
                if base.endswith(c) and base not in ('S.l', 'S.g'): pk = c
            if base in ('SXn',): pk = 'X'
            self.pkg = pk
            th = rc.package(pk)
            ids = th.chemicals.IDs
            if not base.startswith('M'):
                phase = 'g' if base.startswith('S.g') else 'l'
                s = t.Stream(None, phase=phase, T=T, P=P, thermo=th)
                flat = self.n0 if self.n0.ndim == 1 else self.n0.sum(0)     # (a phase-tagged reaction must reject it)
                for i, x in enumerate(flat):
                    if x:
                        if IDS[i] not in ids: raise KeyError(IDS[i])
                        s.imol[IDS[i]] = x
                if base == 'SXn': s.imol['N2'] = 1.0
            else:
                ph = self.phases
                if base == 'Mwrong': ph = ('L', 'l') if self.phases != ('L', 'l') else ('g', 's')
                s = t.MultiStream(None, phases=ph, T=T, P=P, thermo=th)
                if base != 'Mwrong':
                    arr = self.n0 if self.n0.ndim == 2 else self.n0[None, :]
                    for p, row in zip(self.phases, arr):
                        for i, x in enumerate(row):
                            if x:
                                if IDS[i] not in ids: raise KeyError(IDS[i])
                                s.imol[p, IDS[i]] = x
            self.stream = s
            self.arg = s
            if base in ('Smol',): self.arg = s.mol
            elif base in ('Mdata',): self.arg = s.imol.data
            elif base in ('Smass',):
                self.arg = s.mass; self.units = 'mass'
            elif base in ('Mmass',):
                self.arg = s.imass.data; self.units = 'mass'
            self.chemicals0 = s.chemicals
            self.T0, self.P0 = s.T, s.P
            self.phase0 = s.phases if isinstance(s, t.MultiStream) else s.phase
            self.cls0 = type(s)

    def read(self):
        """dense array shaped like n0, in PKG_RXN order, read back by chemical ID (stream targets) """
        if self.stream is None:
            a = self.array
            return np.array(a.to_array() if hasattr(a, 'to_array') else a, float)
        s = self.stream
        out = np.zeros_like(self.n0)
        ids = s.chemicals.IDs
        if self.n0.ndim == 1:
            for i, ID in enumerate(IDS):
                if ID in ids: out[i] = float(s.imol[ID])
        else:
            for pi, p in enumerate(self.phases):
                for i, ID in enumerate(IDS):
                    if ID in ids: out[pi, i] = float(s.imol[p, ID])
        return out

    def structure_violations(self, match):
        """the target's package, phases, T, P must be what they were before the call; positional data must agree with the
        name-keyed read-back"""
        s = self.stream
        if s is None: return
        t = fx.tmo()
        if type(s) is not self.cls0:
            raise Violation('target-restored', f'class changed {self.cls0.__name__} -> {type(s).__name__}', match=dict(match, field='class'))
        if s.chemicals is not self.chemicals0 or s.imol.chemicals is not self.chemicals0:
            raise Violation('target-restored', 'the stream / its flow indexer is not on its own property package after the call',
                            match=dict(match, field='chemicals'))
        data = s.imol.data
        size = data.shape[-1] if hasattr(data, 'shape') else data.size
        if size != self.chemicals0.size:
            raise Violation('target-restored', f'flow data has {size} columns, the package has {self.chemicals0.size} chemicals',
                            match=dict(match, field='data-size'))
        ph = s.phases if isinstance(s, t.MultiStream) else s.phase
        if ph != self.phase0:
            raise Violation('target-restored', f'phases changed {self.phase0} -> {ph}', match=dict(match, field='phase'))
        if s.T != self.T0 or s.P != self.P0:
            raise Violation('target-restored', f'T,P changed ({self.T0},{self.P0}) -> ({s.T},{s.P})', match=dict(match, field='TP'))
        # positional view against name-keyed view
        ids = s.chemicals.IDs
        dense = np.array(data.to_array(), float)
        byname = self.read()
        cols = [(i, ids.index(ID)) for i, ID in enumerate(IDS) if ID in ids]
        a = dense[..., [j for i, j in cols]]; b = byname[..., [i for i, j in cols]]
        if a.shape != b.shape or (a != b).any():
            raise Violation('target-restored', f'positional flow data {a.tolist()!r} differs from the name-keyed read {b.tolist()!r}',
                            match=dict(match, field='position'))


def single_targets(tagged, route, thorough=False):
    wt = route != 'mol'
    if not tagged:
        out = ['S.l', 'S.g', 'SR', 'SX', 'SB', 'SXn', 'A', 'V']
        out.append('Smass' if wt else 'Smol')
        if thorough: out += ['S.gR', 'S.gX']
        return out
    out = ['M', 'M+', 'MR', 'MX', 'A2', 'A2+', 'V2', 'S.l', 'Mwrong']
    out.append('Mmass' if wt else 'Mdata')
    if thorough: out += ['V2+', 'MR+', 'MX+', 'S.g']
    return out

# ---------------------------------------------------------------------------------------------------------
# the oracle shared by the layers

def _scale(n0):
    return max(1.0, float(np.abs(n0).max()) if n0.size else 1.0)

def _full_reactant_slots(tree, out=None):
    """slots of reactants converted with X == 1 (the library computes m - m*1*1 there, which is exactly zero)"""
    out = set() if out is None else out
    if isinstance(tree, rc.RefRxn):
        if tree.X == 1.0: out.add(tree.ridx)
    else:
        for sub in tree[1]: _full_reactant_slots(sub, out)
    return out

def _coreactant_slots(tree, out=None):
    """slots that some member consumes as a co-reactant (nu < 0, not that member's reactant)"""
    out = set() if out is None else out
    if isinstance(tree, rc.RefRxn):
        for idx in zip(*np.nonzero(tree.nu < 0)):
            idx = tuple(int(i) for i in idx)
            if idx != tuple(tree.ridx): out.add(idx)
    else:
        for sub in tree[1]: _coreactant_slots(sub, out)
    return out

def expected_outcome(n_ref, n0, tree=None, inexact=False):
    """'infeasible' : the reference needs a negative flow            -> InfeasibleRegion is demanded
       'ok'         : every entry stays clear of zero or is exact    -> a normal return is demanded
       'either'     : knife edge.  Only on the weight-basis-on-stream path (inexact=True), where the library works on mass
                      flows and the reference on molar flows: a species that the conversion exhausts to within round-off
                      (|n| <= band*scale, not the fully converted reactant itself) may come out as +-1e-13 in the library,
                      and its absolute -1e-12 threshold then decides.  The property does not say which way that goes."""
    s = _scale(n0)
    band = TOLERANCES['infeasible_band'] * s
    m = float(n_ref.min()) if n_ref.size else 0.0
    if m < -band: return 'infeasible'
    if inexact:
        # exactly zero in the library only where the species is nothing but a fully converted reactant; a species that another
        # member of a set exhausts as a CO-reactant is a knife edge even if a later member converts it with X = 1
        exact = (_full_reactant_slots(tree) - _coreactant_slots(tree)) if tree is not None else set()
        edge = (n_ref < n0) & (np.abs(n_ref) <= band)
        for idx in zip(*np.nonzero(edge)):
            if tuple(int(i) for i in idx) not in exact: return 'either'
        return 'ok'
    if m >= -TOLERANCES['feasible_band'] * s: return 'ok'
    return 'either'

def call_reaction(rxn, tgt, match, expect_reject=None):
    """run the real call; returns 'ok' | 'infeasible'; raises Rejected / Violation"""
    from thermosteam.exceptions import InfeasibleRegion, UndefinedChemical
    try:
        rxn(tgt.arg)
    except InfeasibleRegion:
        return 'infeasible'
    except ValueError as e:
        if expect_reject == 'ValueError': raise Rejected('ValueError:phases-do-not-match', cut=True)
        raise Violation('unexpected-exception', f'ValueError: {e}', match=dict(match, exc='ValueError'))
    except UndefinedChemical as e:
        if expect_reject == 'UndefinedChemical': raise Rejected('UndefinedChemical', cut=True)
        raise Violation('unexpected-exception', f'UndefinedChemical: {e}', match=dict(match, exc='UndefinedChemical'))
    except (Violation, Rejected): raise
    except Exception as e:
        raise Violation('unexpected-exception', f'{type(e).__name__}: {e}', match=dict(match, exc=type(e).__name__))
    if expect_reject:
        raise Violation('missing-rejection', f'the call was expected to be rejected with {expect_reject} but returned normally',
                        match=dict(match, expected=expect_reject))
    return 'ok'

def check_outcome(tree, tgt, wt_rxn, outcome, match, detail=None):
    """compare the target after the call with the reference model; tree is a RefRxn tree (rc.ref_apply)"""
    n0 = tgt.n0
    raw_wt = wt_rxn and tgt.units == 'raw'          # array elements are reacted as they are: weight stoichiometry
    if tgt.units == 'mass':
        # numbers handed over are mass flows of the stream; the reference works on them with the weight stoichiometry
        m0 = n0 * rc.MW()
        m_ref = rc.ref_apply(tree, m0, wt=True)
        n_ref = m_ref / rc.MW()
    elif raw_wt:
        n_ref = rc.ref_apply(tree, n0, wt=True)
    else:
        n_ref = rc.ref_apply(tree, n0, wt=False)
    inexact = wt_rxn and tgt.units != 'raw'
    exp = expected_outcome(n_ref, n0, tree, inexact)
    detail = dict(detail or {}, feed=n0, reference=n_ref, expected=exp, observed_outcome=outcome)
    if outcome == 'infeasible':
        if exp == 'ok':
            raise Violation('spurious-infeasible', 'InfeasibleRegion raised although the reference has no negative entry '
                            f'(min {float(n_ref.min()):.3g})', match=match, detail=detail, residual=abs(float(n_ref.min())))
        return n_ref, exp
    if exp == 'infeasible':
        got = tgt.read()
        raise Violation('negative-not-rejected', 'the conversion requires a negative flow '
                        f'(reference min {float(n_ref.min()):.6g}) but the call returned normally; target min {float(got.min()):.6g}',
                        match=match, detail=dict(detail, observed=got), residual=abs(float(n_ref.min())))
    tgt.structure_violations(match)
    got = tgt.read()
    detail['observed'] = got
    s_ = _scale(n0)
    wrong = got.shape != n0.shape or float(np.abs(got - np.maximum(n_ref, 0)).max()) > FLOW_RTOL * s_
    if wrong and tgt.stream is not None and tgt.pkg != 'P':
        # specific signature: the flow data was left laid out in the REACTION's chemical order
        dense = np.array(tgt.stream.imol.data.to_array(), float)
        if dense.shape == n_ref.shape and float(np.abs(dense - np.maximum(n_ref, 0)).max()) <= FLOW_RTOL * s_:
            raise Violation('target-restored', 'after the call the stream is back on its own package but its flow data is still laid out in the '
                            f'reaction\'s chemical order: by position {dense.tolist()}, by name {got.tolist()}',
                            match=dict(match, field='reaction-order'), detail=detail)
    if wrong and got.shape == n0.shape and (got == n0).all() and float(np.abs(n_ref - n0).max()) > FLOW_RTOL * s_:
        raise Violation('no-effect', 'the call returned normally and left the target exactly as it was, although the conversion moves '
                        f'{float(np.abs(n_ref - n0).max()):.6g} of a chemical', match=match, detail=detail)
    if got.shape != n0.shape:
        raise Violation('flows', f'shape {got.shape} != {n0.shape}', match=dict(match, kind='shape'), detail=detail)
    if got.min() < 0:
        raise Violation('negative-flow', f'normal return with a negative flow {float(got.min()):.3g}', match=match, detail=detail,
                        residual=abs(float(got.min())))
    s = _scale(n0)
    err = float(np.abs(got - np.maximum(n_ref, 0 if exp != 'infeasible' else n_ref)).max())
    if err > FLOW_RTOL * s:
        i = np.unravel_index(int(np.abs(got - n_ref).argmax()), got.shape)
        raise Violation('flows', f'flows after the call differ from n + X*n[r]*nu by {err:.6g} at {IDS[i[-1]]} '
                        f'(observed {got[i]:.9g}, reference {n_ref[i]:.9g}; feed {n0[i]:.9g})', match=match, detail=detail, residual=err / s)
    # balances on the OBSERVED result, independently of the reference
    if raw_wt:
        mass0, mass1 = float(n0.sum()), float(got.sum())
        at0, at1 = rc.atoms_of(n0 / rc.MW()), rc.atoms_of(got / rc.MW())
    else:
        mass0, mass1 = rc.mass_of(n0), rc.mass_of(got)
        at0, at1 = rc.atoms_of(n0), rc.atoms_of(got)
    tol = TOLERANCES['balance_rtol']
    if abs(mass1 - mass0) > tol * max(mass0, 1e-300) + 1e-12:
        raise Violation('mass-balance', f'total mass {mass0:.12g} -> {mass1:.12g}', match=match, detail=detail,
                        residual=abs(mass1 - mass0) / max(mass0, 1e-300))
    for e, a, b in zip(rc.ELEMENTS, at0, at1):
        if abs(a - b) > tol * max(a, 1e-300) + 1e-12:
            raise Violation('atom-balance', f'element {e}: {a:.12g} -> {b:.12g}', match=dict(match, element=e), detail=detail,
                            residual=abs(a - b) / max(a, 1e-300))
    if tgt.stream is not None:
        fm = float(tgt.stream.F_mass)
        if abs(fm - mass0) > tol * max(mass0, 1e-300) + 1e-12:
            raise Violation('mass-balance', f'stream.F_mass {mass0:.12g} -> {fm:.12g}', match=dict(match, via='F_mass'), detail=detail,
                            residual=abs(fm - mass0) / max(mass0, 1e-300))
    return n_ref, exp


def moved(tree, n0, wt=False):
    d = rc.ref_apply(tree, n0, wt) - n0
    return bool(np.abs(d).max() > 0) if d.size else False

# ---------------------------------------------------------------------------------------------------------
# layer 1: single reactions

class St:
    pass

@rc.guard_build
class Single(System):
    name = 'c05.single'
    nontrivial_per_config = True

    def warm(self): _load()
    def reset_globals(self): rc.reset_reaction_globals()
    def depth(self, tier): return 1
    def describe(self, tier):
        return dict(menu=[MENU[i][0] for i in rc.menu_range(tier)], feeds=list(FEEDS if tier == 'quick' else FEEDS_T), X=list(self._X(tier)))

    def _X(self, tier): return (0.0, 0.3, 1.0) if tier == 'quick' else (0.0, 0.3, 0.5, 0.75, 1.0)

    def configs(self, tier, seed):
        self.Xs = self._X(tier)          # set in the master before the workers are forked
        self.tier = tier
        cfgs = []
        for ri in rc.menu_range(tier):
            for reactant in rc.reactants_of(ri):
                seen_maps = []
                for tag in (('none', 'nat', 'wg') if tier == 'quick' else ('none', 'nat', 'wg', 'ws', 'gl', 'vap')):
                    if tag == 'wg' and 'H2O' not in MENU[ri][1]: continue
                    if tag in ('ws', 'gl', 'vap'):                 # thorough only: further phase sets; skip duplicates
                        tm = rc.tags_of(ri, tag)
                        if tm in seen_maps: continue
                    if tag != 'none': seen_maps.append(rc.tags_of(ri, tag))
                    for form in ('str', 'dict'):
                        for route in rc.ROUTES:
                            for scale in (1.0, 2.0):
                                dev = (form != 'str') + (route != 'mol') + (scale != 1.0)
                                if tier == 'quick':
                                    # all single deviations from (str, mol, 1.0) + the seed-selected slice of double deviations
                                    if dev > 1:
                                        sl = (ri + len(reactant)) % 3
                                        if not (dev == 2 and sl == seed % 3 and route in ('mol', 'wt-set')): continue
                                cfgs.append((ri, reactant, tag, form, route, scale))
        k = seed % len(cfgs)
        return cfgs[k:] + cfgs[:k]

    def build(self, config):
        ri, reactant, tag, form, route, scale = config
        st = St()
        st.config = config
        st.tagmap = rc.tags_of(ri, tag)
        st.rxn = rc.make_reaction(ri, reactant, 1.0, form, None if tag == 'none' else tag, route, scale)
        st.digest0 = rc.rxn_digest(st.rxn)
        st.last = None
        st.tier_X = None
        return st

    def actions(self, st):
        ri, reactant, tag, form, route, scale = st.config
        acts = []
        targets = single_targets(st.tagmap is not None, route, self.tier != 'quick')
        if self.tier == 'quick' and ((form != 'str') + (route != 'mol') + (scale != 1.0) >= 1 or tag == 'wg'):
            # deviation configurations: the core targets only (every target kind is covered by the base configurations)
            core = ('S.l', 'SR', 'A', 'Smass', 'Smol', 'M', 'MR', 'A2', 'V2', 'Mmass')
            targets = [t_ for t_ in targets if t_ in core]
        for tk in targets:
            for f in (FEEDS if self.tier == 'quick' else FEEDS_T):
                if tk in ('S.l', 'S.g', 'Mwrong') and st.tagmap is not None and f not in ('excess', 'zero'): continue
                if tk == 'SXn' and f not in ('excess', 'stoich'): continue
                if tk == 'SB':
                    am = feed_amounts(ri, reactant, f)
                    if any(k not in rc.PKG_ORDER['B'] for k, x in am.items() if x): continue
                for X in self.Xs:
                    if self.tier == 'quick' and X == 0.0 and f not in ('excess', 'stoich', 'zero'): continue
                    if self.tier == 'quick' and f == 'fp' and X != 1.0: continue
                    acts.append((tk, f, X))
        return acts

    Xs = (0.0, 0.3, 1.0)
    tier = 'thorough'

    def step(self, st, a):
        tk, f, X = a
        ri, reactant, tag, form, route, scale = st.config
        wt = route != 'mol'
        spread = tk.endswith('+')
        n0 = feed_array(ri, reactant, f, st.tagmap, spread)
        phases = rc.phases_of(st.tagmap) if st.tagmap else ()
        match = dict(target=tk, tagged=bool(st.tagmap), basis='wt' if wt else 'mol')
        tgt = Target(tk, n0, phases)
        rxn = st.rxn
        rxn.X = X
        ref = rc.RefRxn(ri, reactant, X, None if tag == 'none' else tag)
        reject = None
        if st.tagmap is not None and tk in ('S.l', 'S.g', 'Mwrong'): reject = 'ValueError'
        if tk == 'SXn': reject = 'UndefinedChemical'
        if tk == 'SB':
            # a product of the reaction that the stream's package lacks cannot be written back
            n_ref = rc.ref_apply(ref, n0)
            if any(IDS[i] not in rc.PKG_ORDER['B'] for i in np.nonzero(n_ref)[0]): reject = 'UndefinedChemical'
        d0 = rc.rxn_digest(rxn)
        outcome = call_reaction(rxn, tgt, match, reject)
        d1 = rc.rxn_digest(rxn)
        if d1 != d0:
            raise Violation('reaction-mutated', 'calling the reaction changed the reaction object', match=match,
                            detail=dict(before=repr(d0), after=repr(d1)))
        n_ref, exp = check_outcome(ref, tgt, wt, outcome, match, detail=dict(reaction=rxn))
        st.last = (tk, f, X, outcome)
        st.moved = moved(ref, n0)
        st.exp = exp
        return (outcome, bool(st.moved))

    def canon(self, st):
        return (st.config, rc.rxn_digest(st.rxn), st.last)

    def nontrivial(self, st, a, obs):
        return bool(st.moved) or obs[0] == 'infeasible'

    def outcome(self, st, a, obs):
        ri, reactant, tag, form, route, scale = st.config
        return repr((a[0], tag != 'none', route != 'mol', obs, a[1]))


# ---------------------------------------------------------------------------------------------------------
# layer 1b: sets

ITEMS_FULL = [(ri, r) for ri in range(len(MENU)) for r in rc.reactants_of(ri)]       # thorough: the whole menu, every reactant
ITEMS_TRI_T = [(0, 'H2'), (2, 'CH4'), (11, 'CH4'), (3, 'CO'), (1, 'Glucose'), (7, 'Glucose'), (9, 'Ethanol'), (0, 'O2'),
               (21, 'O2'), (19, 'Glucose'), (18, 'H2'), (16, 'CO2')]
ITEMS_CORE = [(0, 'H2'), (2, 'CH4'), (1, 'Glucose'), (8, 'Glucose'), (3, 'CO'), (5, 'CO'), (4, 'Ethanol'), (2, 'O2')]
ITEMS_TRI = [(0, 'H2'), (2, 'CH4'), (11, 'CH4'), (3, 'CO'), (1, 'Glucose'), (7, 'Glucose'), (9, 'Ethanol'), (0, 'O2')]
FOURS = [((0, 'H2'), (2, 'CH4'), (3, 'CO'), (9, 'Ethanol')), ((1, 'Glucose'), (8, 'Glucose'), (7, 'Glucose'), (4, 'Ethanol')),
         ((11, 'CH4'), (3, 'CO'), (5, 'CO'), (0, 'H2')), ((6, 'CH4'), (5, 'CO'), (10, 'H2'), (2, 'CH4'))]
# phase-tagged items that share the phase tuple ('g','l')  /  ('g','l','s')
TAGGED_GL = [(0, 'H2'), (2, 'CH4'), (4, 'Ethanol'), (9, 'Ethanol'), (5, 'CO'), (6, 'CH4'), (0, 'O2')]
TAGGED_GLS = [(1, 'Glucose'), (7, 'Glucose')]

SET_FEEDS = ('gen', 'ones', 'lean', 'zero', 'mixed', 'big')
XPATS = ('p3', 'one', 'mix', 'zero')
SET_FEEDS_T = SET_FEEDS + ('mixed2', 'lean2')      # thorough, for triples / 4-tuples / nested / tagged sets
XPATS_T = XPATS + ('half', 'desc')

def set_feed(name, items, tagmaps):
    base = np.zeros(N)
    if name == 'gen': base[:] = 8.0
    elif name == 'ones': base[:] = 1.0
    elif name == 'lean':
        for ri, r in items: base[POS[r]] = 2.0
    elif name == 'zero': pass
    elif name == 'mixed':
        base[:] = [2.5, 8.0, 0.375, 1.0, 2.0, 0.0, 4.0, 0.5, 0.25]
    elif name == 'big':
        base[:] = 8000.0; base[POS[items[0][1]]] = 1. / 512.
    elif name == 'mixed2':
        base[:] = [0.25, 64.0, 4.0, 0.5, 0.375, 2.0, 1.0, 2.5, 0.0]
    elif name == 'lean2':                       # reactants of the items at 2, oxygen and water plentiful, nothing else
        for ri, r in items: base[POS[r]] = 2.0
        base[POS['O2']] += 32.0; base[POS['H2O']] += 32.0
    if tagmaps is None: return base
    tm = {}
    for t_ in tagmaps: tm.update(t_)
    phases = tuple(sorted(set(tm.values())))
    n = np.zeros((len(phases), N))
    for i, ID in enumerate(IDS):
        p = phases.index(tm[ID]) if ID in tm else 0
        n[p, i] = base[i]
    return n

def xpat(name, k):
    if name == 'p3': return tuple([0.3] * k)
    if name == 'one': return tuple([1.0] * k)
    if name == 'zero': return tuple([0.0] * k)
    if name == 'mix': return tuple([0.3, 1.0, 0.0, 0.5][i % 4] for i in range(k))
    if name == 'half': return tuple([0.5] * k)
    if name == 'desc': return tuple([1.0, 0.5, 0.3, 0.0][i % 4] for i in range(k))
    raise ValueError(name)

SET_KINDS = ('P', 'S', 'Y', 'item', 'slice')


@rc.guard_build
class Sets(System):
    name = 'c05.sets'
    tier = 'thorough'

    def warm(self): _load()
    def reset_globals(self): rc.reset_reaction_globals()
    def depth(self, tier): return 1
    def describe(self, tier):
        q = tier == 'quick'
        return dict(kinds=list(SET_KINDS) + ['nested'] + ([] if q else ['nested2']), feeds=list(SET_FEEDS if q else SET_FEEDS_T),
                    X_patterns=list(XPATS if q else XPATS_T))

    def configs(self, tier, seed):
        self.tier = tier
        cfgs = []
        quick = tier == 'quick'
        pairs = ITEMS_CORE[:6] if quick else ITEMS_FULL
        routes = ('mol', 'wt-set') if quick else ('mol', 'wt-set', 'wt-direct', 'wt-setcopy')
        for a, b in itertools.product(pairs, repeat=2):
            for kind in SET_KINDS:
                for route in routes:
                    if route == 'wt-setcopy' and kind not in ('P', 'S'): continue
                    cfgs.append((kind, (a, b), 'none', route))
        tri = ITEMS_TRI[:4] if quick else ITEMS_TRI
        for its in itertools.product(tri, repeat=3):
            for kind in ('P', 'S', 'Y'):
                for route in (('mol',) if quick else ('mol', 'wt-set')):
                    cfgs.append((kind, its, 'none', route))
        for its in FOURS:
            for kind in ('P', 'S', 'Y', 'nested', 'slice'):
                for route in ('mol', 'wt-set'):
                    cfgs.append((kind, its, 'none', route))
        for its in itertools.product(ITEMS_TRI[:5], repeat=3):
            if quick and its[0] != ITEMS_TRI[seed % 5]: continue
            for route in ('mol', 'wt-set'):
                cfgs.append(('nested', its, 'none', route))
        # phase-tagged sets
        for pool in ((TAGGED_GL[:4] if quick else TAGGED_GL), TAGGED_GLS):
            for its in itertools.product(pool, repeat=2):
                for kind in SET_KINDS:
                    for route in ('mol', 'wt-set'):
                        cfgs.append((kind, its, 'nat', route))
        for its in itertools.product(TAGGED_GL[:3] if quick else TAGGED_GL[:4], repeat=3):
            for kind in ('P', 'S', 'Y', 'nested'):
                cfgs.append((kind, its, 'nat', 'mol'))
        if not quick:
            have = set(cfgs)
            def add(c):
                if c not in have: have.add(c); cfgs.append(c)
            # deeper thorough tier: triples over 12 items, ALL 4-tuples over 5 items, second nested shape, wider tagged pools
            for its in itertools.product(ITEMS_TRI_T, repeat=3):
                for kind in ('P', 'S', 'Y'):
                    for route in ('mol', 'wt-set'): add((kind, its, 'none', route))
            for its in itertools.product(ITEMS_TRI[:5], repeat=4):
                for kind in ('P', 'S', 'Y', 'nested', 'nested2', 'slice'):
                    for route in ('mol', 'wt-set'): add((kind, its, 'none', route))
            for its in itertools.product(ITEMS_TRI[:6], repeat=3):
                for kind in ('nested', 'nested2'):
                    for route in ('mol', 'wt-set'): add((kind, its, 'none', route))
            for its in itertools.product(TAGGED_GL[:5], repeat=3):
                for kind in ('P', 'S', 'Y', 'nested', 'nested2'):
                    for route in ('mol', 'wt-set'): add((kind, its, 'nat', route))
            for its in itertools.product(TAGGED_GL[:3], repeat=4):
                for kind in ('P', 'S', 'Y', 'nested', 'nested2'): add((kind, its, 'nat', 'mol'))
            for its in itertools.product(TAGGED_GLS, repeat=3):
                for kind in ('P', 'S', 'Y', 'nested'):
                    for route in ('mol', 'wt-set'): add((kind, its, 'nat', route))
        k = seed % len(cfgs)
        return cfgs[k:] + cfgs[:k]

    # -- building the real set and the reference tree ---------------------------------------------------------
    def _make(self, config, Xs):
        t = fx.tmo()
        kind, items, tag, route = config
        tg = None if tag == 'none' else tag
        r_route = 'mol' if route == 'wt-setcopy' else route
        rx = [rc.make_reaction(ri, r, X, 'str', tg, r_route) for (ri, r), X in zip(items, Xs)]
        refs = [rc.RefRxn(ri, r, X, tg) for (ri, r), X in zip(items, Xs)]
        if kind == 'P':
            obj = t.ParallelReaction(rx); tree = ('P', refs)
        elif kind == 'S':
            obj = t.SeriesReaction(rx); tree = ('S', refs)
        elif kind == 'Y':
            obj = t.ReactionSystem(*rx); tree = ('Y', refs)
        elif kind == 'item':
            obj = t.ParallelReaction(rx)[len(rx) - 1]; tree = refs[-1]
        elif kind == 'slice':
            obj = t.SeriesReaction(rx)[1:]; tree = ('S', refs[1:])
        elif kind == 'nested':
            k = len(rx)
            if k == 3:
                obj = t.ReactionSystem(t.ParallelReaction(rx[:2]), rx[2]); tree = ('Y', [('P', refs[:2]), refs[2]])
            else:
                obj = t.ReactionSystem(t.ParallelReaction(rx[:2]), t.SeriesReaction(rx[2:]), rx[0])
                tree = ('Y', [('P', refs[:2]), ('S', refs[2:]), refs[0]])
        elif kind == 'nested2':
            k = len(rx)
            if k == 3:
                obj = t.ReactionSystem(rx[0], t.SeriesReaction(rx[1:])); tree = ('Y', [refs[0], ('S', refs[1:])])
            else:
                obj = t.ReactionSystem(t.SeriesReaction(rx[:2]), t.ParallelReaction(rx[2:]), rx[1])
                tree = ('Y', [('S', refs[:2]), ('P', refs[2:]), refs[1]])
        else: raise ValueError(kind)
        if route == 'wt-setcopy':
            obj = obj.copy(basis='wt')
        return obj, tree, rx

    def build(self, config):
        st = St()
        st.config = config
        kind, items, tag, route = config
        st.tagmaps = None if tag == 'none' else [rc.tags_of(ri, tag) for ri, r in items]
        st.last = None
        st.moved = False
        return st

    def actions(self, st):
        kind, items, tag, route = st.config
        wt = route != 'mol'
        if tag == 'none':
            targets = ['S.g', 'SR', 'A', 'Smass' if wt else 'Smol']
        else:
            targets = ['M', 'MR', 'A2', 'Mmass' if wt else 'Mdata']
        quick = self.tier == 'quick'
        feeds = [f for f in SET_FEEDS if not (quick and f == 'ones')]
        xps = [x for x in XPATS if not (quick and x == 'zero')]
        if not quick and (len(items) > 2 or tag != 'none' or kind.startswith('nested')):
            feeds = list(SET_FEEDS_T); xps = list(XPATS_T)
            targets = targets + (['V'] if tag == 'none' else ['V2', 'M+'])
        return [(tk, f, xp) for tk in targets for f in feeds for xp in xps]

    def step(self, st, a):
        tk, f, xp = a
        kind, items, tag, route = st.config
        wt = route != 'mol'
        Xs = xpat(xp, len(items))
        match = dict(target=tk, tagged=tag != 'none', basis='wt' if wt else 'mol', kind=kind, route=route)
        try:
            obj, tree, rx = self._make(st.config, Xs)
        except Violation: raise
        except Exception as e:
            raise Violation('unexpected-exception', f'building the set: {type(e).__name__}: {e}',
                            match=dict(match, exc=type(e).__name__, where='build'))
        n0 = set_feed(f, items, st.tagmaps)
        if st.tagmaps:
            tm = {}
            for t_ in st.tagmaps: tm.update(t_)
            phases = tuple(sorted(set(tm.values())))
        else: phases = ()
        tgt = Target(tk, n0, phases)
        d0 = rc.rxn_digest(obj)
        outcome = call_reaction(obj, tgt, match)
        d1 = rc.rxn_digest(obj)
        if d1 != d0:
            raise Violation('reaction-mutated', 'calling the reaction set changed it', match=match,
                            detail=dict(before=repr(d0), after=repr(d1)))
        check_outcome(tree, tgt, wt, outcome, match, detail=dict(reaction=obj))
        st.moved = moved(tree, n0)
        st.last = (a, outcome)
        # collision: two items draw on the same chemical (what distinguishes parallel from series)
        return (outcome, bool(st.moved))

    def canon(self, st): return (st.config, st.last)

    def nontrivial(self, st, a, obs):
        return bool(st.moved) or obs[0] == 'infeasible'

    def outcome(self, st, a, obs):
        kind, items, tag, route = st.config
        shared = len({r for _, r in items}) < len(items)
        return repr((kind, tag, route != 'mol', a[0], a[1], a[2], obs, shared))



# ---------------------------------------------------------------------------------------------------------
# layer 1c: stoichiometries completed by the library (correct_atomic_balance)

@rc.guard_build
class Balance(System):
    """The stoichiometry is written with WRONG magnitudes (every coefficient that is to be solved is written as +-1) and completed by
    `correct_atomic_balance`: through the constructor flag, through the method with its default (the reactant is held constant), and
    with the documented `constants=[...]` argument holding every subset of 1-2 species constant (written k x their true coefficient),
    with and without the reactant among them.  Only (reaction, constants) pairs whose remaining coefficients are uniquely determined
    by the element balance are enumerated.  Oracle: the balanced object is the menu reaction normalised on its reactant, and applied
    to a target it consumes exactly X x feed of the reactant (same oracle as c05.single)."""
    name = 'c05.balance'
    tier = 'thorough'

    def warm(self): _load()
    def reset_globals(self): rc.reset_reaction_globals()
    def depth(self, tier): return 1

    def configs(self, tier, seed):
        self.tier = tier
        cfgs = []
        for ri in rc.menu_range(tier):
            d = MENU[ri][1]
            species = list(d)
            for r in rc.reactants_of(ri):
                for tag in (('none', 'nat') if tier == 'quick' else ('none', 'nat', 'wg', 'gl')):
                    if tag == 'wg' and 'H2O' not in d or tag == 'gl' and 'Glucose' not in d: continue
                    for when in ('mol', 'wt-before'):
                        modes = [('ctor', ()), ('default', ())] if when == 'mol' else [('default', ())]
                        for n in ((1, 2) if tier == 'quick' else (1, 2, 3)):
                            for cs in itertools.combinations(species, n):
                                modes.append(('constants', cs))
                        for mode, cs in modes:
                            held = set(cs) if mode == 'constants' else {r}
                            unknown = [k for k in species if k not in held]
                            if not unknown: continue
                            A = rc.ATOM_MATRIX[:, [POS[k] for k in unknown]]
                            A = A[np.abs(A).sum(1) > 0]
                            if np.linalg.matrix_rank(A) < len(unknown): continue          # underspecified: documented RuntimeError
                            for k in ((1.0, 2.0) if tier == 'quick' else (1.0, 2.0, 0.5, 3.0)):
                                if tier == 'quick' and k == 2.0 and mode != 'constants': continue
                                cfgs.append((ri, r, tag, when, mode, cs, k))
        kk = seed % len(cfgs)
        return cfgs[kk:] + cfgs[:kk]

    def build(self, config):
        t = fx.tmo()
        ri, r, tag, when, mode, cs, k = config
        st = St(); st.config = config
        st.tagmap = rc.tags_of(ri, None if tag == 'none' else tag)
        d = MENU[ri][1]
        held = set(cs) if mode == 'constants' else {r}
        written = {sp: (k * x if sp in held else (1.0 if x > 0 else -1.0)) for sp, x in d.items()}
        chems = rc.package('P').chemicals
        st.error = None
        try:
            if mode == 'ctor':
                st.rxn = rc.build_reaction(rc.as_string(written, st.tagmap), r, 1.0, chems, correct_atomic_balance=True)
            else:
                st.rxn = rc.build_reaction(rc.as_string(written, st.tagmap), r, 1.0, chems)
                if when == 'wt-before': st.rxn.basis = 'wt'
                if mode == 'default': st.rxn.correct_atomic_balance()
                else: st.rxn.correct_atomic_balance(list(cs))
        except Violation: raise
        except Exception as e:
            st.rxn = None; st.error = f'{type(e).__name__}: {e}'
        st.last = None; st.moved = False
        return st

    def actions(self, st):
        tks = ['S.g', 'A'] if st.tagmap is None else ['M', 'A2']
        acts = [('stoichiometry',)]
        for tk in tks:
            for f in (('excess', 'stoich', 'limit') if self.tier == 'quick' else ('excess', 'stoich', 'limit', 'rich', 'half', 'only-r')):
                for X in ((0.3, 1.0) if self.tier == 'quick' else (0.0, 0.3, 0.5, 1.0)):
                    if self.tier == 'quick' and tk in ('A', 'A2') and f != 'excess': continue
                    acts.append((tk, f, X))
        return acts

    def step(self, st, a):
        ri, r, tag, when, mode, cs, k = st.config
        wt = when != 'mol'
        match = dict(mode=mode, tagged=tag != 'none', basis='wt' if wt else 'mol',
                     reactant_held=(r in cs) if mode == 'constants' else True)
        if st.rxn is None:
            raise Violation('unexpected-exception', f'balancing a uniquely determined stoichiometry failed: {st.error}',
                            match=dict(match, exc=st.error.split(':')[0], where='balance'))
        tg = None if tag == 'none' else tag
        if a[0] == 'stoichiometry':
            ref = rc.RefRxn(ri, r, 1.0, tg)
            nu = np.array(st.rxn.stoichiometry.to_array(), float)
            want = ref.nu_wt() if wt else ref.nu
            err = float(np.abs(nu - want).max())
            if not np.isfinite(nu).all() or err > 1e-9 * float(np.abs(want).max()):
                raise Violation('balanced-stoichiometry', f'after correct_atomic_balance the stoichiometry is {nu.tolist()}, the balanced reaction '
                                f'normalised on {r} is {want.tolist()}', match=match, residual=err, detail=dict(reaction=st.rxn))
            st.last = a
            return ('stoichiometry',)
        tk, f, X = a
        match['target'] = tk
        n0 = feed_array(ri, r, f, st.tagmap)
        phases = rc.phases_of(st.tagmap) if st.tagmap else ()
        tgt = Target(tk, n0, phases)
        st.rxn.X = X
        ref = rc.RefRxn(ri, r, X, tg)
        outcome = call_reaction(st.rxn, tgt, match)
        check_outcome(ref, tgt, wt, outcome, match, detail=dict(reaction=st.rxn))
        st.moved = moved(ref, n0)
        st.last = (a, outcome)
        return (outcome, bool(st.moved))

    def canon(self, st): return (st.config, None if st.rxn is None else rc.rxn_digest(st.rxn), st.last)
    def nontrivial(self, st, a, obs): return bool(st.moved) or obs[0] in ('infeasible', 'stoichiometry')
    def outcome(self, st, a, obs):
        ri, r, tag, when, mode, cs, k = st.config
        return repr((mode, tag, when, (r in cs) if mode == 'constants' else None, len(cs), k, a[0], obs))


# ---------------------------------------------------------------------------------------------------------
# layer 1d: reactions produced by reaction ALGEBRA, applied to feeds

ALG_FAMILIES = [
    # (tag, reactant, menu name a, menu name b)
    ('none', 'Glucose', 'ferment', 'acet'), ('none', 'Glucose', 'ferment', 'gluccomb'), ('none', 'Ethanol', 'etox', 'etcomb'),
    ('none', 'CH4', 'ch4comb', 'partox'), ('none', 'CH4', 'ch4comb', 'smr'), ('none', 'O2', 'h2comb', 'cocomb'), ('none', 'O2', 'h2comb', 'ch4comb'),
    ('nat', 'H2O', 'elec', 'wgs'), ('nat', 'Ethanol', 'etox', 'etcomb'), ('nat', 'CH4', 'ch4comb', 'partox'),
]
ALG_FAMILIES_T = ALG_FAMILIES + [
    ('none', 'Glucose', 'glucacid', 'glucreform'), ('none', 'O2', 'etmixed', 'ch4mixed'), ('none', 'CH4', 'ch4mixed', 'dryreform'),
    ('none', 'Ethanol', 'etpartox', 'etmixed'), ('wg', 'O2', 'h2comb', 'ch4comb'), ('nat', 'O2', 'h2comb', 'ch4comb'), ('nat', 'Glucose', 'ferment', 'gluccomb'),
    ('vap', 'Ethanol', 'etox', 'etreform'), ('none', 'H2', 'h2comb', 'sabatier'), ('none', 'CO', 'cocomb', 'wgs'),
]
ALG_OPS = ('add', 'radd', 'sub', 'iadd', 'isub', 'mulk', 'isub-iadd', 'reduce')

def _ref_from_extent(E, ridx, phases, name):
    X = -float(E[ridx])
    r = object.__new__(rc.RefRxn)
    r.nu = E / X; r.ridx = ridx; r.X = X; r.phases = phases; r.name = name
    return r

@rc.guard_build
class Algebra(System):
    """The result of reaction arithmetic — a+b, b+a, a-b, a+=b, a-=b, 2*a, (a-=b; a+=b), ParallelReaction([a,b]).reduce() — for two
    reactions on one reactant, with EVERY combination of operand bases (mol/mol, mol/wt, wt/mol, wt/wt), is applied to streams and
    arrays.  Oracle: the c05.single oracle with the extent vector Ea (+/-) Eb as reference, i.e. mass and every element conserved,
    exact conversion, feasibility, both bases giving the same stream."""
    name = 'c05.algebra'
    def warm(self): _load()
    def reset_globals(self): rc.reset_reaction_globals()
    def depth(self, tier): return 1

    def configs(self, tier, seed):
        self.tier = tier
        fams = ALG_FAMILIES if tier == 'quick' else ALG_FAMILIES_T
        cfgs = []
        for fi in range(len(fams)):
            for Xs in (((0.2, 0.5), (0.5, 0.2)) if tier == 'quick' else ((0.2, 0.5), (0.5, 0.2), (0.3, 0.3), (1.0, 0.25))):
                for ba in ('mol', 'wt'):
                    for bb in ('mol', 'wt'):
                        for op in ALG_OPS:
                            if op == 'reduce' and ba != bb: continue
                            if op in ('sub', 'isub') and Xs[0] == Xs[1]: continue           # no reaction on that reactant represents it
                            cfgs.append((fi, Xs, ba, bb, op))
        k = seed % len(cfgs)
        return cfgs[k:] + cfgs[:k]

    def build(self, config):
        t = fx.tmo()
        fi, Xs, ba, bb, op = config
        tag, r, na, nb = ALG_FAMILIES_T[fi]
        tg = None if tag == 'none' else tag
        st = St(); st.config = config
        a = rc.make_reaction(rc.MENU_INDEX[na], r, Xs[0], 'str', tg, 'mol' if ba == 'mol' else 'wt-set')
        b = rc.make_reaction(rc.MENU_INDEX[nb], r, Xs[1], 'str', tg, 'mol' if bb == 'mol' else 'wt-set')
        ra = rc.RefRxn(rc.MENU_INDEX[na], r, Xs[0], tg); rb = rc.RefRxn(rc.MENU_INDEX[nb], r, Xs[1], tg)
        Ea, Eb = ra.nu * Xs[0], rb.nu * Xs[1]
        st.error = None
        st.basis = ba
        try:
            if op == 'add': st.rxn, E = a + b, Ea + Eb
            elif op == 'radd': st.rxn, E, st.basis = b + a, Ea + Eb, bb
            elif op == 'sub': st.rxn, E = a - b, Ea - Eb
            elif op == 'iadd':
                a += b; st.rxn, E = a, Ea + Eb
            elif op == 'isub':
                a -= b; st.rxn, E = a, Ea - Eb
            elif op == 'mulk': st.rxn, E = 2 * (a + b) / 4, (Ea + Eb) / 2
            elif op == 'isub-iadd':
                a += b; a -= b; a += b; st.rxn, E = a, Ea + Eb
            else:
                st.rxn = t.ParallelReaction([a, b]).reduce(); E = Ea + Eb
        except Violation: raise
        except Exception as e:
            st.rxn = None; st.error = f'{type(e).__name__}: {e}'; E = Ea + Eb
        st.ref = _ref_from_extent(E, ra.ridx, ra.phases, f'{na}{op}{nb}')
        st.tagmap = rc.tags_of(rc.MENU_INDEX[na], tg)
        if st.tagmap: st.tagmap = dict(st.tagmap, **rc.tags_of(rc.MENU_INDEX[nb], tg))
        st.reactant = r
        st.last = None; st.moved = False
        return st

    def actions(self, st):
        tks = ['S.g', 'SR', 'A'] if not st.ref.phases else ['M', 'MR', 'A2']
        return [(tk, f) for tk in tks for f in ('wide', 'mixed')]

    def _feed(self, st, f):
        base = np.full(N, 64.0) if f == 'wide' else np.array([2.5, 80.0, 30.375, 11.0, 20.0, 40.0, 4.0, 16.5, 60.25])
        base[POS[st.reactant]] = 1.0 if f == 'wide' else 0.5
        ph = st.ref.phases
        if not ph: return base
        n = np.zeros((len(ph), N))
        for i, ID in enumerate(IDS):
            p = st.tagmap.get(ID, rc.NAT_PHASE[ID])
            if p not in ph: p = ph[0]
            n[ph.index(p), i] = base[i]
        return n

    def step(self, st, a):
        fi, Xs, ba, bb, op = st.config
        tk, f = a
        match = dict(op=op, bases=ba if ba == bb else f'{ba}/{bb}', tagged=bool(st.ref.phases), target=tk)
        if st.rxn is None:
            raise Violation('unexpected-exception', f'{op}: {st.error}', match=dict(match, exc=st.error.split(':')[0], where='algebra'))
        n0 = self._feed(st, f)
        tgt = Target(tk, n0, st.ref.phases)
        outcome = call_reaction(st.rxn, tgt, match)
        check_outcome(st.ref, tgt, st.basis == 'wt', outcome, match, detail=dict(reaction=st.rxn))
        st.moved = moved(st.ref, n0)
        st.last = (a, outcome)
        return (outcome, bool(st.moved))

    def canon(self, st): return (st.config, None if st.rxn is None else rc.rxn_digest(st.rxn), st.last)
    def nontrivial(self, st, a, obs): return bool(st.moved) or obs[0] == 'infeasible'
    def outcome(self, st, a, obs):
        fi, Xs, ba, bb, op = st.config
        return repr((op, ba, bb, bool(st.ref.phases), a[0], obs))

# ---------------------------------------------------------------------------------------------------------
# layer 2: histories — one reaction object reused

HIST_RXNS = [
    ('single', ((0, 'H2'),), 'none'), ('single', ((2, 'O2'),), 'none'), ('single', ((1, 'Glucose'),), 'none'),
    ('single', ((0, 'H2'),), 'nat'), ('single', ((1, 'Glucose'),), 'nat'),
    ('P', ((0, 'H2'), (2, 'CH4')), 'none'), ('S', ((11, 'CH4'), (3, 'CO')), 'none'), ('Y', ((0, 'H2'), (5, 'CO'), (10, 'H2')), 'none'),
    ('P', ((0, 'H2'), (4, 'Ethanol')), 'nat'),
    ('P', ((1, 'Glucose'), (8, 'Glucose')), 'none'), ('P', ((4, 'Ethanol'), (9, 'Ethanol')), 'nat'),       # members share a reactant (reduce() merges them)
]

@rc.guard_build
class History(System):
    """mode 'members': one reaction object reused on three targets, conversions / basis changed in between, members of a set mutated
                       after the set was built
       mode 'pkg'    : ONE stream, two equivalent reaction objects — one defined on the stream's own package, one on a foreign
                       (re-ordered) package — applied in every order on either basis (the stream's cached mass view survives calls)
       mode 'force'  : force_reaction (succeeding, and failing with a documented error) interleaved with ordinary calls; an ordinary
                       call whose conversion needs a negative flow must still raise InfeasibleRegion afterwards.  The module-global
                       `thermosteam.reaction.CHECK_FEASIBILITY` is reset before every execution and is part of the canonical state."""
    nontrivial_per_config = True

    def __init__(self, name='c05.history', mode='members'):
        self.name = name
        self.mode = mode

    def warm(self): _load()
    def reset_globals(self): rc.reset_reaction_globals()
    def depth(self, tier): return 3 if tier == 'quick' else 5
    def describe(self, tier): return dict(reactions=[repr(h) for h in HIST_RXNS], mode=self.mode)

    def configs(self, tier, seed):
        cfgs = [(kind, items, tag, b0) for (kind, items, tag) in HIST_RXNS for b0 in ('mol', 'wt')]
        k = seed % len(cfgs)
        return cfgs[k:] + cfgs[:k]

    def build(self, config):
        t = fx.tmo()
        kind, items, tag, b0 = config
        tg = None if tag == 'none' else tag
        st = St()
        st.config = config
        st.Xs = [0.3] * len(items)
        route = 'mol' if b0 == 'mol' else 'wt-set'
        rx = [rc.make_reaction(ri, r, 0.3, 'str', tg, route) for ri, r in items]
        if kind == 'single': st.rxn = rx[0]
        elif kind == 'P': st.rxn = t.ParallelReaction(rx)
        elif kind == 'S': st.rxn = t.SeriesReaction(rx)
        else: st.rxn = t.ReactionSystem(*rx)
        st.parts = rx
        st.rxn2 = None
        if self.mode == 'pkg':
            rx2 = [rc.make_reaction(ri, r, 0.3, 'str', tg, route, pkg='R') for ri, r in items]
            if kind == 'single': st.rxn2 = rx2[0]
            elif kind == 'P': st.rxn2 = t.ParallelReaction(rx2)
            elif kind == 'S': st.rxn2 = t.SeriesReaction(rx2)
            else: st.rxn2 = t.ReactionSystem(*rx2)
        st.basis = b0
        st.mbasis = [b0] * len(rx)        # basis of every member reaction object (may be changed AFTER the set was built)
        st.mX = [None] * len(rx)          # conversion written to a member reaction object after a Parallel/Series set was built
        st.tagmaps = None if tg is None else [rc.tags_of(ri, tg) for ri, r in items]
        if st.tagmaps:
            tm = {}
            for t_ in st.tagmaps: tm.update(t_)
            st.phases = tuple(sorted(set(tm.values())))
            kinds = ('M', 'MR', 'A2')
        else:
            st.phases = ()
            kinds = ('S.g', 'SR', 'A')
        if self.mode == 'pkg': kinds = kinds[:2]          # streams only: own package P and foreign package R
        if self.mode == 'force': kinds = kinds[:1] + kinds[2:]
        n0 = set_feed('gen', items, st.tagmaps)
        st.targets = [Target(k, n0, st.phases) for k in kinds]
        st.model = [n0.copy() for _ in kinds]          # running reference composition of every target
        st.n_moves = 0
        st.last_moved = False
        return st

    def _tree(self, st):
        kind, items, tag, b0 = st.config
        tg = None if tag == 'none' else tag
        refs = [rc.RefRxn(ri, r, X, tg) for (ri, r), X in zip(items, st.Xs)]
        if kind == 'single': return refs[0]
        return (kind, refs)

    def actions(self, st):
        kind, items, tag, b0 = st.config
        if self.mode == 'pkg':
            acts = [(op, k) for k in range(len(st.targets)) for op in ('apply', 'apply2')]
            if kind == 'single': acts += [('basis', 'wt'), ('basis', 'mol')]
            return acts
        if self.mode == 'force':
            acts = [('apply', 0), ('force', 0), ('force', 1), ('forcebad',), ('probe',), ('setX', 0, 1.0)]
            return acts
        acts = [('apply', k) for k in range(len(st.targets))]
        acts += [('setX', 0, x) for x in (0.0, 0.3, 1.0)]
        if len(items) > 1: acts += [('setX', len(items) - 1, 0.5)]
        if kind == 'single': acts += [('basis', 'wt'), ('basis', 'mol')]
        else:
            # mutate a MEMBER reaction object after the set / system was built, then apply the set
            for i in sorted({0, len(items) - 1}):
                acts += [('mbasis', i, 'wt'), ('mbasis', i, 'mol')]
            if kind in ('P', 'S'): acts += [('mX', len(items) - 1, 0.75)]
            if kind == 'P': acts += [('reduce',)]
        return acts

    def step(self, st, a):
        kind, items, tag, b0 = st.config
        op = a[0]
        st.last_moved = False
        match = dict(op=op, kind=kind, tagged=tag != 'none', basis=st.basis)
        if op == 'setX':
            _, i, x = a
            try:
                if kind == 'single': st.rxn.X = x
                elif kind == 'Y': st.parts[i].X = x
                else: st.rxn[i].X = x            # through a ReactionItem: must reach the set
            except Exception as e:
                raise Violation('unexpected-exception', f'{type(e).__name__}: {e}', match=dict(match, exc=type(e).__name__))
            st.Xs[i] = x
            return ('setX',)
        if op == 'reduce':
            # ParallelReaction.reduce(): the reduced set must act like the original, and the ORIGINAL must still act as before
            tree = self._tree(st)
            wt = st.basis == 'wt'
            try: red = st.rxn.reduce()
            except Exception as e:
                raise Violation('unexpected-exception', f'reduce(): {type(e).__name__}: {e}', match=dict(match, exc=type(e).__name__))
            if any(b != st.basis for b in st.mbasis) or any(x is not None for x in st.mX):
                return ('reduce', 'members-touched')
            for who, obj in (('reduced', red), ('original', st.rxn)):
                tgt = Target(st.targets[0].kind, set_feed('gen', items, st.tagmaps), st.phases)
                m2 = dict(match, target=tgt.kind, who=who)
                outcome = call_reaction(obj, tgt, m2)
                check_outcome(tree, tgt, wt, outcome, m2, detail=dict(reaction=obj))
            return ('reduce', len(red.X))
        if op == 'mbasis':
            _, i, b = a
            try: st.parts[i].basis = b
            except Exception as e:
                raise Violation('unexpected-exception', f'{type(e).__name__}: {e}', match=dict(match, exc=type(e).__name__))
            st.mbasis[i] = b
            return ('mbasis', tuple(st.mbasis))
        if op == 'mX':
            _, i, x = a
            try: st.parts[i].X = x
            except Exception as e:
                raise Violation('unexpected-exception', f'{type(e).__name__}: {e}', match=dict(match, exc=type(e).__name__))
            st.mX[i] = x
            return ('mX',)
        if op == 'basis':
            try:
                st.rxn.basis = a[1]
                if st.rxn2 is not None: st.rxn2.basis = a[1]
            except Exception as e:
                raise Violation('unexpected-exception', f'{type(e).__name__}: {e}', match=dict(match, exc=type(e).__name__))
            st.basis = a[1]
            st.mbasis = [a[1]] * len(st.mbasis)
            ref = self._tree(st)
            nu = np.array(st.rxn.stoichiometry.to_array(), float)
            want = ref.nu_wt() if st.basis == 'wt' else ref.nu
            if not np.allclose(nu, want, rtol=TOLERANCES['stoichiometry_rtol'], atol=1e-300):
                raise Violation('basis-round-trip', f'stoichiometry on basis {st.basis} is {nu.tolist()} expected {want.tolist()}',
                                match=match, residual=float(np.abs(nu - want).max()))
            return ('basis', st.basis)
        if op in ('forcebad', 'probe'):
            tree = self._tree(st)
            wt = st.basis == 'wt'
            if op == 'forcebad':
                # force_reaction on something the reaction must reject: a stream holding a chemical the reaction's package lacks /
                # a single-phase stream for a phase-tagged reaction.  The target is thrown away.
                tk = 'S.l' if st.tagmaps else 'SXn'
                tgt = Target(tk, set_feed('gen', items, st.tagmaps), st.phases)
                match['target'] = tk
                try:
                    st.rxn.force_reaction(tgt.arg)
                except Exception as e:
                    from thermosteam.exceptions import UndefinedChemical
                    if isinstance(e, (UndefinedChemical, ValueError)):
                        return ('forcebad', type(e).__name__)
                    raise Violation('unexpected-exception', f'{type(e).__name__}: {e}', match=dict(match, exc=type(e).__name__))
                raise Violation('missing-rejection', 'force_reaction accepted a target it cannot react', match=match)
            # probe: an ordinary call on a fresh lean feed (reactants only): where the conversion needs a negative flow it must raise
            tgt = Target(st.targets[0].kind, set_feed('lean', items, st.tagmaps), st.phases)
            match['target'] = tgt.kind; match['probe'] = True
            outcome = call_reaction(st.rxn, tgt, match)
            n_ref, exp = check_outcome(tree, tgt, wt, outcome, match, detail=dict(reaction=st.rxn))
            st.last_moved = outcome == 'infeasible'
            return ('probe', outcome)
        if op == 'force':
            _, k = a
            tgt = st.targets[k]
            match['target'] = tgt.kind
            tree = self._tree(st)
            wt = st.basis == 'wt'
            n0 = st.model[k]
            n_ref = rc.ref_apply(tree, n0, wt=wt and tgt.units == 'raw')
            d0 = rc.rxn_digest(st.rxn)
            try: st.rxn.force_reaction(tgt.arg)
            except Exception as e:
                raise Violation('unexpected-exception', f'force_reaction: {type(e).__name__}: {e}', match=dict(match, exc=type(e).__name__))
            if rc.rxn_digest(st.rxn) != d0:
                raise Violation('reaction-mutated', 'force_reaction changed the reaction object', match=match)
            tgt.structure_violations(match)
            got = tgt.read()
            sc = _scale(n0)
            err = float(np.abs(got - n_ref).max())
            if err > FLOW_RTOL * sc:
                raise Violation('flows', f'force_reaction: flows differ from n + X*n[r]*nu by {err:.6g}', match=match, residual=err / sc,
                                detail=dict(feed=n0, reference=n_ref, observed=got))
            st.last_moved = bool(np.abs(n_ref - n0).max() > 0)
            st.model[k] = got
            st.n_moves += 1
            return ('force', bool(got.min() < 0))
        _, k = a
        tgt = st.targets[k]
        match['target'] = tgt.kind
        if op == 'apply2': match['defined_on'] = 'foreign' if tgt.pkg == 'P' else 'own'
        elif self.mode == 'pkg': match['defined_on'] = 'own' if tgt.pkg == 'P' else 'foreign'
        rxn = st.rxn2 if op == 'apply2' else st.rxn
        tree = self._tree(st)
        wt = st.basis == 'wt'
        # the reference continues from the running model composition of that target
        tgt.n0 = st.model[k]
        d0 = rc.rxn_digest(rxn)
        mixed = any(b != st.basis for b in st.mbasis)
        match['members'] = 'rebased' if mixed else ('X-changed' if any(x is not None for x in st.mX) else 'untouched')
        if mixed:
            # a member was moved to another basis after the set was built: the call may refuse (documented RuntimeError of
            # ReactionSystem); if it returns normally it must still do what the reactions say (both bases give the same stream)
            try:
                outcome = call_reaction(rxn, tgt, match)
            except Violation as v:
                if v.clause == 'unexpected-exception' and v.match.get('exc') == 'RuntimeError' and 'same basis' in v.msg:
                    raise Rejected('RuntimeError:not all reactions have the same basis', cut=True)
                raise
        else:
            outcome = call_reaction(rxn, tgt, match)
        if rc.rxn_digest(rxn) != d0:
            raise Violation('reaction-mutated', 'calling the reaction changed the reaction object', match=match)
        def judge():
            try:
                return check_outcome(tree, tgt, wt, outcome, match, detail=dict(reaction=st.rxn))
            except Violation as v:
                # a Parallel/Series set copies the conversions when it is built; whether a later `member.X = x` reaches the set is
                # not stated by the property: both readings are accepted, anything else (and every balance failure) is a violation
                if v.clause in ('flows', 'negative-not-rejected', 'spurious-infeasible') and any(x is not None for x in st.mX):
                    keep = st.Xs; st.Xs = [x if x is not None else y for x, y in zip(st.mX, keep)]
                    try: tree2 = self._tree(st)
                    finally: st.Xs = keep
                    return check_outcome(tree2, tgt, wt, outcome, dict(match, reading='member'), detail=dict(reaction=st.rxn))
                raise
        try:
            n_ref, exp = judge()
        except Violation as v:
            if mixed and v.clause in ('flows', 'negative-not-rejected', 'spurious-infeasible', 'mass-balance', 'atom-balance', 'negative-flow'):
                # one stable signature for "a member was re-based after the set was built and the set then misbehaves"
                raise Violation('member-rebased', f'after member.basis = ... (members now {st.mbasis}, set labelled {st.basis}) the '
                                f'{type(st.rxn).__name__} neither raised a documented error nor did what the reactions say: [{v.clause}] {v.msg}',
                                match=dict(op='apply', kind=kind, tagged=tag != 'none', how='wrong-result' if outcome == 'ok' else 'spurious-infeasible'),
                                detail=v.detail, residual=v.residual)
            raise
        if outcome == 'infeasible':
            raise Rejected('InfeasibleRegion', cut=True)
        st.last_moved = moved(tree, st.model[k], wt and tgt.units == 'raw')
        # continue from what the target really holds (differences are below tolerance) so that errors do not accumulate
        st.model[k] = tgt.read()
        st.n_moves += 1
        return (outcome, st.last_moved)

    def canon(self, st):
        return (st.config, rc.rxn_digest(st.rxn), None if st.rxn2 is None else rc.rxn_digest(st.rxn2), rc.feasibility_flag(),
                tuple(rc.rxn_digest(r) for r in st.parts), tuple(st.Xs), st.basis, tuple(st.mbasis), tuple(st.mX),
                tuple(tuple(fx.r12(x) for x in m.ravel()) for m in st.model),
                tuple((fx.stream_digest(t_.stream)[3], fx.stream_digest(t_.stream)[-1]) if t_.stream is not None else None for t_ in st.targets))

    def nontrivial(self, st, a, obs):
        return bool(st.last_moved) and st.n_moves >= 2        # a reaction object really used more than once

    def outcome(self, st, a, obs):
        return repr((st.config[0], st.config[2], st.basis, a[0], obs, tuple(st.mbasis) if a[0] == 'apply' else None))


SYSTEMS = [Single(), Sets(), Balance(), Algebra(), History(), History('c05.history.pkg', 'pkg'), History('c05.history.force', 'force')]
