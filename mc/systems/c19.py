"""
C19 — the simulation order derived from a flowsheet is complete and follows material flow.

Exhaustive enumeration of flowsheet *shapes* on the real `thermosteam.network` objects
(`AbstractUnit` subclasses with 1-3 fixed inlet / outlet ports, `AbstractStream`s, `ID=None`):

    config  = (n, M, B, F, P, layout, hs)
        n       number of units, labelled 0..n-1 in a topological order of the acyclic part
        M       multiplicity (0-3 parallel streams) of the forward edge i -> j for every pair i < j
        B       multiplicity of the back edge j -> i for the same pairs (acyclic flowsheets: all zero)
        F, P    number of feed / product streams of every unit (ports not used by an edge)
        layout  0: ports are [edges in ascending partner order, back edges, feeds/products]
                1: ports are [feeds/products, back edges, edges in descending partner order]
        hs      hash scheme of units and streams (the library keeps them in sets; the default
                hash is the memory address, i.e. not reproducible; the harness owns it:
                0 = ascending with the label, 1 = descending)
    action  = ('net', permutation of the unit labels)    -> Network.from_units(units in that order)
              history layer only: ('connect', a, oi, b, ii) / ('cut', b, ii) rewire a port first
              rebuild layer: config ('rb', n, MA, MB, sigma, layout, hs); ('net', p) on A, ('repipe',) pipes the same unit objects as B (unit k in role sigma[k]), ('net', p) on B

The reference model is the edge list computed from the configuration (never read back from the
library) and my own reachability / strongly-connected-component computation on it.
"""
from __future__ import annotations
import itertools, warnings
from mc.engine import System, Violation, Rejected, HarnessError

PROPERTY = 'C19'
RULE = ('Every connected DAG on n topologically labelled units (0-3 parallel streams per ordered pair, 1-3 inlet and outlet ports per '
        'unit, unused ports carry feed / product streams) x port layout x EVERY permutation of the unit list given to '
        'Network.from_units (n <= 4; fixed order lists for n = 5, 6), and the same flowsheets with 1-3 added back-edges on additional ports; '
        'one case = (flowsheet configuration, unit order).  A case is non-trivial when the library had to work: acyclic - the given order is not '
        'already topological or the flowsheet branches; cyclic - at least one stream runs against the returned path order and was '
        'checked to lie inside a recycle loop.')
ASSUMPTIONS = [
    'units are AbstractUnit subclasses with fixed port counts and AbstractStream streams (F_mass = 0 for every feed, so the "largest feed" is the '
    'first feed in unit-list order; the prio dimension of c19.acyclic.prio additionally gives every single feed the top feed priority)',
    'n <= 4 units: complete (thorough) for acyclic flowsheets in the edges-first port layout; n = 5 with minimal port counts x all 120 orders; n = 6 with in/out degree <= 2 (parallel streams) and '
    'n = 6 with single streams and degree <= 3 (14 546 flowsheets) x the 12 orders {identity, reverse, all rotations of both} (quick: identity and reverse); sizes 7-10 of the quantifier are NOT explored',
    'port layout: edges-first and feeds/products-first everywhere; every interleaving of the free ports with the edge ports of a port list (applied uniformly over the units: 9 in/out choices x 2 partner '
    'orders) for all n <= 3 flowsheets and for n = 4 with port counts deviating from the minimum in <= 1 place (n = 4: thorough; quick: products-first with 8 fixed orders)',
    'cyclic n = 5: one back edge only; all edge multisets with minimal ports (thorough), single streams with ports deviating in <= 1 place (thorough), single streams with minimal ports (quick); 10 fixed orders',
    'cyclic n = 6 (thorough only): single streams, forward degree <= 2, two distinct CHAINED back edges (head of one = tail of the other, i.e. overlapping loops), ports minimal or minimal + one side product, '
    'edges-first layout, identity and reverse unit order (305 461 flowsheets); overlapping loops at n >= 7 or with more port deviations are not explored',
    'cyclic flowsheets: a back edge gets an additional outlet port on the later unit and an additional inlet port on the earlier one; the feed and '
    'product ports of the acyclic flowsheet are kept, so every unit still reaches a product and every source unit still has a feed; no self loops',
    'cyclic: "contains exactly the given units" is checked as set equality (a unit shared by two loops may be listed in both sub-networks); '
    'a stream runs against the path order iff no occurrence of its source precedes an occurrence of its sink (DESIGN 3b)',
    'set iteration order inside the library is owned through a deterministic __hash__ on the harness subclasses (two schemes), not through memory addresses',
    'no interaction units, no auxiliary units, no disjunctions, no `ends` argument',
    'state the library might keep between two builds (memo dicts, default arguments, attributes on units) cannot be enumerated or reset by the harness; it is exercised instead: '
    'c19.rebuild.* builds a network, re-pipes THE SAME unit objects (3 in / 3 out ports each) from simple DAG A into simple DAG B under every relabelling, and builds again in every unit order '
    '(quick n = 4: 4 base shapes for A and 8 fixed orders); the history layer never merges a state in which a network was built with one in which none was; where `twice` is set every '
    'network is built twice in a row and the two results must be identical (clause second-build-differs). Unit objects of earlier executions in the same worker process are different objects.',
]
TOLERANCES = {}

_tmo = None
_S = None
_U = {}
_Network = None


def _load():
    global _tmo, _S, _Network
    if _tmo is None:
        import thermosteam as tmo
        from thermosteam.network import Network, AbstractStream
        tmo.settings.set_thermo([])
        class S(AbstractStream):
            __slots__ = ('_h', '_k')
            def __hash__(self): return self._h
            def __repr__(self): return f's{self._k}'
        _S = S
        _Network = Network
        _tmo = tmo
    return _tmo


def _ucls(ni, no):
    k = (ni, no)
    c = _U.get(k)
    if c is None:
        tmo = _load()
        class Un(tmo.AbstractUnit):
            _N_ins = ni; _N_outs = no
            def __hash__(self): return self._h
            def __repr__(self): return f'U{self._k}'
            __str__ = __repr__
        _U[k] = c = Un
    return c


# ---- enumeration -------------------------------------------------------------------------------

def pairs_of(n):
    return [(i, j) for i in range(n) for j in range(i + 1, n)]


def edge_multisets(n, maxpar=3, maxdeg=3):
    """every weakly connected DAG on 0..n-1 (edges i->j, i<j) as a tuple of multiplicities; in/out degree <= maxdeg"""
    pairs = pairs_of(n)
    out = []
    M = [0] * len(pairs)
    indeg = [0] * n; outdeg = [0] * n
    def rec(k):
        if k == len(pairs):
            adj = {i: set() for i in range(n)}
            for (i, j), m in zip(pairs, M):
                if m: adj[i].add(j); adj[j].add(i)
            seen = {0}; st = [0]
            while st:
                x = st.pop()
                for y in adj[x]:
                    if y not in seen: seen.add(y); st.append(y)
            if len(seen) == n: out.append(tuple(M))
            return
        i, j = pairs[k]
        for m in range(maxpar + 1):
            if outdeg[i] + m > maxdeg or indeg[j] + m > maxdeg: break
            M[k] = m; outdeg[i] += m; indeg[j] += m
            rec(k + 1)
            outdeg[i] -= m; indeg[j] -= m
        M[k] = 0
    rec(0)
    return out


def back_multisets(n, totals):
    pairs = pairs_of(n)
    out = []
    for t in totals:
        if t == 0:
            out.append((0,) * len(pairs)); continue
        for combo in itertools.combinations_with_replacement(range(len(pairs)), t):
            B = [0] * len(pairs)
            for k in combo: B[k] += 1
            out.append(tuple(B))
    return out


def port_ranges(n, M, B, maxdeg=3):
    """[(lo, hi)] * 2n for F[0..n-1], P[0..n-1]; None when the back edges do not fit"""
    pairs = pairs_of(n)
    indeg = [0] * n; outdeg = [0] * n; bi = [0] * n; bo = [0] * n
    for (i, j), m, b in zip(pairs, M, B):
        outdeg[i] += m; indeg[j] += m; bo[j] += b; bi[i] += b
    rng = []
    for i in range(n):
        lo = max(0, 1 - indeg[i]); hi = maxdeg - indeg[i] - bi[i]
        if hi < lo: return None
        rng.append((lo, hi))
    for i in range(n):
        lo = max(0, 1 - outdeg[i]); hi = maxdeg - outdeg[i] - bo[i]
        if hi < lo: return None
        rng.append((lo, hi))
    return rng


def port_choices(rng, mode):
    """mode 'all': full product; 'min': minimum only; 'dev1': deviating from the minimum in at most one place"""
    los = tuple(lo for lo, hi in rng)
    if mode == 'min':
        yield los; return
    if mode == 'all':
        yield from itertools.product(*[range(lo, hi + 1) for lo, hi in rng]); return
    if mode == 'dev1':
        yield los
        for k, (lo, hi) in enumerate(rng):
            for v in range(lo + 1, hi + 1):
                yield los[:k] + (v,) + los[k + 1:]
        return
    raise ValueError(mode)


def flowsheets(n, backs=(0,), ports='all', maxpar=3, maxdeg=3, layouts=(0,), hss=(0,)):
    ms = edge_multisets(n, maxpar, maxdeg)
    bs = back_multisets(n, backs)
    for M in ms:
        for B in bs:
            rng = port_ranges(n, M, B, maxdeg)
            if rng is None: continue
            for fp in port_choices(rng, ports):
                seen = set()
                for layout in layouts:
                    if len(layouts) > 2:
                        # different layout codes can give the same port lists (e.g. no free port): keep the first
                        mm = Model.from_config((n, M, B, fp[:n], fp[n:], layout, 0))
                        sig = (tuple(map(tuple, mm.ins)), tuple(map(tuple, mm.outs)))
                        if sig in seen: continue
                        seen.add(sig)
                    for hs in hss:
                        yield (n, M, B, fp[:n], fp[n:], layout, hs)


FIXED_ORDERS_CACHE = {}
def fixed_orders(n):
    """identity, reverse and all rotations of both (a fixed list, not a sample)"""
    if n not in FIXED_ORDERS_CACHE:
        ident = tuple(range(n)); rev = ident[::-1]
        out = []
        for base in (ident, rev):
            for r in range(n):
                p = base[r:] + base[:r]
                if p not in out: out.append(p)
        FIXED_ORDERS_CACHE[n] = out
    return FIXED_ORDERS_CACHE[n]


# ---- reference model -----------------------------------------------------------------------------

def _interleave(edges, free, r):
    L = len(edges) + len(free)
    combos = list(itertools.combinations(range(L), len(free)))
    pos = combos[min(r, len(combos) - 1)] if r < 2 else combos[-1]
    out = [None] * L
    fi = iter(free)
    for p in pos: out[p] = next(fi)
    ei = iter(edges)
    for p in range(L):
        if out[p] is None: out[p] = next(ei)
    return out


INTERLEAVINGS = tuple(range(10, 28))


class Model:
    """plain-python flowsheet: per unit the list of in-ports and out-ports, each port = stream index;
    per stream (source unit | None, sink unit | None)"""
    __slots__ = ('n', 'ins', 'outs', 'src', 'snk', 'nstreams')

    @classmethod
    def from_config(cls, config):
        n, M, B, F, P, layout, hs = config[:7]
        pairs = pairs_of(n)
        m = cls(); m.n = n
        src = []; snk = []
        fwd_out = [[] for _ in range(n)]; fwd_in = [[] for _ in range(n)]
        back_out = [[] for _ in range(n)]; back_in = [[] for _ in range(n)]
        for (i, j), mult in zip(pairs, M):
            for _ in range(mult):
                k = len(src); src.append(i); snk.append(j)
                fwd_out[i].append((j, k)); fwd_in[j].append((i, k))
        for (i, j), mult in zip(pairs, B):
            for _ in range(mult):
                k = len(src); src.append(j); snk.append(i)
                back_out[j].append((i, k)); back_in[i].append((j, k))
        feeds = [[] for _ in range(n)]; prods = [[] for _ in range(n)]
        for i in range(n):
            for _ in range(F[i]):
                k = len(src); src.append(None); snk.append(i); feeds[i].append(k)
            for _ in range(P[i]):
                k = len(src); src.append(i); snk.append(None); prods[i].append(k)
        m.ins = []; m.outs = []
        for i in range(n):
            if layout >= 10:
                # general interleaving: code = 10 + desc*9 + rin*3 + rout; the free (feed / product) ports take the r-th choice of positions among the
                # C(len, free) possible ones (r = 0 first ... 2 last; a port list has at most 3 ports, so r in 0..2 reaches every interleaving of a list)
                code = layout - 10
                desc, rin, rout = code // 9, (code % 9) // 3, code % 3
                m.ins.append(_interleave([k for _, k in sorted(fwd_in[i], reverse=bool(desc))] + [k for _, k in sorted(back_in[i], reverse=bool(desc))], feeds[i], rin))
                m.outs.append(_interleave([k for _, k in sorted(fwd_out[i], reverse=bool(desc))] + [k for _, k in sorted(back_out[i], reverse=bool(desc))], prods[i], rout))
            elif layout == 0:
                m.ins.append([k for _, k in sorted(fwd_in[i])] + [k for _, k in sorted(back_in[i])] + feeds[i])
                m.outs.append([k for _, k in sorted(fwd_out[i])] + [k for _, k in sorted(back_out[i])] + prods[i])
            else:
                m.ins.append(feeds[i] + [k for _, k in sorted(back_in[i], reverse=True)] + [k for _, k in sorted(fwd_in[i], reverse=True)])
                m.outs.append(prods[i] + [k for _, k in sorted(back_out[i], reverse=True)] + [k for _, k in sorted(fwd_out[i], reverse=True)])
        m.src = src; m.snk = snk; m.nstreams = len(src)
        return m

    def relabel(self, sigma):
        """the same flowsheet with unit object k playing the role of unit sigma[k]"""
        inv = {r: k for k, r in enumerate(sigma)}
        m = Model(); m.n = self.n
        m.ins = [list(self.ins[sigma[k]]) for k in range(self.n)]
        m.outs = [list(self.outs[sigma[k]]) for k in range(self.n)]
        m.src = [None if a is None else inv[a] for a in self.src]
        m.snk = [None if b is None else inv[b] for b in self.snk]
        m.nstreams = self.nstreams
        return m

    def edges(self):
        return [(a, b, k) for k, (a, b) in enumerate(zip(self.src, self.snk)) if a is not None and b is not None]

    def succ(self):
        s = [set() for _ in range(self.n)]
        for a, b, k in self.edges(): s[a].add(b)
        return s

    def reach(self):
        """reach[a] = set of units reachable from a by >= 1 stream"""
        s = self.succ()
        out = []
        for a in range(self.n):
            seen = set(); st = list(s[a])
            while st:
                x = st.pop()
                if x in seen: continue
                seen.add(x); st.extend(s[x])
            out.append(seen)
        return out

    def cyclic(self):
        r = self.reach()
        return any(a in r[a] for a in range(self.n))

    def in_quantifier(self):
        """connected; every unit reaches a product; every unit is reached from a feed; 1-3 ports each"""
        n = self.n
        for i in range(n):
            if not (1 <= len(self.ins[i]) <= 3 and 1 <= len(self.outs[i]) <= 3): return False
        adj = [set() for _ in range(n)]
        for a, b, k in self.edges(): adj[a].add(b); adj[b].add(a)
        seen = {0}; st = [0]
        while st:
            x = st.pop()
            for y in adj[x]:
                if y not in seen: seen.add(y); st.append(y)
        if len(seen) != n: return False
        r = self.reach()
        has_prod = [any(self.snk[k] is None for k in self.outs[i]) for i in range(n)]
        has_feed = [any(self.src[k] is None for k in self.ins[i]) for i in range(n)]
        for i in range(n):
            if not (has_prod[i] or any(has_prod[j] for j in r[i])): return False
            if not (has_feed[i] or any(i in r[j] and has_feed[j] for j in range(n))): return False
        return True


class St:
    __slots__ = ('config', 'model', 'units', 'streams', 'spare', 'last', 'calls', 'built', 'phase', 'modelB')


def _shape(net, lab, depth=0):
    """label-free structural signature of a network"""
    parts = []
    run = 0
    for it in net.path:
        if isinstance(it, _Network):
            if run: parts.append(str(run)); run = 0
            parts.append(_shape(it, lab, depth + 1))
        else:
            run += 1
    if run: parts.append(str(run))
    r = net.recycle
    nr = 0 if not r else (len(r) if isinstance(r, (set, frozenset, list, tuple)) else 1)
    return '[' + ','.join(parts) + (f';r{nr}' if nr else '') + ']'


class C19(System):
    nontrivial_per_config = True

    def __init__(self, name, gen_q, gen_t, orders='all', history=False, depth_q=1, depth_t=1, prio=False, twice=False, rebuild=False):
        self.name = name
        self._gen = {'quick': gen_q, 'thorough': gen_t}
        self.orders = orders
        self.history = history
        self.twice = twice or history or rebuild      # build every network twice in a row and demand the identical result
        self.rebuild = rebuild
        self._dq, self._dt = depth_q, depth_t
        self.prio = prio
        self._desc = {}

    def warm(self): _load()
    def depth(self, tier): return self._dq if tier == 'quick' else self._dt

    def reset_globals(self):
        tmo = _load()
        tmo.AbstractStream.feed_priorities.clear()
        try: del tmo.network.disjunctions[:]
        except Exception: pass

    _tier = 'thorough'
    def configs(self, tier, seed):
        self._tier = tier          # set in the master before the pool is forked
        gen = self._gen[tier]
        cfgs = list(gen()) if gen is not None else []
        if cfgs:
            k = seed % len(cfgs)
            cfgs = cfgs[k:] + cfgs[:k]
        self._desc[tier] = dict(flowsheets=len(cfgs))
        return cfgs

    def describe(self, tier):
        d = dict(self._desc.get(tier, {}))
        d['orders'] = self.orders
        return d

    # ---- real objects ----------------------------------------------------------------------------------
    def build(self, config):
        _load()
        if self.rebuild: return self._build_rebuild(config)
        n, M, B, F, P, layout, hs = config[:7]
        prio = config[7] if len(config) > 7 else None
        m = Model.from_config(config)
        st = St(); st.config = config; st.model = m
        ns = m.nstreams
        nspare = 2 if self.history else 0
        streams = []
        for k in range(ns + nspare):
            s = _S(None); s._k = k
            s._h = (100 + k) if hs == 0 else (1000 - k)
            streams.append(s)
        st.streams = streams[:ns]; st.spare = streams[ns:]
        units = []
        for i in range(n):
            cls = _ucls(len(m.ins[i]), len(m.outs[i]))
            u = cls.__new__(cls)
            u._k = i; u._h = (i + 1) if hs == 0 else (50 - i)
            cls.__init__(u, None, ins=[streams[k] for k in m.ins[i]], outs=[streams[k] for k in m.outs[i]])
            units.append(u)
        st.units = units
        # the harness must have produced the flowsheet the model describes
        for k, s in enumerate(st.streams):
            a = s._source; b = s._sink
            if (None if a is None else a._k) != m.src[k] or (None if b is None else b._k) != m.snk[k]:
                raise HarnessError(f'flowsheet construction does not match the model: stream {k} of {config!r}')
        if prio is not None:
            feeds = [k for k in range(ns) if m.src[k] is None]
            st.streams[feeds[prio]].set_feed_priority(0)
        st.last = None; st.calls = 0; st.built = (); st.phase = 0; st.modelB = None
        return st

    @staticmethod
    def _maxport_config(n, M, layout, hs):
        indeg = [0] * n; outdeg = [0] * n
        for (i, j), m in zip(pairs_of(n), M): outdeg[i] += m; indeg[j] += m
        return (n, M, (0,) * len(M), tuple(3 - d for d in indeg), tuple(3 - d for d in outdeg), layout, hs)

    def _build_rebuild(self, config):
        """config = ('rb', n, MA, MB, sigma, layout, hs): n units with 3 inlet and 3 outlet ports each, piped as flowsheet A (edge multiset MA, every free
        port carries a feed / product); the action 'repipe' later pipes THE SAME unit objects as flowsheet B with unit k in the role sigma[k]"""
        _, n, MA, MB, sigma, layout, hs = config
        mA = Model.from_config(self._maxport_config(n, MA, layout, hs))
        mB = Model.from_config(self._maxport_config(n, MB, layout, hs)).relabel(sigma)
        st = St(); st.config = config; st.model = mA; st.modelB = mB
        st.streams = []
        for k in range(mA.nstreams):
            x = _S(None); x._k = k; x._h = (100 + k) if hs == 0 else (1000 - k); st.streams.append(x)
        st.spare = []
        cls = _ucls(3, 3)
        st.units = []
        for i in range(n):
            u = cls.__new__(cls); u._k = i; u._h = (i + 1) if hs == 0 else (50 - i)
            cls.__init__(u, None, ins=[st.streams[k] for k in mA.ins[i]], outs=[st.streams[k] for k in mA.outs[i]])
            st.units.append(u)
        st.last = None; st.calls = 0; st.built = (); st.phase = 0
        self._check_wiring(st, harness=True)
        return st

    def _repipe(self, st):
        tmo = _tmo
        mB = st.modelB; hs = st.config[6]
        new = []
        for k in range(mB.nstreams):
            x = _S(None); x._k = k; x._h = (500 + k) if hs == 0 else (1500 - k); new.append(x)
        with tmo.network.IgnoreDockingWarnings():
            for i, u in enumerate(st.units):
                for p, k in enumerate(mB.ins[i]): u.ins[p] = new[k]
                for p, k in enumerate(mB.outs[i]): u.outs[p] = new[k]
        st.streams = new; st.model = mB; st.phase = 2
        self._check_wiring(st)
        return ('repipe',)

    def canon(self, st):
        units = tuple((tuple(getattr(x, '_k', '?') if isinstance(x, _S) else type(x).__name__ for x in u._ins._streams),
                       tuple(getattr(x, '_k', '?') if isinstance(x, _S) else type(x).__name__ for x in u._outs._streams))
                      for u in st.units)
        streams = tuple((None if s._source is None else s._source._k, None if s._sink is None else s._sink._k)
                        for s in st.streams + st.spare)
        tmo = _tmo
        if self.rebuild:
            return (st.config, st.phase, units, streams, len(tmo.AbstractStream.feed_priorities), len(tmo.network.disjunctions))
        # `built`: the wirings on which a network has already been built with THESE unit objects in this execution.  The library may keep state keyed by
        # the unit / stream objects (memo dicts, default arguments, attributes on units) that the harness cannot enumerate; a state in which a network was built
        # is therefore never merged with one in which none was.
        return (st.config[0], st.config[5:], units, streams, len(tmo.AbstractStream.feed_priorities), len(tmo.network.disjunctions), st.built)

    # ---- actions -----------------------------------------------------------------------------------------
    def actions(self, st):
        n = st.model.n
        if self.rebuild:
            if st.phase == 0: return [('net', tuple(range(n))), ('net', tuple(range(n))[::-1])]     # build on A first (two orders; both reach the same state)
            if st.phase == 1: return [('repipe',)]
            if n >= 4 and self._tier == 'quick': return [('net', p) for p in fixed_orders(n)]      # thorough: all n!
            return [('net', p) for p in itertools.permutations(range(n))]
        acts = []
        if not self.history or st.model.in_quantifier():
            mode = self.orders.get(self._tier, 'all') if isinstance(self.orders, dict) else self.orders
            if mode == 'all':
                acts += [('net', p) for p in itertools.permutations(range(n))]
            elif mode == 'ends2':
                acts += [('net', tuple(range(n))), ('net', tuple(range(n))[::-1])]
            else:
                acts += [('net', p) for p in fixed_orders(n)]
        if self.history:
            m = st.model
            # connect a product port to a feed port (the product stream takes the place of the feed stream)
            for a in range(n):
                for oi, k in enumerate(m.outs[a]):
                    if m.snk[k] is not None: continue
                    for b in range(n):
                        if a == b: continue
                        for ii, kf in enumerate(m.ins[b]):
                            if m.src[kf] is None:
                                acts.append(('connect', a, oi, b, ii))
            # cut a connection: the inlet port gets a fresh feed stream, the old stream becomes a product
            free = [j for j, s in enumerate(st.spare) if s._source is None and s._sink is None]
            if free:
                for b in range(n):
                    for ii, k in enumerate(m.ins[b]):
                        if m.src[k] is not None: acts.append(('cut', b, ii))
        return acts

    # ---- one step ------------------------------------------------------------------------------------------
    def step(self, st, a):
        if a[0] == 'net':
            obs = self._net(st, a[1])
            if self.rebuild and st.phase == 0: st.phase = 1
            if self.history:
                w = tuple((tuple(st.model.ins[i]), tuple(st.model.outs[i])) for i in range(st.model.n))
                if w not in st.built: st.built = tuple(sorted(st.built + (w,)))
            return obs
        if a[0] == 'repipe':
            return self._repipe(st)
        m = st.model
        tmo = _tmo
        if a[0] == 'connect':
            _, ua, oi, ub, ii = a
            k = m.outs[ua][oi]; kf = m.ins[ub][ii]
            with tmo.network.IgnoreDockingWarnings():
                st.units[ub].ins[ii] = self._stream(st, k)
            m.snk[k] = ub; m.snk[kf] = None; m.ins[ub][ii] = k
            self._check_wiring(st)
            return ('connect',)
        if a[0] == 'cut':
            _, ub, ii = a
            k = m.ins[ub][ii]
            j = next(j for j, s in enumerate(st.spare) if s._source is None and s._sink is None)
            knew = len(st.streams) + j
            with tmo.network.IgnoreDockingWarnings():
                st.units[ub].ins[ii] = st.spare[j]
            while len(m.src) <= knew: m.src.append(None); m.snk.append(None)
            m.snk[k] = None; m.src[knew] = None; m.snk[knew] = ub; m.ins[ub][ii] = knew
            self._check_wiring(st)
            return ('cut',)
        raise ValueError(a)

    def _stream(self, st, k):
        return st.streams[k] if k < len(st.streams) else st.spare[k - len(st.streams)]

    def _check_wiring(self, st, harness=False):
        """rewiring is C18's subject; here it only has to have produced the flowsheet the model describes"""
        try:
            self._check_wiring_(st)
        except Rejected:
            if harness: raise HarnessError(f'flowsheet construction does not match the model: {st.config!r}')
            raise

    def _check_wiring_(self, st):
        m = st.model
        for i, u in enumerate(st.units):
            if [getattr(x, '_k', None) for x in u._ins._streams] != m.ins[i] or [getattr(x, '_k', None) for x in u._outs._streams] != m.outs[i]:
                raise Rejected('rewiring-left-other-flowsheet', cut=True)
        for k in range(len(m.src)):
            s = self._stream(st, k)
            if (None if s._source is None else s._source._k) != m.src[k] or (None if s._sink is None else s._sink._k) != m.snk[k]:
                raise Rejected('rewiring-left-other-flowsheet', cut=True)

    def _net(self, st, perm):
        m = st.model
        n = m.n
        units = [st.units[i] for i in perm]
        edges = m.edges()
        reach = m.reach()
        cyclic = any(a in reach[a] for a in range(n))
        base = dict(n=n, cyclic=cyclic)
        st.calls += 1
        try:
            with warnings.catch_warnings(record=True) as wlist:
                warnings.simplefilter('always')
                net = _Network.from_units(units)
        except Exception as e:
            raise Violation('unexpected-exception', f'Network.from_units raised {type(e).__name__}: {e}',
                            match=dict(base, exc=type(e).__name__), detail=dict(perm=perm))
        undetermined = any('could not be determined' in str(w.message) for w in wlist)
        net2 = None
        if self.twice:
            try:
                with warnings.catch_warnings():
                    warnings.simplefilter('ignore')
                    net2 = _Network.from_units(units)
            except Exception as e:
                raise Violation('unexpected-exception', f'second Network.from_units call on the same units raised {type(e).__name__}: {e}',
                                match=dict(base, exc=type(e).__name__, second=True), detail=dict(perm=perm))
        # ---- flatten
        flat = []; loops = []; foreign = []
        def walk(net, depth):
            mine = set()
            for it in net.path:
                if isinstance(it, _Network):
                    mine |= walk(it, depth + 1)
                elif any(it is u for u in st.units):
                    flat.append(it._k); mine.add(it._k)
                else:
                    foreign.append(repr(it)); flat.append(None)
            if net.recycle: loops.append(mine)
            return mine
        if depth_exceeds(net): raise Violation('unexpected-exception', 'network nests deeper than 50 levels', match=dict(base, exc='depth'))
        walk(net, 0)
        shape = _shape(net, None)
        recycles = net.get_all_recycles()
        nrec = len(recycles)
        desc = dict(perm=perm, flat=flat, shape=shape, recycles=sorted(repr(r) for r in recycles), edges=[(a, b) for a, b, k in edges])
        if foreign:
            raise Violation('foreign-item', f'path contains objects that are not among the given units: {foreign}', match=base, detail=desc)
        missing = sorted(set(range(n)) - set(flat))
        if missing:
            raise Violation('unit-missing', f'units {missing} are not in the path {flat} (order given {list(perm)})',
                            match=base, detail=desc)
        pos = {}
        for p, k in enumerate(flat): pos.setdefault(k, []).append(p)
        against = 0
        if not cyclic:
            dup = sorted(k for k, v in pos.items() if len(v) > 1)
            if dup:
                raise Violation('unit-repeated', f'acyclic flowsheet, units {dup} appear more than once in {flat}', match=base, detail=desc)
            for a, b, k in edges:
                if not pos[a][0] < pos[b][0]:
                    raise Violation('not-topological', f'acyclic flowsheet: unit {b} is fed by unit {a} (stream {k}) but the path is {flat} '
                                    f'(order given {list(perm)}, shape {shape})', match=base, detail=desc)
            if nrec:
                raise Violation('recycle-in-acyclic', f'acyclic flowsheet but recycles {desc["recycles"]} are reported (path {flat}, shape {shape})',
                                match=base, detail=desc)
            topo_given = all(perm.index(a) < perm.index(b) for a, b, k in edges)
            branching = any(len(s) > 1 for s in m.succ())
            nontriv = (not topo_given) or branching
        else:
            if nrec == 0:
                raise Violation('no-recycle-in-cyclic', f'cyclic flowsheet (edges {desc["edges"]}) but no recycle stream is reported; path {flat}, shape {shape}',
                                match=base, detail=desc)
            for a, b, k in edges:
                if any(pa < pb for pa in pos[a] for pb in pos[b]): continue
                against += 1
                if not any(a in L and b in L for L in loops):
                    raise Violation('against-order-outside-loop',
                                    f'stream {k} ({a}->{b}) runs against the path order {flat} (shape {shape}) but units {a} and {b} are not '
                                    f'inside a common sub-network that carries a recycle (loops: {[sorted(L) for L in loops]}; order given {list(perm)})',
                                    match=dict(base, forward_edge=(a < b) if not (self.history or self.rebuild) else None), detail=desc)
            nontriv = against > 0
        if net2 is not None:
            sig1 = (_labelled(net, st.units), sorted(repr(r) for r in recycles))
            sig2 = (_labelled(net2, st.units), sorted(repr(r) for r in net2.get_all_recycles()))
            if sig1 != sig2:
                raise Violation('second-build-differs', f'two consecutive Network.from_units calls on the same units in the same order {list(perm)} returned '
                                f'{sig1} and then {sig2}', match=base, detail=desc)
        st.last = (shape, nontriv)
        return ('net', shape, nrec, against, int(undetermined), int(nontriv), int(cyclic))

    def nontrivial(self, st, a, obs):
        return obs is not None and obs[0] == 'net' and bool(obs[5])

    def outcome(self, st, a, obs):
        if obs and obs[0] == 'net':
            return repr((st.model.n, obs[1], obs[2], obs[4], obs[6]))
        return repr(obs)[:80]


def _labelled(net, units, depth=0):
    """nested path with unit labels (for comparing two builds)"""
    if depth > 50: return '...'
    out = []
    for it in net.path:
        if isinstance(it, _Network): out.append(_labelled(it, units, depth + 1))
        else: out.append(getattr(it, '_k', repr(it)))
    r = net.recycle
    rs = () if not r else tuple(sorted(repr(x) for x in (r if isinstance(r, (set, frozenset, list, tuple)) else [r])))
    return (tuple(out), rs)


def depth_exceeds(net, limit=50):
    d = 0; level = [net]
    while level:
        d += 1
        if d > limit: return True
        level = [it for x in level for it in x.path if isinstance(it, _Network)]
    return False


# ---- the systems -----------------------------------------------------------------------------------------

def _G(*a, **k):
    return lambda: flowsheets(*a, **k)

def _chain(*gens):
    return lambda: itertools.chain.from_iterable(g() for g in gens)

def _slice4(sl, nsl):
    """complete acyclic n=4, sliced by edge-multiset index (keeps the master's sets small)"""
    def gen():
        for idx, M in enumerate(edge_multisets(4)):
            if idx % nsl != sl: continue
            B = (0,) * 6
            rng = port_ranges(4, M, B)
            for fp in port_choices(rng, 'all'):
                yield (4, M, B, fp[:4], fp[4:], 0, 0)
    return gen

def _prio(n):
    def gen():
        for cfg in flowsheets(n, ports='all'):
            nf = sum(cfg[3])
            for p in range(nf):
                yield cfg + (p,)
    return gen

def simple_dags(n):
    return edge_multisets(n, maxpar=1)

RB_BASE4 = [(1, 0, 0, 1, 0, 1),     # chain 0->1->2->3
            (1, 1, 1, 0, 0, 0),     # fan-out from 0
            (0, 0, 1, 0, 1, 1),     # fan-in to 3
            (1, 1, 0, 0, 1, 1)]     # diamond 0->1->3, 0->2->3

def _rebuild_cfgs(n, As, layout=0, hs=0):
    def gen():
        Bs = simple_dags(n)
        for MA in (As if As is not None else Bs):
            for MB in Bs:
                for sigma in itertools.permutations(range(n)):
                    if MA == MB and sigma == tuple(range(n)): continue
                    yield ('rb', n, tuple(MA), tuple(MB), sigma, layout, hs)
    return gen

def _overlap6(nedges=None, chained=False):
    """six units, single streams, forward in/out degree <= 2, two distinct back edges that share a unit (overlapping / chained recycle loops);
    ports minimal, or minimal plus ONE side product.  nedges: only DAGs with that many forward edges; chained: the head of one back edge is the tail of the other"""
    def gen():
        n = 6
        pairs = pairs_of(n)
        bs = []
        for B in back_multisets(n, (2,)):
            if max(B) > 1: continue
            e = [(j, i) for (i, j), b in zip(pairs, B) if b]
            if not set(e[0]) & set(e[1]): continue
            if chained and not (e[0][1] == e[1][0] or e[1][1] == e[0][0]): continue
            bs.append(B)
        for M in edge_multisets(n, 1, 2):
            if nedges is not None and sum(M) != nedges: continue
            for B in bs:
                rng = port_ranges(n, M, B)
                if rng is None: continue
                los = tuple(lo for lo, hi in rng)
                yield (n, M, B, los[:n], los[n:], 0, 0)
                for k in range(n, 2 * n):
                    if los[k] + 1 <= rng[k][1]:
                        fp = los[:k] + (los[k] + 1,) + los[k + 1:]
                        yield (n, M, B, fp[:n], fp[n:], 0, 0)
    return gen

def _hist_cfgs(tier):
    # start from the chain and the fan with maximal ports so that connect / cut have room
    def gen():
        yield (3, (1, 0, 1), (0, 0, 0), (1, 1, 1), (1, 1, 1), 0, 0)     # 0->1->2, one spare feed and product everywhere
        yield (3, (1, 1, 0), (0, 0, 0), (1, 1, 1), (1, 1, 1), 0, 0)     # 0->1, 0->2
        yield (3, (1, 0, 1), (0, 0, 0), (2, 1, 1), (1, 1, 2), 1, 1)
        if tier == 'thorough':
            yield (4, (1, 0, 0, 1, 0, 1), (0,) * 6, (1, 1, 1, 1), (1, 1, 1, 1), 0, 0)
    return gen

SYSTEMS = [
    C19('c19.acyclic.n2-3',
        _chain(_G(2, layouts=(0, 1)), _G(3, layouts=(0, 1))),
        _chain(_G(2, layouts=(0, 1), hss=(0, 1)), _G(3, layouts=(0, 1), hss=(0, 1))), twice=True),
    C19('c19.acyclic.n4.dev1', _G(4, ports='dev1'), _G(4, ports='dev1', layouts=(1,) + INTERLEAVINGS)),
    # feed / product ports BEFORE the edge ports (side draws): quick slice of the thorough space of c19.acyclic.n4.dev1
    C19('c19.acyclic.n4.dev1.products-first', _G(4, ports='dev1', layouts=(1,)), None, orders={'quick': 'fixed8'}),
    # every interleaving of feed / product ports with edge ports in each port list (9 in/out choices x ascending / descending partner order)
    C19('c19.acyclic.n2-3.interleave', _chain(_G(2, layouts=INTERLEAVINGS), _G(3, ports='dev1', layouts=INTERLEAVINGS)),
        _chain(_G(2, layouts=INTERLEAVINGS), _G(3, layouts=INTERLEAVINGS))),
    # six units, single streams, degree <= 3 (converging branches), minimal ports
    C19('c19.acyclic.n6.simple3', _G(6, ports='min', maxpar=1, maxdeg=3, layouts=(0, 1)), _G(6, ports='min', maxpar=1, maxdeg=3, layouts=(0, 1)),
        orders={'quick': 'ends2', 'thorough': 'fixed12'}),
    C19('c19.cyclic.n2-3',
        _chain(_G(2, backs=(1, 2, 3), hss=(0, 1)), _G(3, backs=(1, 2, 3), hss=(0, 1))),
        _chain(_G(2, backs=(1, 2, 3), hss=(0, 1), layouts=(0, 1)), _G(3, backs=(1, 2, 3), hss=(0, 1), layouts=(0, 1))), twice=True),
    C19('c19.cyclic.n4.min', _G(4, backs=(1, 2, 3), ports='min'), _G(4, backs=(1, 2, 3), ports='dev1', hss=(0,))),
    C19('c19.acyclic.n5.min', _G(5, ports='min'), None, orders='fixed12'),
    # five units, single streams, one back edge: quick minimal ports (a slice of c19.cyclic.n5.min), thorough additionally ports deviating in <= 1 place
    # (second feeds / side products) and the products-first layout; 10 fixed orders = every unit first once in ascending and once in descending rotation
    C19('c19.cyclic.n5.simple', _G(5, backs=(1,), ports='min', maxpar=1),
        _chain(_G(5, backs=(1,), ports='dev1', maxpar=1), _G(5, backs=(1,), ports='min', maxpar=1, layouts=(1,))), orders='fixed12'),
    # overlapping recycle loops at n = 6 (thorough only; identity and reverse unit order)
    C19('c19.cyclic.n6.overlap', None, _overlap6(chained=True), orders='ends2'),
    C19('c19.history.n3', _hist_cfgs('quick'), _hist_cfgs('thorough'), history=True, depth_q=3, depth_t=4),
    # build a network, re-pipe THE SAME unit objects into another flowsheet, build again (all unit orders): state kept from the first build must not matter
    C19('c19.rebuild.n3', _rebuild_cfgs(3, None), _chain(_rebuild_cfgs(3, None), _rebuild_cfgs(3, None, layout=1, hs=1)), rebuild=True, depth_q=3, depth_t=3),
    C19('c19.rebuild.n4', _rebuild_cfgs(4, RB_BASE4), _rebuild_cfgs(4, None), rebuild=True, depth_q=3, depth_t=3),
    # thorough only
    C19('c19.acyclic.prio', None, _chain(_prio(2), _prio(3))),
    C19('c19.acyclic.n5.min.all-orders', None, _G(5, ports='min')),
    C19('c19.acyclic.n6.deg2', None, _G(6, ports='min', maxpar=2, maxdeg=2), orders='fixed12'),
    C19('c19.cyclic.n5.min', None, _G(5, backs=(1,), ports='min'), orders='fixed12'),
] + [C19(f'c19.acyclic.n4.full.{k}', None, _slice4(k, 6)) for k in range(6)]
