"""
Shared flash driver for C03 (conservation / non-negativity / phase locks) and C04 (a flash honours its
specifications).  Both properties drive the same seam -- ``MultiStream.vle / lle / sle / vlle`` with the solver
objects that live in the stream's ``*_cache`` -- and differ in the oracle evaluated on every transition.

Pieces
------
* package registry (built once per process, on top of mc.fixtures),
* stream construction from a JSON configuration ``(pkg, (chemical IDs), magnitude pattern, distribution)``,
* execution of one call ``(kind, pair, v1, v2)`` on the real stream, classification of the outcome,
* complete digest of the stream + the three cached solver objects (``canon``),
* an independent reference flash (Rachford-Rice by bisection, K-values re-evaluated from the package's
  Gamma/Phi/PCF and Psat by successive substitution to 1e-12) with bubble/dew pressures and temperatures,
* ``FlashSystem``: a generic engine.System parametrised by enumerators and an oracle callback.
"""
from __future__ import annotations
import itertools, math
import numpy as np
from mc.engine import System, Violation, Rejected
from mc import fixtures as fx

# ----------------------------------------------------------------------------------------------------------------
# packages

_EXTRA = {
    # name: (IDs, locked)
    'SLE': (('Water', 'Methanol', 'Ethanol', 'Tetradecanol', 'Glucose'), {}),
    'HIS': (('Water', 'Ethanol', 'Octanol', 'Tetradecanol', 'N2', 'Glucose'), {'N2': 'g', 'Glucose': 's'}),
    'WO':  (('Water', 'Ethanol', 'Acetone', 'Hexane'), {}),
    'LL':  (('Water', '1-Butanol', 'Octanol', 'EthylAcetate', 'Hexane', 'Ethanol'), {}),
    # package ORDER is a configuration axis: phase-locked members first and in the middle, volatile ones after them
    'OVLE': (('N2', 'Water', 'Glucose', 'Ethanol', 'Propanol'), {'N2': 'g', 'Glucose': 's'}),
    # reactive flash (liquid_conversion= / gas_conversion= arguments of vle): esterification, as in tests/test_reaction.py
    'RX':   (('EthylLactate', 'LacticAcid', 'Water', 'Ethanol'), {}),
    # one member above its critical temperature over most of the T grid (Propane Tc = 369.9 K, CO2 Tc = 304.1 K)
    'SC':   (('Propane', 'Hexane', 'Octane'), {}),
    # vlle with a light gas that is NOT phase-locked and at most one LLE-capable chemical in the liquid (wet nitrogen)
    'VL3':  (('Water', 'Ethanol', 'Octane', 'N2'), {}),
    'SCW':  (('CO2', 'Water', 'Ethanol'), {}),
    'ORD':  (('N2', 'Methanol', 'Glucose', 'Water', 'Propanol'), {'N2': 'g', 'Glucose': 's'}),
}

_SPECIAL = {}

def _salt_package():
    """(Water, Ethanol, Propanol, NaCl[liquid-locked, N_solutes = 2], N2[gas-locked]): a non-volatile DISSOCIATING solute --
    Chemical.N_solutes is a documented attribute; with N_solutes > 0 the heavy chemical counts in the mole fractions of the flash
    (z_heavy > 0), a branch no locked chemical of the other packages reaches (their N_solutes defaults to 0)."""
    if 'SALT' not in _SPECIAL:
        t = fx.tmo()
        NaCl = t.Chemical('NaCl', phase='l', default=True)
        NaCl.N_solutes = 2
        chems = [t.Chemical('Water', cache=True), t.Chemical('Ethanol', cache=True), t.Chemical('Propanol', cache=True), NaCl, t.Chemical('N2', phase='g')]
        _SPECIAL['SALT'] = t.Thermo(t.Chemicals(chems))
    return _SPECIAL['SALT']

def _pr_package(base):
    """the chemicals of `base` with Dortmund activity coefficients and Peng-Robinson vapour fugacity coefficients
    (Thermo(..., Phi=PRFugacityCoefficients) -- a documented configuration option; builds offline)"""
    key = base + 'pr'
    if key not in _SPECIAL:
        t = fx.tmo()
        _SPECIAL[key] = t.Thermo(fx.thermo(base).chemicals, Phi=t.equilibrium.PRFugacityCoefficients)
    return _SPECIAL[key]

def package(name):
    """'VLE', 'ALC', 'HC', 'A', ... ; a trailing 'i' selects the ideal variant of the same chemicals ('ALCi'), a trailing 'pr'
    the variant with Peng-Robinson vapour fugacity coefficients ('HCpr')."""
    if name == 'SALT': return _salt_package()
    if name.endswith('pr') and name[:-2] in fx.PACKAGES: return _pr_package(name[:-2])
    ideal = name.endswith('i') and name[:-1] in (set(fx.PACKAGES) | set(_EXTRA))
    base = name[:-1] if ideal else name
    if base in _EXTRA:
        IDs, locked = _EXTRA[base]
        return fx.custom_thermo(IDs, locked=locked, ideal=ideal)
    return fx.thermo(base, ideal=ideal)

def locked_of(name):
    if name == 'SALT': return {'NaCl': 'l', 'N2': 'g'}
    if name.endswith('pr') and name[:-2] in fx.PACKAGES: name = name[:-2]
    base = name[:-1] if name.endswith('i') and name[:-1] in (set(fx.PACKAGES) | set(_EXTRA)) else name
    if base in _EXTRA: return dict(_EXTRA[base][1])
    return dict(fx.LOCKED.get(base, {}))

def package_ids(name):
    if name == 'SALT': return ('Water', 'Ethanol', 'Propanol', 'NaCl', 'N2')
    if name.endswith('pr') and name[:-2] in fx.PACKAGES: name = name[:-2]
    base = name[:-1] if name.endswith('i') and name[:-1] in (set(fx.PACKAGES) | set(_EXTRA)) else name
    return _EXTRA[base][0] if base in _EXTRA else fx.PACKAGES[base]

# ----------------------------------------------------------------------------------------------------------------
# process-global interning caches of the equilibrium package (BubblePoint / DewPoint keyed by (chemicals, Gamma, Phi, PCF);
# activity-coefficient / fugacity-coefficient objects keyed by the chemical tuple).  They are cleared before every
# execution (reset_globals) so that what an execution sees never depends on which configurations the same worker process
# ran before; sequences that NEED an earlier object of another package are explicit actions ('pkg') of a history layer,
# and the cache contents are part of the canonical state.

def _intern_dicts():
    import sys, inspect
    fx.tmo()
    out = []
    seen = set()
    for mname in ('bubble_point', 'dew_point', 'activity_coefficients', 'fugacity_coefficients', 'poyinting_correction_factors'):
        mod = sys.modules.get('thermosteam.equilibrium.' + mname)
        if mod is None: continue
        for name, cls in inspect.getmembers(mod, inspect.isclass):
            for attr in ('_cached', 'cache'):
                d = cls.__dict__.get(attr)
                if isinstance(d, dict) and id(d) not in seen:
                    seen.add(id(d)); out.append((cls.__name__, d))
    return out

def clear_interning():
    for name, d in _intern_dicts(): d.clear()

def interning_digest():
    out = []
    for name, d in _intern_dicts():
        for k in d:
            if isinstance(k, tuple) and k and isinstance(k[0], tuple):      # (chemicals, Gamma, Phi, PCF)
                out.append((name, tuple(c.ID for c in k[0])) + tuple(getattr(x, '__name__', repr(x)) for x in k[1:]))
            elif isinstance(k, tuple):
                out.append((name, tuple(getattr(c, 'ID', repr(c)) for c in k)))
            else:
                out.append((name, repr(k)))
    return tuple(sorted(out))

def _fresh_instance(cls, chems):
    """an instance that is NOT the library's interned one (the reference must not share a possibly stale object)"""
    saved = [(d, dict(d)) for name, d in _intern_dicts()]
    try:
        for d, _ in saved: d.clear()
        return cls(chems)
    finally:
        for d, old in saved:
            d.clear(); d.update(old)

# ----------------------------------------------------------------------------------------------------------------
# configurations  (pkg, comp=(IDs...), mag, dist)

MAGS = ('one', 'lo0', 'hi0', 'lo-1', 'hi-1', 'milli', 'kilo', 'big0', 'big1')

def magnitudes(n, mag):
    """flow of each of the n present chemicals (kmol/hr).  Patterns: all 1; one chemical (first / last) at 1e-3 or
    1e3; everything at 1e-3 / 1e3 (the ends of the 1e-3..1e3 range of the quantifier)."""
    v = [1.0] * n
    if mag == 'one': pass
    elif mag == 'lo0': v[0] = 1e-3
    elif mag == 'hi0': v[0] = 1e3
    elif mag == 'lo-1': v[-1] = 1e-3
    elif mag == 'hi-1': v[-1] = 1e3
    elif mag == 'big0': v[0] = 12.0            # 12 : 1 : 1 ...
    elif mag == 'big1': v[min(1, n - 1)] = 12.0
    elif mag == 'milli': v = [1e-3] * n
    elif mag == 'kilo': v = [1e3] * n
    elif isinstance(mag, (tuple, list)): v = [float(x) for x in mag]      # explicit flows (C04 compositions)
    else: raise ValueError(mag)
    return v

DISTS = ('l', 'g', 'half', 'alt', 'Ls', 'Sl', 'Sg')
SOLUTES = ('Tetradecanol', 'Glucose')

def build_stream(config, T0=298.15, P0=101325.):
    """Fresh real stream for (pkg, comp, mag, dist).  Distributions:
    l / g      MultiStream (g,l), everything in that phase
    half       every chemical half in g, half in l
    alt        chemicals alternately in g and l
    Ls         MultiStream (L,l,s) without a gas phase: volatile chemicals half in L half in l, gas-locked ones in l,
               solid-locked ones in s (the vle accessor has to add the g phase)
    Sl / Sg    a single-phase Stream in phase l / g (the vle/lle/sle accessors turn it into a MultiStream)
    lL         MultiStream (L,l): half/half (for lle/vlle)
    ls         MultiStream (l,s): liquids in l, solute candidates half in s
    """
    pkg, comp, mag, dist = config[:4]
    tmo = fx.tmo()
    th = package(pkg)
    IDs = list(th.chemicals.IDs)
    locked = locked_of(pkg)
    flows = magnitudes(len(comp), mag)
    n = len(IDs)
    full = np.zeros(n)
    for ID, f in zip(comp, flows): full[IDs.index(ID)] = f
    def vec(pred, frac=1.0):
        v = np.zeros(n)
        for k, ID in enumerate(comp):
            if pred(k, ID): v[IDs.index(ID)] = frac * flows[k]
        return v
    if dist in ('Sl', 'Sg'):
        s = tmo.Stream(None, phase=dist[1], T=T0, P=P0, thermo=th)
        s.imol.data[:] = full
        return s
    if dist in ('l', 'g', 'half', 'alt'):
        s = tmo.MultiStream(None, phases=('g', 'l'), T=T0, P=P0, thermo=th)
        if dist == 'l': s.imol['l'] = full
        elif dist == 'g': s.imol['g'] = full
        elif dist == 'half':
            s.imol['l'] = 0.5 * full; s.imol['g'] = full - 0.5 * full
        else:
            s.imol['g'] = vec(lambda k, ID: k % 2 == 0); s.imol['l'] = vec(lambda k, ID: k % 2 == 1)
        return s
    if dist == 'Ls':
        s = tmo.MultiStream(None, phases=('L', 'l', 's'), T=T0, P=P0, thermo=th)
        free = lambda k, ID: ID not in locked
        s.imol['L'] = vec(free, 0.5)
        s.imol['l'] = vec(free, 1.0) - vec(free, 0.5) + vec(lambda k, ID: locked.get(ID) in ('g', 'l'))
        s.imol['s'] = vec(lambda k, ID: locked.get(ID) == 's')
        return s
    if dist == 'lL':
        s = tmo.MultiStream(None, phases=('L', 'l'), T=T0, P=P0, thermo=th)
        s.imol['L'] = 0.5 * full; s.imol['l'] = full - 0.5 * full
        return s
    if dist == 'L':
        s = tmo.MultiStream(None, phases=('L', 'l'), T=T0, P=P0, thermo=th)
        s.imol['L'] = full
        return s
    if dist == 'ls':
        s = tmo.MultiStream(None, phases=('l', 's'), T=T0, P=P0, thermo=th)
        s.imol['s'] = 0.5 * full; s.imol['l'] = full - 0.5 * full
        return s
    if dist in ('sS', 'sH'):
        # slurry: the solute candidates entirely ('sS') / half ('sH') in the solid phase, everything else liquid
        s = tmo.MultiStream(None, phases=('l', 's'), T=T0, P=P0, thermo=th)
        sol = vec(lambda k, ID: ID in SOLUTES, 1.0 if dist == 'sS' else 0.5)
        s.imol['s'] = sol; s.imol['l'] = full - sol
        return s
    if dist == 'gl-L':
        s = tmo.MultiStream(None, phases=('L', 'g', 'l'), T=T0, P=P0, thermo=th)
        s.imol['L'] = 0.25 * full; s.imol['g'] = 0.25 * full; s.imol['l'] = full - 0.5 * full
        return s
    raise ValueError(dist)

# ----------------------------------------------------------------------------------------------------------------
# reading the state

def dense_by_phase(s):
    """dict phase -> dense array, for Stream and MultiStream alike"""
    imol = s._imol
    if hasattr(imol, '_phases') and isinstance(getattr(imol, '_phases', None), tuple) and not hasattr(imol, '_phase'):
        return {p: np.array(imol.data.rows[i].to_array(), float) for i, p in enumerate(imol._phases)}
    ph = imol._phase
    ph = ph._phase if hasattr(ph, '_phase') else ph
    return {ph: np.array(imol.data.to_array(), float)}

def totals(s):
    d = dense_by_phase(s)
    return sum(d.values(), np.zeros(len(s.chemicals.IDs)))   # stays an array when no phase is left

def _g(o, k):
    try: return getattr(o, k)
    except AttributeError: return '<unset>'

def _v(x):
    if isinstance(x, (float, np.floating)): return fx.r12(x)
    if isinstance(x, (int, str, bool)) or x is None: return x
    if isinstance(x, np.ndarray): return tuple(fx.r12(i) for i in np.asarray(x, float).ravel())
    if isinstance(x, (set, frozenset)): return tuple(sorted(x))
    if isinstance(x, (list, tuple)):
        return tuple(_v(i) if not hasattr(i, 'ID') else i.ID for i in x)
    if isinstance(x, slice): return ('slice', x.start, x.stop, x.step)
    if hasattr(x, 'ID'): return x.ID
    if hasattr(x, 'dct') or hasattr(x, 'rows'): return fx.sparse_digest(x)
    return type(x).__name__

VLE_FIELDS = ('method', '_dmol_vle', '_dF_mol', '_T', '_P', '_H_hat', '_S_hat', '_V', '_K', '_v', '_index', '_nonzero', '_N', '_z', '_z_last',
              '_z_light', '_z_heavy', '_F_mol', '_F_mol_vle', '_F_mass', '_chemical', '_mol_vle')
LLE_FIELDS = ('method', 'composition_cache_tolerance', 'temperature_cache_tolerance', '_z_mol', '_T', '_lle_chemicals', '_K', '_phi')
SLE_FIELDS = ('_x', '_index', '_chemical', '_nonzero', '_mol_solute', '_solute_index', '_solute_gamma_index', 'activity_coefficient')

def solver_digest(s):
    """Everything the three cached solver objects remember between calls (12 significant digits)."""
    out = []
    for cname, fields in (('_vle_cache', VLE_FIELDS), ('_lle_cache', LLE_FIELDS), ('_sle_cache', SLE_FIELDS)):
        c = getattr(s, cname, None)
        o = getattr(c, 'value', None) if c is not None else None
        if o is None: out.append(None); continue
        same = o._imol is s._imol and o._thermal_condition is s._thermal_condition
        out.append((same,) + tuple(_v(_g(o, k)) for k in fields))
    return tuple(out)

def full_digest(s):
    return (fx.stream_digest(s), solver_digest(s))

# ----------------------------------------------------------------------------------------------------------------
# independent reference thermodynamics for the volatile part of a mixture

class RefFlash:
    """K-values, bubble/dew points and the (T,P) flash of the chemicals `idx` of package `th`, written from the
    defining equations: K_i = pcf_i Psat_i gamma_i(x) / (phi_i(y) P); Rachford-Rice by bisection; successive
    substitution on x, y to 1e-12.  Only volatile (partitioning) chemicals are handled."""
    def __init__(self, th, idx):
        chems = [th.chemicals.tuple[i] for i in idx]
        self.th = th; self.idx = tuple(idx); self.chems = chems; self.n = len(chems)
        self.gamma = _fresh_instance(th.Gamma, chems); self.phi = _fresh_instance(th.Phi, chems); self.pcf = _fresh_instance(th.PCF, chems)

    def Psats(self, T): return np.array([float(c.Psat(T)) for c in self.chems])

    def Kvalues(self, x, y, T, P, Ps=None):
        Ps = self.Psats(T) if Ps is None else Ps
        g = np.asarray(self.gamma(np.array(x, float), T), float) * np.ones(self.n)
        ph = np.asarray(self.phi(np.array(y, float), T, P), float) * np.ones(self.n)
        pc = np.asarray(self.pcf(T, P, Ps.copy()), float) * np.ones(self.n)
        return pc * Ps * g / (ph * P)

    @staticmethod
    def rr(z, K):
        """vapour fraction solving sum z_i (K_i-1)/(1+V(K_i-1)) = 0 (monotone decreasing in V on [0, 1]); 0 / 1 when no root inside.
        Brent's method inside the bracket [0, 1] to machine precision (bisection as fall-back)."""
        c = K - 1.
        zc = z * c
        f = lambda V: float((zc / (1. + V * c)).sum())
        if f(0.) <= 0.: return 0.
        if f(1.) >= 0.: return 1.
        try:
            from scipy.optimize import brentq
            return float(brentq(f, 0., 1., xtol=1e-16, rtol=8.9e-16, maxiter=200))
        except Exception:
            lo, hi = 0., 1.
            for _ in range(200):
                mid = 0.5 * (lo + hi)
                if f(mid) > 0.: lo = mid
                else: hi = mid
                if hi - lo < 1e-15: break
            return 0.5 * (lo + hi)

    def bubble_P(self, z, T):
        Ps = self.Psats(T); y = z.copy(); P = float((z * Ps).sum())
        for _ in range(100):
            K = self.Kvalues(z, y, T, P, Ps)
            Pn = float((z * K).sum() * P)
            y = z * K; y = y / y.sum()
            if abs(Pn - P) <= 1e-13 * P: P = Pn; break
            P = Pn
        return P, y

    def dew_P(self, z, T):
        Ps = self.Psats(T); x = z.copy(); P = float(1. / (z / Ps).sum())
        for _ in range(500):
            K = self.Kvalues(x, z, T, P, Ps)
            Pn = float(P / (z / K).sum())
            xn = z / K; xn = xn / xn.sum()
            done = abs(Pn - P) <= 1e-13 * P and np.abs(xn - x).max() <= 1e-13
            P, x = Pn, xn
            if done: break
        return P, x

    def _pure_Tsat(self, i, P):
        f = self.chems[i].Psat
        a, b = 150., 900.
        for _ in range(80):
            mid = 0.5 * (a + b)
            try: v = float(f(mid))
            except Exception: b = mid; continue
            if not np.isfinite(v): b = mid; continue
            if v < P: a = mid
            else: b = mid
            if b - a < 1e-9: break
        return 0.5 * (a + b)

    def _bisect_T(self, f, P, lo=None, hi=None):
        """f(T) is a pressure increasing in T; solve f(T) = P (Brent inside a bracket built from the pure-component
        saturation temperatures, plain bisection as fall-back)."""
        from scipy.optimize import brentq
        if lo is None:
            Ts = [self._pure_Tsat(i, P) for i in range(self.n)]
            lo, hi = min(Ts) - 80., max(Ts) + 1.
        g = lambda T: math.log(f(T) / P)
        try:
            glo, ghi = g(lo), g(hi)
            if glo < 0. < ghi:
                return float(brentq(g, lo, hi, xtol=1e-10, rtol=1e-14, maxiter=200))
        except Exception:
            pass
        a, b = 150., 900.
        for _ in range(200):
            mid = 0.5 * (a + b)
            try: v = f(mid)
            except Exception: b = mid; continue
            if not np.isfinite(v): b = mid; continue
            if v < P: a = mid
            else: b = mid
            if b - a < 1e-10: break
        return 0.5 * (a + b)

    def Tsat(self, P): return self._pure_Tsat(0, P)
    def bubble_T(self, z, P): return self._bisect_T(lambda T: self.bubble_P(z, T)[0], P)
    def dew_T(self, z, P): return self._bisect_T(lambda T: self.dew_P(z, T)[0], P)

    def flash(self, z, T, P, guess=None):
        """-> (V, x, y, K).  V = 0 / 1 outside the two-phase region (x or y then equal z)."""
        z = np.asarray(z, float); z = z / z.sum()
        if self.n == 1:
            Ps = self.Psats(T)[0]
            V = 0. if P > Ps else (1. if P < Ps else 0.5)
            return V, z.copy(), z.copy(), np.array([Ps / P])
        Ps = self.Psats(T)
        if guess is None:
            x = z.copy(); y = z * Ps; y = y / y.sum()
        else:
            x, y = guess
        V = 0.5
        for it in range(2000):
            K = self.Kvalues(x, y, T, P, Ps)
            Vn = self.rr(z, K)
            xn = z / (1. + Vn * (K - 1.)); xn = xn / xn.sum()
            yn = K * xn; yn = yn / yn.sum()
            d = max(np.abs(xn - x).max(), np.abs(yn - y).max(), abs(Vn - V))
            x, y, V = xn, yn, Vn
            if d < 1e-12: break
        return V, x, y, K

def flash_with_gas(ref, z, za, T, P):
    """(T,P) flash of volatile chemicals (mole fractions z of the TOTAL feed, sum z = 1 - za) beside a non-condensable gas (fraction za > 0,
    K = infinity): beta solves  sum z_i (K_i - 1)/(1 + beta (K_i - 1)) + za/beta = 0  (Brent in (0, 1]); returns (beta, x, y, v) with
    v_i = beta * y_i = vapour of chemical i per unit of total feed.  Activity coefficients are evaluated at the gas-free normalised liquid
    composition (irrelevant for ideal packages, for which alone this reference is used)."""
    from scipy.optimize import brentq
    z = np.asarray(z, float)
    Ps = ref.Psats(T)
    x = z / z.sum(); y = x * Ps; y = y / y.sum()
    beta = 0.5
    for it in range(500):
        K = ref.Kvalues(x, y, T, P, Ps)
        c = K - 1.
        f = lambda b: float((z * c / (1. + b * c)).sum() + za / b)
        if f(1.) >= 0.: bn = 1.
        else: bn = float(brentq(f, 1e-15, 1., xtol=1e-16, rtol=8.9e-16, maxiter=300))
        xl = z / (1. + bn * c)
        xn = xl / xl.sum(); yv = K * xl; yn = yv / yv.sum()
        d = max(np.abs(xn - x).max(), np.abs(yn - y).max(), abs(bn - beta))
        x, y, beta = xn, yn, bn
        if d < 1e-12: break
    xl = z / (1. + beta * (K - 1.))
    return beta, xl, K * xl, beta * K * xl

def volatile_indices(th, present):
    return [i for i in th.chemicals._vle_index if i in present]

# ----------------------------------------------------------------------------------------------------------------
# executing one call on the real stream

PROGRAMMING_ERRORS = ('TypeError', 'IndexError', 'AttributeError', 'KeyError', 'UnboundLocalError', 'NameError', 'StampedKeyError')
# thermosteam's own exception classes (UndefinedPhase: e.g. vlle on a stream that holds solid material, whose phases it
# resets to (L, g, l); UndefinedChemicalAlias, InfeasibleRegion, NoEquilibrium, DimensionError) are documented rejections

class St:
    __slots__ = ('config', 's', 'th', 'tot0', 'last', 'n_calls', 'extra')

_REF_CACHE = {}
_END_CACHE = {}

def ref_for(th, idx):
    key = (id(th), tuple(idx))
    r = _REF_CACHE.get(key)
    if r is None:
        r = _REF_CACHE[key] = RefFlash(th, idx)
    return r

def classify(st):
    """(n volatile present, light present, heavy present) from the current totals"""
    th = st.th; ch = th.chemicals
    tot = totals(st.s)
    present = {i for i, x in enumerate(tot) if x != 0.}
    vol = volatile_indices(th, present)
    light = any(i in present for i in ch._light_indices)
    heavy = any(i in present for i in ch._heavy_indices)
    return vol, light, heavy, tot

def _twin(st, assign, T, P):
    """value reader: a fresh MultiStream with the material of the g+l pool placed by `assign` (vol -> phase),
    everything in other phases left where it is."""
    tmo = fx.tmo()
    th = st.th; ch = th.chemicals
    d = dense_by_phase(st.s)
    phases = tuple(sorted(set(d) | {'g', 'l'}))
    pool = d.get('g', 0.) + d.get('l', 0.)
    if 'g' not in d and 'l' not in d: pool = np.zeros(ch.size)
    g = np.zeros(ch.size); l = np.zeros(ch.size)
    vle_idx = set(ch._vle_index)
    for i in range(ch.size):
        if i in vle_idx: (g if assign == 'g' else l)[i] = pool[i]
        elif i in ch._light_indices: g[i] = pool[i]
        else: l[i] = pool[i]
    t = tmo.MultiStream(None, phases=phases, T=T, P=P, thermo=th)
    for p in phases:
        if p == 'g': t.imol['g'] = g
        elif p == 'l': t.imol['l'] = l
        else: t.imol[p] = d[p]
    return t

def hs_endpoints(st, which, fixed, value):
    """(all-liquid value at the bubble point, all-vapour value at the dew point) of H or S [kJ/hr, kJ/hr/K] for the
    stream's present material at fixed P (fixed='P') or fixed T (fixed='T'); bubble / dew points from RefFlash."""
    vol, light, heavy, tot = classify(st)
    d = dense_by_phase(st.s)
    # exact key (bytes of the flows): a cached end point is then bit-identical to a recomputation, so the specification value
    # never depends on which states the same worker process evaluated before
    key = (id(st.th), tuple((p, a.tobytes()) for p, a in sorted(d.items())), which, fixed, float(value))
    if key in _END_CACHE: return _END_CACHE[key]
    pool = d.get('g', 0.) + d.get('l', 0.) if ('g' in d or 'l' in d) else np.zeros(len(tot))
    vol = [i for i in vol if pool[i] != 0.]
    if vol:
        z = np.array([pool[i] for i in vol]); z = z / z.sum()
        ref = ref_for(st.th, vol)
        with np.errstate(all='ignore'):
            if fixed == 'P':
                P = value
                Tb = ref.bubble_T(z, P) if len(vol) > 1 else ref.Tsat(P)
                Td = ref.dew_T(z, P) if len(vol) > 1 else Tb
                cond_L, cond_V = (Tb, P), (Td, P)
            else:
                T = value
                Pb = ref.bubble_P(z, T)[0] if len(vol) > 1 else ref.Psats(T)[0]
                Pd = ref.dew_P(z, T)[0] if len(vol) > 1 else Pb
                cond_L, cond_V = (T, Pb), (T, Pd)
    else:
        cond_L, cond_V = ((300., value), (400., value)) if fixed == 'P' else ((value, 2e5), (value, 1e4))
    tl = _twin(st, 'l', *cond_L); tv = _twin(st, 'g', *cond_V)
    out = (float(getattr(tl, which)), float(getattr(tv, which)), cond_L, cond_V)
    if len(_END_CACHE) > 20000: _END_CACHE.clear()
    _END_CACHE[key] = out
    return out

def resolve_kwargs(st, action):
    """library keyword arguments of a vle action (H / S fractions resolved against the current material)"""
    kind, pair, v1, v2 = action[:4]
    assert kind == 'vle'
    kw = {}
    info = {}
    if pair == 'Tp':
        vol, light, heavy, tot = classify(st)
        z = np.array([tot[i] for i in vol]); z = z / z.sum()
        ref = ref_for(st.th, vol)
        T = float(v1)
        with np.errstate(all='ignore'):
            if len(vol) > 1: Pb = ref.bubble_P(z, T)[0]; Pd = ref.dew_P(z, T)[0]
            else: Pb = Pd = float(ref.Psats(T)[0])
        return dict(T=T, P=float(Pd + float(v2) * (Pb - Pd))), dict(P_bubble=Pb, P_dew=Pd, frac=float(v2))
    if pair == 'Tq':
        # (T, P) with P = my bubble pressure (pure chemical: Psat) x (1 + v2)
        vol, light, heavy, tot = classify(st)
        z = np.array([tot[i] for i in vol]); z = z / z.sum()
        ref = ref_for(st.th, vol)
        T = float(v1)
        with np.errstate(all='ignore'):
            Pb = ref.bubble_P(z, T)[0] if len(vol) > 1 else float(ref.Psats(T)[0])
        return dict(T=T, P=float(Pb * (1. + float(v2)))), dict(P_bubble=Pb, rel=float(v2))
    if pair in ('TPl', 'TPg'):
        # reactive flash: vle(T, P, liquid_conversion= / gas_conversion=Reaction)
        rxn = fx.tmo().Reaction('LacticAcid + Ethanol -> Water + EthylLactate', reactant='LacticAcid', X=0.2, chemicals=st.th.chemicals)
        return {'T': float(v1), 'P': float(v2), ('liquid_conversion' if pair == 'TPl' else 'gas_conversion'): rxn}, dict(reactive=True)
    for name, v in zip(pair, (v1, v2)):
        if name in 'TPV': kw[name] = float(v)
    for name, v in zip(pair, (v1, v2)):
        if name in 'HS':
            fixed = 'P' if 'P' in kw else 'T'
            lo, hi, cL, cV = hs_endpoints(st, name, fixed, kw[fixed])
            kw[name] = lo + float(v) * (hi - lo)
            info.update(lo=lo, hi=hi, cond_L=cL, cond_V=cV, frac=float(v))
        elif name in 'xy':
            kw[name] = np.array([float(v), 1. - float(v)])
    return kw, info

def run_call(st, action):
    """Execute the call; returns obs dict.  Raises Rejected for documented exceptions and
    Violation('unexpected-exception') for programming-error types."""
    s = st.s
    kind = action[0]
    kw = {}; info = {}
    vol, light, heavy, tot = classify(st)
    cls = dict(nvol=min(len(vol), 3), light=light, heavy=heavy)
    s_in = s
    try:
        if kind == 'vle':
            kw, info = resolve_kwargs(st, action)
            s.vle(**kw)
        elif kind == 'lle':
            pair = action[1]
            if pair == 'T': s.lle(T=float(action[2]))
            elif pair == 'TP': s.lle(T=float(action[2]), P=float(action[3]))
            elif pair == 'Ttop': s.lle(T=float(action[2]), top_chemical=action[3])
            elif pair == 'Tnc': s.lle(T=float(action[2]), use_cache=False)
            else: raise ValueError(action)
        elif kind == 'sle':
            pair = action[1]
            if pair == 'T': s.sle(action[2], T=float(action[3]))
            elif pair == 'Tx': s.sle(action[2], T=float(action[3]), solubility=float(action[4]))
            elif pair == 'Txr':
                # solubility given RELATIVE to the mole fraction at complete dissolution of ALL the solute present (liquid + solid)
                d_ = dense_by_phase(s); i_ = s.chemicals.IDs.index(action[2])
                liq = d_.get('l', np.zeros(s.chemicals.size)); tot_sol = sum(a_[i_] for a_ in d_.values() if a_ is not None)
                solvent = float(liq.sum() - liq[i_])
                x_full = tot_sol / (solvent + tot_sol) if (solvent + tot_sol) > 0 else 1.
                kw = dict(solubility=min(float(action[4]) * x_full, 1. - 1e-9))
                s.sle(action[2], T=float(action[3]), solubility=kw['solubility'])
            else: raise ValueError(action)
        elif kind == 'vlle':
            s.vlle(T=float(action[2]), P=float(action[3]))
        elif kind == 'ctor':
            # the constructor flag vlle=True: a NEW Stream ('S') / MultiStream ('M') made from the current totals, equilibrated on construction
            tmo_ = fx.tmo(); IDs_ = s.chemicals.IDs
            tot_ = totals(s)
            flows_ = {IDs_[i]: float(x) for i, x in enumerate(tot_) if x}
            if action[1] == 'S':
                s2 = tmo_.Stream(None, T=float(action[2]), P=float(action[3]), vlle=True, thermo=st.th, **flows_)
            else:
                s2 = tmo_.MultiStream(None, l=list(flows_.items()), T=float(action[2]), P=float(action[3]), vlle=True, thermo=st.th)
            st.s = s = s2
        elif kind == 'refill':
            # the user empties the stream and fills it with another set of the package's chemicals (the cached solver objects stay)
            IDs, flows = list(action[1]), [float(x) for x in action[2]]
            s.empty()
            if isinstance(s, fx.tmo().MultiStream): s.imol['l', IDs] = flows
            else: s.imol[IDs] = flows
        elif kind == 'edit':
            # the user multiplies the flow of ONE chemical (in every phase it sits in) by a factor -- e.g. a trace chemical, so that
            # every mole fraction moves by less than the solvers' cache tolerances
            i = s.chemicals.IDs.index(action[1]); f = float(action[2])
            if isinstance(s, fx.tmo().MultiStream):
                for p_ in s.phases:
                    x_ = float(s.imol[p_, action[1]])
                    if x_: s.imol[p_, action[1]] = x_ * f
            else:
                s.imol[action[1]] = float(s.imol[action[1]]) * f
        elif kind == 'scale':
            # all flows multiplied in place: composition unchanged (bit-identical for powers of two), magnitude changed
            s.scale(float(action[1]))
        elif kind == 'pkg':
            # same chemicals (same Chemical objects), other property package: a new stream in the SAME execution, so the
            # process-global interned BubblePoint / DewPoint / Gamma objects created by the earlier calls are still there
            th2 = package(action[1])
            d = dense_by_phase(s)
            IDs_old = s.chemicals.IDs
            s2 = fx.tmo().MultiStream(None, phases=('g', 'l'), T=float(s.T), P=float(s.P), thermo=th2)
            for p_, a_ in d.items():
                if not a_.any(): continue
                nz = [(IDs_old[i], float(x)) for i, x in enumerate(a_) if x]
                s2.imol['l' if p_ not in ('g', 'l') else p_, [i for i, x in nz]] = [x for i, x in nz]
            st.s = s = s2; st.th = th2; st.extra['pkg'] = action[1]
        else:
            raise ValueError(action)
    except (Violation, Rejected):
        raise
    except Exception as e:
        name = type(e).__name__
        st.s = s
        shape_error = isinstance(e, ValueError) and any(w in str(e) for w in ('broadcast', 'shape', 'dimension', 'size'))
        if name in PROGRAMMING_ERRORS or isinstance(e, (TypeError, IndexError, AttributeError, KeyError, NameError)) or shape_error:
            import traceback
            tb = traceback.extract_tb(e.__traceback__)
            where = next((f'{f.filename.split("/thermosteam/")[-1]}:{f.name}' for f in reversed(tb) if '/thermosteam/' in f.filename), '?')
            raise Violation('unexpected-exception', f'{action!r} on {st.config!r} raised {name}: {e} at {where}',
                            match=dict(exc=name, call=kind + ':' + str(action[1]), where=where),
                            detail=dict(kwargs={k: (v.tolist() if hasattr(v, 'tolist') else v) for k, v in kw.items()}))
        raise Rejected(f'{kind}:{action[1]}:{name}', cut=True)
    st.n_calls += 1
    if kind in ('refill', 'pkg', 'edit', 'scale'):
        vol, light, heavy, tot = classify(st)
        cls = dict(nvol=min(len(vol), 3), light=light, heavy=heavy)
    d = dense_by_phase(s)
    g = d.get('g'); l = d.get('l')
    vg = float(sum(g[i] for i in vol)) if g is not None else 0.
    vl = float(sum(l[i] for i in vol)) if l is not None else 0.
    branch = 'LV' if (vg > 0 and vl > 0) else ('V' if vg > 0 else ('L' if vl > 0 else '0'))
    nph = sum(1 for a in d.values() if a.any())
    obs = dict(kind=kind, pair=str(action[1]), branch=branch, nphases=nph, T=float(s.T), P=float(s.P), kw=kw, info=info, **cls)
    st.last = obs
    return obs

# ----------------------------------------------------------------------------------------------------------------
# generic system

class FlashSystem(System):
    """configs: enum_configs(tier, seed) ; actions: enum_actions(system, st) ; oracle(system, st, action, before, obs)."""
    nontrivial_per_config = True

    def __init__(self, name, enum_configs, enum_actions, oracle, depth_q=1, depth_t=1, tcap_q=None, tcap_t=None,
                 describe=None, nontrivial=None, state_cap=3_000_000):
        self.name = name
        self._enum_configs = enum_configs; self._enum_actions = enum_actions; self._oracle = oracle
        self._dq, self._dt = depth_q, depth_t
        self._tq, self._tt = tcap_q, tcap_t
        self._describe = describe or {}
        self._nontrivial = nontrivial
        self.tier = 'quick'; self.seed = 0
        self.state_cap = state_cap

    def warm(self):
        fx.tmo()
        for name in self._describe_pkgs(): package(name)

    def _describe_pkgs(self):
        try: return sorted({c[0] for c in self._enum_configs(self, 'thorough', 0)})
        except Exception: return []
    def reset_globals(self):
        fx.reset_globals(); clear_interning()
    def depth(self, tier): return self._dq if tier == 'quick' else self._dt
    def time_cap(self, tier): return self._tq if tier == 'quick' else self._tt
    def describe(self, tier):
        d = self._describe
        return d(tier) if callable(d) else dict(d)

    def configs(self, tier, seed):
        self.tier = tier; self.seed = seed
        return list(self._enum_configs(self, tier, seed))

    def build(self, config):
        st = St()
        st.config = config
        st.th = package(config[0])
        st.s = build_stream(config)
        if len(config) > 4 and isinstance(config[4], tuple) and config[4] and config[4][0] == 'opts':
            for k, v in config[4][1]:
                if k == 'vle_method': st.s.vle.method = v      # documented solver option: 'fixed-point' (default) or 'shgo'
                elif k == 'lle_ctol': st.s.lle.composition_cache_tolerance = float(v)     # documented LLE attributes (constructor arguments)
                elif k == 'lle_ttol': st.s.lle.temperature_cache_tolerance = float(v)
        st.tot0 = totals(st.s)
        st.last = None; st.n_calls = 0; st.extra = {}
        return st

    def actions(self, st):
        return list(self._enum_actions(self, st))

    def canon(self, st):
        return (st.config, st.extra.get('pkg'), st.extra.get('last_kind'), full_digest(st.s), interning_digest())

    def step(self, st, action):
        before = dense_by_phase(st.s)
        T0, P0 = float(st.s.T), float(st.s.P)
        obs = run_call(st, action)
        self._oracle(self, st, action, dict(flows=before, T=T0, P=P0), obs)
        return {k: v for k, v in obs.items() if k not in ('kw', 'info')} | \
               dict(kw={k: (v.tolist() if hasattr(v, 'tolist') else (v if isinstance(v, (int, float, str)) else repr(v))) for k, v in obs['kw'].items()})

    def nontrivial(self, st, a, obs):
        if self._nontrivial: return self._nontrivial(self, st, a, obs)
        if isinstance(obs, tuple): return False
        return obs.get('branch') == 'LV' or obs.get('nphases', 0) >= 2

    def outcome(self, st, a, obs):
        if isinstance(obs, tuple): return repr(obs)
        return repr((obs['kind'], obs['pair'], obs['branch'], obs['nphases'], obs['nvol'], obs['light'], obs['heavy']))

# ----------------------------------------------------------------------------------------------------------------
# deviation bounding (DESIGN 1.1): coordinates of a case and its distance from a base point

def ndev(coords, base):
    return sum(1 for a, b in zip(coords, base) if a != b)

def subsets(IDs, kmin=1, kmax=None):
    kmax = kmax or len(IDs)
    return [c for k in range(kmin, kmax + 1) for c in itertools.combinations(IDs, k)]


def n_volatile(pkg, comp):
    locked = locked_of(pkg)
    return sum(1 for ID in comp if ID not in locked)

class Grid:
    """A depth-1 grid with deviation bounding.  bases: list of (comp, mag, dist, call-coords)."""
    def __init__(self, pkg, comps, mags_q, mags_t, dists, calls_fn, call_coords, bases, seed_bases=(), max_dev=2):
        self.pkg = pkg; self.comps = comps; self.mags_q = mags_q; self.mags_t = mags_t; self.dists = dists
        self.calls_fn = calls_fn; self.call_coords = call_coords; self.bases = list(bases); self.seed_bases = list(seed_bases)
        self.max_dev = max_dev

    def _bases(self, seed):
        b = list(self.bases)
        if self.seed_bases: b.append(self.seed_bases[seed % len(self.seed_bases)])
        return b

    def _mags(self, comp, mags):
        out = []
        for m in mags:
            if len(comp) == 1 and m in ('lo-1', 'hi-1', 'lo0', 'hi0'):
                m = {'lo-1': 'milli', 'hi-1': 'kilo', 'lo0': 'milli', 'hi0': 'kilo'}[m]
            if m not in out: out.append(m)
        return out

    def enum_configs(self, system, tier, seed):
        out = []
        if tier == 'thorough':
            for comp in self.comps:
                for mag in self._mags(comp, self.mags_t):
                    for dist in self.dists:
                        out.append((self.pkg, comp, mag, dist))
        else:
            bases = self._bases(seed)
            for comp in self.comps:
                for mag in self._mags(comp, self.mags_q):
                    for dist in self.dists:
                        if min(ndev((comp, mag, dist), b[:3]) for b in bases) <= self.max_dev:
                            out.append((self.pkg, comp, mag, dist))
        k = seed % max(len(out), 1)
        return out[k:] + out[:k]

    def enum_actions(self, system, st):
        if st.n_calls >= 1 and system.depth(system.tier) == 1: return []
        cfg = st.config
        calls = self.calls_fn(cfg)
        if system.tier == 'thorough': return calls
        bases = self._bases(system.seed)
        out = []
        for a in calls:
            cc = self.call_coords(a)
            for b in bases:
                if ndev(cfg[1:4], b[:3]) + ndev(cc, b[3]) <= self.max_dev:
                    out.append(a); break
        return out



# ----------------------------------------------------------------------------------------------------------------
# sanity of the third-party entropy models (thermo's T_dependent_property_integral_over_T)

_ENTROPY_OK = {}

def entropy_model_ok(th, ID):
    """False when the pure-component entropy model of `ID` is not the integral of Cn/T (probe: the HEOS_FIT liquid heat
    capacity of Benzene integrates to a staircase with steps of 2 J/mol/K, so S(T) cannot be matched by any solver).
    Checked on 1 K steps over 260..480 K for the phases l and g: S(T+1) - S(T) within 5 % (+1e-3) of Cn(T+1/2)/(T+1/2)."""
    key = (id(th), ID)
    if key in _ENTROPY_OK: return _ENTROPY_OK[key]
    c = th.chemicals[ID]
    ok = True
    if not c.locked_state:
        for phase in ('l', 'g'):
            try:
                prev = float(c.S(phase, 260., 101325.))
                for T in range(260, 480):
                    cur = float(c.S(phase, T + 1., 101325.))
                    exp = float(c.Cn(phase, T + 0.5)) / (T + 0.5)
                    if not abs((cur - prev) - exp) <= 0.05 * abs(exp) + 1e-3:
                        ok = False; break
                    prev = cur
            except Exception:
                ok = False
            if not ok: break
    _ENTROPY_OK[key] = ok
    return ok

def entropy_ok_for(pkg, comp):
    th = package(pkg)
    return all(entropy_model_ok(th, ID) for ID in comp)
