"""
C06 — heat of reaction and adiabatic reaction close the energy balance.

  c06.dH         depth 1: `Reaction.dH` (and the dH of the items of a set) against
                 X * sum_i nu_i * (Hf_i + latent_i(phase_ref_i -> tagged phase)) [/ MW_reactant on a weight basis], for every
                 menu stoichiometry x reactant x EVERY assignment of {s,l,g} to its species (and phase-less) x basis x X
  c06.iso        depth 1: isothermal reaction of a stream: Hnet_after - Hnet_before == sum_i dn_i * (Hf_i + h_i(phase_i, T, P))
                 (exact state-function identity, DESIGN 3/C06(b)); at T_ref with every reacting species in its reference phase
                 additionally the literal sentence  dHnet == sum_k dH_k * (reactant fed to item k)
  c06.adiabatic  depth 1: `adiabatic_reaction(stream, Q)`: Hnet_after == Hnet_before + Q, flows as the isothermal call, P unchanged
  c06.history    depth <= 3: the same reaction object used adiabatically / isothermally several times on one stream
"""
from __future__ import annotations
import itertools
import numpy as np
from mc.engine import System, Violation, Rejected
from mc import fixtures as fx
from mc.systems import _rxn_common as rc
from mc.systems._rxn_common import IDS, N, POS, MENU, MENU_INDEX
from mc.systems.c05 import Target

PROPERTY = 'C06'
RULE = ('Depth-1 grids: (stoichiometry, reactant, phase assignment, basis, X) for dH; (reaction kind, items, tagging, basis) x (feed '
        'phase, T, conversion pattern[, Q]) for the isothermal and adiabatic clauses, each executed on freshly built real objects; '
        'depth <= 3 sequences of adiabatic / isothermal calls and temperature changes on one stream with one reaction object.  A case is '
        'non-trivial when material actually reacts (non-zero extent), so that the enthalpy of formation of the stream changes.')
ASSUMPTIONS = [
    'PKG_RXN; every chemical has Hf, Hfus and Hvap(298.15) (0 for the supercritical gases); Glucose has no gas-phase enthalpy model, so '
    'streams containing Glucose are liquid or multi-phase with Glucose solid',
    'feeds: reactants in excess of the conversion, diluted in 200 kmol/hr CO2 (gas and multi-phase feeds) or water (liquid feeds); T in {280, 298.15, 350, 450} K '
    '(thorough: 10 temperatures 280..450 K and Q up to +-1e5 kJ/hr for single reactions and the curated sets, 7 temperatures for generated pairs, 5 for generated 3/4-tuples); '
    'Q in {0, +1e4, -1e4} kJ/hr; X patterns {0.3.., 1.., mixed, all 0, reactants absent from the feed}',
    'isothermal clause: the exact identity dHnet = sum dn_i (Hf_i + h_i) is used everywhere; the literal sentence of the property only where it is '
    'thermodynamically meaningful (T = 298.15 K, every reacting species in its reference phase) — DESIGN 3 C06(b)',
    'h_i is re-evaluated with Chemical.H(phase, T, P) of the package (ideal mixture); latent heats from Chemical.phase_ref, Hvap(298.15), Hfus',
    'adiabatic outlet temperatures outside [200, 1500] K are counted as rejected (outside the models\' range)',
    'the enthalpy setter may switch a single-phase stream between l and g when the original phase has no solution; the balance is then judged in '
    'the phase the stream reports (counted as outcome adiabatic-phase-switched)',
]
TOLERANCES = {
    'dH_rtol': 1e-12,
    'Hnet_rtol': 1e-9,            # state-function identity, relative to max |Hnet|
    'T_tol': 1e-6,                # mixture.T_tol; adiabatic residual <= 10 * C * T_tol + Hnet_rtol * |Hnet|
    'adiabatic_factor': 10.0,
    'flow_rtol': 1e-9,
}
T_REF = 298.15
P_REF = 101325.

_loaded = False
_chems = None
_C = {}
def _load():
    global _loaded, _chems
    if not _loaded:
        fx.tmo(); _chems = rc.package('P').chemicals; rc.MW()
        for c in _chems: _C[c.ID] = c
        _loaded = True

LEVEL = None
def latent(ID, phase):
    """enthalpy at 298.15 K of `phase` relative to the chemical's reference phase, from Hfus and Hvap(298.15)"""
    c = _C[ID]
    lv = {'s': 0.0, 'l': float(c.Hfus), 'g': float(c.Hfus) + float(c.Hvap(298.15))}
    return lv[phase] - lv[c.phase_ref]

def model_dH(ri, reactant, X, assign, wt):
    d = MENU[ri][1]
    nr = abs(d[reactant])
    tot = 0.0
    for k, nu in d.items():
        h = float(_C[k].Hf)
        if assign is not None: h += latent(k, assign[k])
        tot += nu / nr * h
    if wt: tot /= rc.MW()[POS[reactant]]
    return X * tot

def pure_h(ID, phase, T, P):
    return float(_C[ID].H(phase, T, P))

def model_Hnet(n, phases, single_phase, T, P):
    """sum_i n_i (Hf_i + h_i(phase_i, T, P)) for a dense array (N,) [single phase] or (P, N)"""
    tot = 0.0
    arr = n if n.ndim == 2 else n[None, :]
    phs = phases if n.ndim == 2 else (single_phase,)
    for p, row in zip(phs, arr):
        for i, x in enumerate(row):
            if x: tot += x * (float(_C[IDS[i]].Hf) + pure_h(IDS[i], p, T, P))
    return tot


class St:
    pass

# =========================================================================================================
# (a) dH

@rc.guard_build
class DH(System):
    name = 'c06.dH'
    def warm(self): _load()
    def reset_globals(self): rc.reset_reaction_globals()
    def depth(self, tier): return 1

    def configs(self, tier, seed):
        cfgs = []
        for ri in rc.menu_range(tier):
            species = list(MENU[ri][1])
            reactants = rc.reactants_of(ri)
            assigns = [None] + list(itertools.product('slg', repeat=len(species)))
            for r in reactants:
                for asg in assigns:
                    for route in ('mol', 'wt-set', 'wt-direct'):
                        if tier == 'quick' and route == 'wt-direct' and asg is not None: continue
                        cfgs.append((ri, r, asg, route))
        k = seed % len(cfgs)
        return cfgs[k:] + cfgs[:k]

    def build(self, config):
        t = fx.tmo()
        ri, r, asg, route = config
        st = St(); st.config = config
        d = dict(MENU[ri][1])
        st.assign = None if asg is None else dict(zip(d, asg))
        basis = 'mol'
        if route == 'wt-direct':
            mw = rc.MW(); d = {k: x * mw[POS[k]] for k, x in d.items()}; basis = 'wt'
        st.rxn = rc.build_reaction(rc.as_string(d, st.assign), r, 1.0, _chems, basis)
        if route == 'wt-set': st.rxn.basis = 'wt'
        st.last = None
        return st

    def actions(self, st):
        return [('dH', X) for X in (0.0, 0.3, 1.0)] + [('item', X) for X in (0.3,)] + [('held-setX', 0.3), ('sys-setX', 0.3)]

    def step(self, st, a):
        t = fx.tmo()
        ri, r, asg, route = st.config
        op, X = a
        wt = route != 'mol'
        match = dict(op=op, tagged=asg is not None, basis='wt' if wt else 'mol')
        want = model_dH(ri, r, X, st.assign, wt)
        rxn = st.rxn
        if op in ('held-setX', 'sys-setX'):
            # handles (items, a slice) are taken FIRST, then the conversions are re-specified on the set (or through a
            # ReactionSystem that contains it): every handle must report the heat of reaction at the new conversion, and a
            # conversion written through an old handle must reach the set
            rxn.X = 0.9
            other = rxn.copy(); other.X = 0.75
            P = t.ParallelReaction([other, rxn])
            held = list(P); byindex = P[1]; sl = P[0:2]
            try:
                if op == 'held-setX': P.X = [0.6, X]
                else:
                    Y = t.ReactionSystem(P, rxn.copy())
                    Y.X = [[0.6, X], 0.5]
                views = dict(held_iter=held[1].dH, held_index=byindex.dH, slice_item=sl[1].dH, fresh=P[1].dH, sibling=held[0].dH)
            except Exception as e:
                raise Violation('unexpected-exception', f'{type(e).__name__}: {e}', match=dict(match, exc=type(e).__name__))
            wants = dict(held_iter=want, held_index=want, slice_item=want, fresh=want, sibling=model_dH(ri, r, 0.6, st.assign, wt))
            for k_, got in views.items():
                if np.ndim(got) != 0 or abs(float(got) - wants[k_]) > TOLERANCES['dH_rtol'] * max(abs(wants[k_]), 1.0):
                    raise Violation('dH-value', f'after set.X = [0.6, {X}] the dH seen through {k_} is {np.asarray(got).tolist()!r}, expected {wants[k_]!r}',
                                    match=dict(match, how='stale-handle', seen=k_))
            held[1].X = 0.45
            w2 = model_dH(ri, r, 0.45, st.assign, wt)
            for k_, got in dict(fresh=P[1].dH, slice_item=sl[1].dH, set_X=None).items():
                if k_ == 'set_X':
                    if float(P.X[1]) != 0.45:
                        raise Violation('dH-value', f'a conversion written through a handle taken before set.X = ... does not reach the set (X[1] = {P.X[1]})',
                                        match=dict(match, how='stale-handle', seen='set_X'))
                elif abs(float(got) - w2) > TOLERANCES['dH_rtol'] * max(abs(w2), 1.0):
                    raise Violation('dH-value', f'after held_item.X = 0.45 the dH seen through {k_} is {float(got)!r}, expected {w2!r}',
                                    match=dict(match, how='stale-handle', seen=k_))
            st.last = (a, fx.r12(want))
            return ('dH-handles', fx.r12(want))
        rxn.X = X
        obj = rxn
        if op == 'item':
            # the same reaction as the second member of a ParallelReaction (first member: itself at another conversion)
            other = rxn.copy(); other.X = 0.75
            obj = t.ParallelReaction([other, rxn])[1]
        try:
            got = obj.dH
        except Exception as e:
            raise Violation('unexpected-exception', f'{type(e).__name__}: {e}', match=dict(match, exc=type(e).__name__))
        if np.ndim(got) != 0:
            raise Violation('dH-value', f'dH of a {type(obj).__name__} is not a number but an array of shape {np.shape(got)}: {np.asarray(got).tolist()} '
                            f'(expected {want!r})', match=dict(match, how='not-scalar'))
        got = float(got)
        if abs(got - want) > TOLERANCES['dH_rtol'] * max(abs(want), 1.0):
            raise Violation('dH-value', f'dH = {got!r}, X*sum nu (Hf + latent) = {want!r}', match=dict(match, how='value'),
                            residual=abs(got - want) / max(abs(want), 1.0), detail=dict(reaction=rxn, assign=st.assign))
        st.last = (a, fx.r12(got))
        return ('dH', fx.r12(got))

    def canon(self, st): return (st.config, rc.rxn_digest(st.rxn), st.last)
    def nontrivial(self, st, a, obs):
        return a[1] != 0 and st.assign is not None and any(_C[k].phase_ref != p for k, p in st.assign.items())
    def outcome(self, st, a, obs):
        asg = st.assign
        pairs = tuple(sorted({(_C[k].phase_ref, p) for k, p in asg.items()})) if asg else ()
        return repr((a[0], st.config[3], pairs, a[1] == 0))



# =========================================================================================================
# (a') dH of sums / reductions of phase-tagged reactions in which one chemical occurs in two phases

@rc.guard_build
class DHSum(System):
    """Two routes of the same stoichiometry on the same reactant that differ in the phase of ONE species (e.g. water leaving as
    liquid in one route and as vapour in the other), both declared with `phases='gls'` so that they can be combined.  The heat of
    reaction is linear in the extent vector, so   (a + b).dH == a.dH + b.dH   (same for +=, for ParallelReaction([a,b]).reduce(), and
    ((a + b) - b).dH == a.dH), each compared with the model  X * sum nu (Hf + latent(phase))  of the routes."""
    name = 'c06.dHsum'
    def warm(self): _load()
    def reset_globals(self): rc.reset_reaction_globals()
    def depth(self, tier): return 1

    def configs(self, tier, seed):
        cfgs = []
        for ri in rc.menu_range(tier):
            species = list(MENU[ri][1])
            nat = tuple(rc.NAT_PHASE[k] for k in species)
            bases = [nat] if tier == 'quick' else [nat] + [a for a in itertools.product('slg', repeat=len(species)) if a != nat]
            for r in rc.reactants_of(ri):
                for base in bases:                         # thorough: EVERY phase assignment of the first route
                    for sp in species:
                        if sp == r: continue               # the two routes must share the reactant slot (phase, chemical)
                        for p2 in 'slg':
                            if p2 == base[species.index(sp)]: continue
                            for route in ('mol', 'wt-set'):
                                if tier == 'quick' and route != 'mol' and r != rc.reactants_of(ri)[0]: continue
                                if base == nat: cfgs.append((ri, r, sp, p2, route))
                                else: cfgs.append((ri, r, sp, p2, route, base))
        k = seed % len(cfgs)
        return cfgs[k:] + cfgs[:k]

    def build(self, config):
        t = fx.tmo()
        ri, r, sp, p2, route = config[:5]
        st = St(); st.config = config
        d = MENU[ri][1]
        st.asg_a = {k: rc.NAT_PHASE[k] for k in d} if len(config) == 5 else dict(zip(d, config[5]))
        st.asg_b = dict(st.asg_a); st.asg_b[sp] = p2
        def mk(asg, X):
            rx = rc.build_reaction(rc.as_string(d, asg), r, X, _chems, phases='gls')
            if route != 'mol': rx.basis = 'wt'
            return rx
        st.a = mk(st.asg_a, 0.3); st.b = mk(st.asg_b, 0.5)
        st.last = None
        return st

    def actions(self, st):
        return [('routes',), ('add',), ('radd',), ('iadd',), ('sub-back',), ('reduce',)]

    def step(self, st, a):
        t = fx.tmo()
        ri, r, sp, p2, route = st.config[:5]
        wt = route != 'mol'
        op = a[0]
        match = dict(op=op, basis='wt' if wt else 'mol', phases=''.join(sorted((st.asg_a[sp], p2))))
        wa = model_dH(ri, r, 0.3, st.asg_a, wt); wb = model_dH(ri, r, 0.5, st.asg_b, wt)
        try:
            if op == 'routes': pairs = [(st.a.dH, wa), (st.b.dH, wb)]
            elif op == 'add': pairs = [((st.a + st.b).dH, wa + wb)]
            elif op == 'radd': pairs = [((st.b + st.a).dH, wa + wb)]
            elif op == 'iadd':
                c = st.a.copy(); c += st.b
                pairs = [(c.dH, wa + wb)]
            elif op == 'sub-back': pairs = [(((st.a + st.b) - st.b).dH, wa)]
            else:
                red = t.ParallelReaction([st.a, st.b]).reduce()
                items = list(red)
                if len(items) != 1:
                    raise Violation('dH-value', f'reduce() of two routes on one reactant has {len(items)} members', match=dict(match, how='items'))
                pairs = [(items[0].dH, wa + wb)]
        except Violation: raise
        except Exception as e:
            raise Violation('unexpected-exception', f'{type(e).__name__}: {e}', match=dict(match, exc=type(e).__name__))
        for got, want in pairs:
            if np.ndim(got) != 0 or abs(float(got) - want) > 1e-9 * max(abs(want), 1.0):
                raise Violation('dH-value', f'{op}: dH = {np.asarray(got).tolist()!r}; the routes give {want!r} '
                                f'({sp} as {st.asg_a[sp]} in one route, as {p2} in the other)', match=dict(match, how='two-phase-species'),
                                residual=abs(float(np.ravel(got)[0]) - want) / max(abs(want), 1.0))
        st.last = (a, fx.r12(pairs[0][1]))
        return (op, fx.r12(pairs[0][1]))

    def canon(self, st): return (st.config, rc.rxn_digest(st.a), rc.rxn_digest(st.b), st.last)
    def nontrivial(self, st, a, obs): return a[0] != 'routes'
    def outcome(self, st, a, obs):
        ri, r, sp, p2, route = st.config[:5]
        return repr((a[0], route, _C[sp].phase_ref, st.asg_a[sp], p2))


# =========================================================================================================
# (a'') dH read again after the reaction object (or a copy / multiple / reversal of it) was modified in place

DHH_FAMILIES = [
    # (tag, reactant, (menu name a, menu name b))
    ('nat', 'H2O', ('elec', 'wgs')), ('nat', 'O2', ('h2comb', 'ch4comb')), ('wg', 'O2', ('h2comb', 'ch4comb')),
    ('nat', 'Glucose', ('ferment', 'gluccomb')), ('none', 'CH4', ('ch4comb', 'partox')), ('none', 'Glucose', ('ferment', 'acet')),
    ('nat', 'Ethanol', ('etox', 'etcomb')), ('vap', 'Ethanol', ('etox', 'etreform')),
]

@rc.guard_build
class DHHistory(System):
    """State: two real reactions a, b on one reactant (phase-tagged or phase-less).  Every action ends by READING a.dH and b.dH and
    comparing them with the model (i.e. with a freshly built equivalent):  dH = sum_slots E * (Hf + latent(phase)) [/ MW_reactant on wt],
    E = X * nu the molar extent vector of the reaction.  Actions modify `a` in place (basis setter, +=, -=, X, *=) or take a copy /
    multiple / negative / reversal of `a` and modify THAT in place (basis setter, which rescales the stoichiometry array in place) —
    after which `a` must be unchanged.  Depth >= 2 gives read -> mutate -> read again."""
    name = 'c06.dHhist'
    nontrivial_per_config = True
    def warm(self): _load()
    def reset_globals(self): rc.reset_reaction_globals()
    def depth(self, tier): return 3 if tier == 'quick' else 4

    def configs(self, tier, seed):
        cfgs = [(i, b0) for i in range(len(DHH_FAMILIES)) for b0 in ('mol', 'wt')]
        if tier == 'quick': cfgs = [c for c in cfgs if c[0] < 5]
        k = seed % len(cfgs)
        return cfgs[k:] + cfgs[:k]

    def build(self, config):
        i, b0 = config
        tag, r, (na, nb) = DHH_FAMILIES[i]
        tg = None if tag == 'none' else tag
        st = St(); st.config = config
        route = 'mol' if b0 == 'mol' else 'wt-set'
        st.a = rc.make_reaction(MENU_INDEX[na], r, 0.3, 'str', tg, route)
        st.b = rc.make_reaction(MENU_INDEX[nb], r, 0.5, 'str', tg, route)
        ra = rc.RefRxn(MENU_INDEX[na], r, 0.3, tg); rb = rc.RefRxn(MENU_INDEX[nb], r, 0.5, tg)
        st.Ea = ra.nu * 0.3; st.Eb = rb.nu * 0.5; st.nua = ra.nu
        st.ridx = ra.ridx; st.phases = ra.phases
        st.basis_a = b0; st.basis_b = b0
        st.reactant = r
        # heat per slot: Hf + latent of the tagged phase
        h = np.array([float(_C[ID].Hf) for ID in IDS])
        if st.phases:
            st.h = np.array([[h[j] + latent(IDS[j], p) for j in range(N)] for p in st.phases])
        else: st.h = h
        st.mutated = 0
        return st

    def actions(self, st):
        acts = [('read',), ('basis', 'wt'), ('basis', 'mol'), ('iadd',), ('isub',), ('setX', 0.6), ('imul', 2.0),
                ('copy-rebase',), ('div-rebase',), ('neg-rebase',), ('copy-copy-rebase',)]
        d = MENU[MENU_INDEX[DHH_FAMILIES[st.config[0]][2][0]]][1]
        prods = [k for k, x in d.items() if x > 0]
        if abs(-float(st.Ea[st.ridx]) - 0.3) < 1e-12 and np.allclose(st.Ea, st.nua * 0.3):      # `a` still is its original stoichiometric line
            acts.append(('back-rebase', prods[0]))
        return acts

    def step(self, st, a):
        op = a[0]
        match = dict(op=op, tagged=bool(st.phases), basis=st.basis_a)
        db0 = rc.rxn_digest(st.b); da0 = rc.rxn_digest(st.a)
        other = lambda b: 'wt' if b == 'mol' else 'mol'
        try:
            if op == 'read': pass
            elif op == 'basis':
                st.a.basis = a[1]; st.basis_a = a[1]
            elif op in ('iadd', 'isub'):
                sign = 1.0 if op == 'iadd' else -1.0
                E = st.Ea + sign * st.Eb
                if abs(E[st.ridx]) <= 1e-12: raise Rejected('degenerate:zero net conversion', cut=True)
                if op == 'iadd': st.a += st.b
                else: st.a -= st.b
                st.Ea = E
            elif op == 'setX':
                X0 = -float(st.Ea[st.ridx])
                if X0 == 0: raise Rejected('degenerate', cut=True)
                st.a.X = a[1]; st.Ea = st.Ea / X0 * a[1]
            elif op == 'imul':
                st.a *= a[1]; st.Ea = st.Ea * a[1]
            elif op == 'copy-rebase':
                c = st.a.copy(); c.basis = other(st.basis_a)
            elif op == 'copy-copy-rebase':
                c = st.a.copy(st.basis_a).copy(); c.basis = other(st.basis_a); c.basis = st.basis_a
            elif op == 'div-rebase':
                c = st.a / 2; c.basis = other(st.basis_a)
            elif op == 'neg-rebase':
                c = -st.a; c.basis = other(st.basis_a)
            elif op == 'back-rebase':
                c = st.a.backwards(reactant=a[1]); c.basis = other(st.basis_a)
            else: raise ValueError(a)
        except Rejected: raise
        except Exception as e:
            raise Violation('unexpected-exception', f'{type(e).__name__}: {e}', match=dict(match, exc=type(e).__name__))
        inplace = op in ('basis', 'iadd', 'isub', 'setX', 'imul')
        if inplace: st.mutated += 1
        if rc.rxn_digest(st.b) != db0:
            raise Violation('operand-mutated', f'{op} changed the other reaction b', match=dict(match, victim='b'))
        if not inplace and rc.rxn_digest(st.a) != da0:
            raise Violation('operand-mutated', f'{op}: modifying the copy / multiple / reversal of a in place changed a itself',
                            match=dict(match, victim='a'))
        mw_r = rc.MW()[st.ridx[-1]]
        for nm, rx, E, basis in (('a', st.a, st.Ea, st.basis_a), ('b', st.b, st.Eb, st.basis_b)):
            want = float((E * st.h).sum())
            if basis == 'wt': want /= mw_r
            try: got = rx.dH
            except Exception as e:
                raise Violation('unexpected-exception', f'dH: {type(e).__name__}: {e}', match=dict(match, exc=type(e).__name__, where='dH'))
            if rx._basis != basis:
                raise Violation('dH-value', f'{nm} is on basis {rx._basis}, expected {basis}', match=dict(match, how='basis', of=nm))
            if np.ndim(got) != 0 or abs(float(got) - want) > 1e-9 * max(abs(want), 1.0):
                raise Violation('dH-value', f'after {op}: dH of {nm} = {np.asarray(got).tolist()!r}; a freshly built equivalent gives {want!r}',
                                match=dict(match, how='after-in-place' if st.mutated else 'value', of=nm),
                                residual=abs(float(np.ravel(got)[0]) - want) / max(abs(want), 1.0))
        return (op, fx.r12(float(st.a.dH)))

    def canon(self, st):
        return (st.config, rc.rxn_digest(st.a), rc.rxn_digest(st.b), st.basis_a, tuple(fx.r12(x) for x in st.Ea.ravel()))
    def nontrivial(self, st, a, obs): return st.mutated >= 1
    def outcome(self, st, a, obs): return repr((DHH_FAMILIES[st.config[0]][0], st.config[1], st.basis_a, a[0], min(st.mutated, 2)))

# =========================================================================================================
# reaction objects for the stream clauses

SINGLES = [(ri, r) for ri in range(rc.MENU_QUICK_N) for r in rc.reactants_of(ri)]
SINGLES_T = [(ri, r) for ri in range(len(MENU)) for r in rc.reactants_of(ri)]          # thorough: the whole menu
PAIRS_G = [((0, 'H2'), (2, 'CH4')), ((2, 'CH4'), (11, 'CH4')), ((11, 'CH4'), (3, 'CO')), ((5, 'CO'), (10, 'H2')), ((3, 'CO'), (3, 'CO')),
           ((6, 'CH4'), (5, 'CO')), ((0, 'O2'), (3, 'O2'))]
PAIRS_L = [((1, 'Glucose'), (8, 'Glucose')), ((1, 'Glucose'), (4, 'Ethanol')), ((4, 'Ethanol'), (9, 'Ethanol')), ((7, 'Glucose'), (12, 'Ethanol'))]
TRIPLES = [((11, 'CH4'), (3, 'CO'), (0, 'H2')), ((6, 'CH4'), (5, 'CO'), (0, 'H2')), ((1, 'Glucose'), (4, 'Ethanol'), (8, 'Glucose'))]
TAGGED_SETS = [((0, 'H2'), (2, 'CH4')), ((4, 'Ethanol'), (9, 'Ethanol')), ((0, 'H2'), (4, 'Ethanol')), ((13, 'H2O'), (5, 'CO'))]
TAGGED_GLS = [((1, 'Glucose'), (7, 'Glucose'))]

def has_glucose(items): return any('Glucose' in MENU[ri][1] for ri, _ in items)

def stream_configs(tier):
    cfgs = []
    routes = ('mol', 'wt-set')
    for it in SINGLES:
        for tag in ('none', 'nat', 'wg'):
            if tag == 'wg' and 'H2O' not in MENU[it[0]][1]: continue
            for route in routes: cfgs.append(('single', (it,), tag, route))
    for pool in (PAIRS_G, PAIRS_L, TRIPLES):
        for its in pool:
            for kind in ('P', 'S', 'Y'):
                for route in routes: cfgs.append((kind, its, 'none', route))
    for its in TAGGED_SETS + TAGGED_GLS:
        for kind in ('P', 'S', 'Y'):
            for route in routes: cfgs.append((kind, its, 'nat', route))
    if tier != 'quick':
        seen = set(cfgs)
        def add(c):
            if c not in seen: seen.add(c); cfgs.append(c)
        # thorough: the whole menu as single reactions, with every phase-tag variant
        for it in SINGLES_T:
            maps = []
            for tag in ('none', 'nat', 'wg', 'ws', 'gl', 'vap'):
                if tag != 'none':
                    tm = rc.tags_of(it[0], tag)
                    if tm in maps: continue
                    maps.append(tm)
                for route in routes: add(('single', (it,), tag, route))
        # every ordered pair of the gas-phase single reactions, as parallel / series / system
        gas = [it for it in SINGLES_T if not has_glucose((it,))]
        for a in gas:
            for b in gas:
                for kind in ('P', 'S', 'Y'):
                    for route in routes: add((kind, (a, b), 'none', route))
        # sets of 3 and 4 reactions (all ordered tuples over small pools), gas, liquid (glucose) and phase-tagged
        for pool, n in ((GAS6, 3), (GAS6[:4], 4), (LIQ4, 3), (LIQ4[:3], 4)):
            for its in itertools.product(pool, repeat=n):
                for kind in ('P', 'S', 'Y'):
                    for route in routes: add((kind, its, 'none', route))
        for its in itertools.product(TAG3, repeat=3):
            for kind in ('P', 'S', 'Y'):
                for route in routes: add((kind, its, 'nat', route))
        for its in itertools.product(TAG3, repeat=2):
            for kind in ('P', 'S', 'Y'):
                for route in routes: add((kind, its, 'nat', route))
    return cfgs

GAS6 = [(0, 'H2'), (2, 'CH4'), (11, 'CH4'), (3, 'CO'), (5, 'CO'), (21, 'O2')]
LIQ4 = [(1, 'Glucose'), (4, 'Ethanol'), (8, 'Glucose'), (19, 'Glucose')]
TAG3 = [(0, 'H2'), (2, 'CH4'), (4, 'Ethanol')]

_FINE = None
def grid_class(config):
    """'fine' for single reactions and the curated sets, 'medium' for generated pairs, 'coarse' for generated 3/4-tuples"""
    global _FINE
    if _FINE is None: _FINE = set(stream_configs('quick'))
    kind, items, tag, route = config
    if kind == 'single' or config in _FINE: return 'fine'
    return 'medium' if len(items) == 2 else 'coarse'

def make_obj(config, Xs):
    t = fx.tmo()
    kind, items, tag, route = config
    tg = None if tag == 'none' else tag
    rx = [rc.make_reaction(ri, r, X, 'str', tg, route) for (ri, r), X in zip(items, Xs)]
    refs = [rc.RefRxn(ri, r, X, tg) for (ri, r), X in zip(items, Xs)]
    if kind == 'single': return rx[0], refs[0], rx, refs
    if kind == 'P': return t.ParallelReaction(rx), ('P', refs), rx, refs
    if kind == 'S': return t.SeriesReaction(rx), ('S', refs), rx, refs
    return t.ReactionSystem(*rx), ('Y', refs), rx, refs

def xpattern(name, k):
    return {'p3': [0.3] * k, 'one': [1.0] * k, 'mix': [[1.0, 0.3, 0.5][i % 3] for i in range(k)], 'zero': [0.0] * k,
            'nofeed': [0.3] * k,            # 'nofeed': the reactants are absent from the feed, nothing reacts
            'fpone': [1.0] * k}[name]       # 'fpone': X = 1 on a feed that is stoichiometric only up to floating-point rounding

def tagmap_of(config):
    kind, items, tag, route = config
    if tag == 'none': return None
    tm = {}
    for ri, r in items: tm.update(rc.tags_of(ri, tag))
    return tm

def feed_for(config, feedphase):
    """generous feed: 1 of the reactant of every item, co-reactants 4 x items x need, products 0.5, diluent 200; returns (n0, phases, single_phase)"""
    kind, items, tag, route = config
    base = np.zeros(N)
    k_items = len(items)
    tm = tagmap_of(config)
    for ri, r in items: base[POS[r]] += 1.0
    base[POS['CO2' if (feedphase == 'g' or tm is not None) else 'H2O']] += 200.0          # diluent (may itself be a reactant)
    need = np.zeros(N)
    for ri, r in items:
        d = MENU[ri][1]
        for k, x in d.items():
            if k == r: continue
            if x < 0: need[POS[k]] += 4.0 * k_items * abs(x) / abs(d[r]) * base[POS[r]]
            else: need[POS[k]] += 0.5
    base = base + need
    if tm is None:
        return base, (), feedphase
    phases = tuple(sorted(set(tm.values())))
    n = np.zeros((len(phases), N))
    for i, ID in enumerate(IDS):
        if not base[i]: continue
        p = tm.get(ID, rc.NAT_PHASE[ID])
        if p not in phases: p = phases[0]
        n[phases.index(p), i] = base[i]
    return n, phases, None

def reacting_in_reference_phase(config, tree, n0, n_ref, phases, single_phase):
    d = n_ref - n0
    arr = d if d.ndim == 2 else d[None, :]
    phs = phases if d.ndim == 2 else (single_phase,)
    for p, row in zip(phs, arr):
        for i, x in enumerate(row):
            if x and _C[IDS[i]].phase_ref != p: return False
    return True

def fed_amounts(tree, n0, wt):
    """[(RefRxn, amount of its reactant it sees)] in molar (or mass for wt) units, following parallel / series semantics"""
    out = []
    mw = rc.MW()
    def amount(r, n):
        x = n[r.ridx]
        return x * mw[r.ridx[-1]] if wt else x
    def walk(tr, n):
        if isinstance(tr, rc.RefRxn):
            out.append((tr, amount(tr, n))); return rc.ref_single(tr, n)
        kind, items = tr
        if kind == 'P':
            for r in items: out.append((r, amount(r, n)))
            return rc.ref_parallel(items, n)
        for sub in items: n = walk(sub, n)
        return n
    walk(tree, n0)
    return out


@rc.guard_build
class Iso(System):
    name = 'c06.iso'
    def warm(self): _load()
    def reset_globals(self): rc.reset_reaction_globals()
    def depth(self, tier): return 1
    adiabatic = False

    def configs(self, tier, seed):
        self.tier = tier
        cfgs = stream_configs(tier)
        k = seed % len(cfgs)
        return cfgs[k:] + cfgs[:k]
    tier = 'thorough'

    def build(self, config):
        st = St(); st.config = config; st.last = None; st.moved = False
        return st

    def _grid(self, st):
        kind, items, tag, route = st.config
        gl = has_glucose(items)
        phases = ['l'] if (tag == 'none' and gl) else (['g', 'l'] if tag == 'none' else ['m'])
        Ts = (280.0, T_REF, 350.0, 450.0)
        xps = ('p3', 'one', 'mix') if self.tier != 'quick' else ('p3', 'one')
        # nothing reacts (X = 0 / reactant absent): the heat input must still arrive, the isothermal call must change nothing
        xps = xps + ('zero', 'nofeed')
        if self.tier != 'quick':
            g = grid_class(st.config)
            if g == 'fine': Ts = (280.0, 290.0, T_REF, 310.0, 330.0, 350.0, 375.0, 400.0, 425.0, 450.0)
            elif g == 'medium': Ts = (280.0, T_REF, 320.0, 350.0, 375.0, 400.0, 450.0); xps = ('p3', 'one', 'mix', 'zero')
            else: Ts = (280.0, T_REF, 350.0, 400.0, 450.0)
        return phases, Ts, xps

    def _cases(self, st):
        phases, Ts, xps = self._grid(st)
        cases = [(ph, T, xp) for ph in phases for T in Ts for xp in xps]
        if st.config[0] == 'single':
            cases += [(ph, T, 'fpone') for ph in phases for T in ((350.0,) if self.tier == 'quick' else Ts)]
        # the same stream defined on a RE-ORDERED property package (the reaction keeps its own `chemicals=`)
        for ph in phases:
            for T in ((350.0,) if self.tier == 'quick' else Ts):
                # X = 1 exactly: a chemical driven to zero must really be gone after the flows are mapped back to the stream's package
                for xp in (('p3', 'one') if self.tier == 'quick' else ('p3', 'one', 'mix', 'zero')):
                    cases.append((ph + 'R', T, xp))
        return cases

    def actions(self, st):
        return self._cases(st)

    def _run(self, st, a, Q=None):
        kind, items, tag, route = st.config
        ph, T, xp = a[:3]
        wt = route != 'mol'
        Xs = xpattern(xp, len(items))
        obj, tree, rx, refs = make_obj(st.config, Xs)
        other_pkg = ph.endswith('R')
        ph = ph[:-1] if other_pkg else ph
        n0, phases, single = feed_for(st.config, ph)
        if xp == 'nofeed':
            for ri, r in items: n0[..., POS[r]] = 0.0
        if xp == 'fpone':
            # reactant 0.1 + 0.2 (= 0.30000000000000004), co-reactants need * 0.3: exhausted up to a rounding residue of either sign;
            # every other chemical of the package present (in particular the one at index 0)
            (ri, r), = items
            d = MENU[ri][1]
            tm_ = tagmap_of(st.config) or {}
            def slot(ID):
                if n0.ndim == 1: return (POS[ID],)
                p = tm_.get(ID, rc.NAT_PHASE[ID])
                if p not in phases: p = ('l' if 'l' in phases else None) if ID == 'Glucose' else phases[0]
                return None if p is None else (phases.index(p), POS[ID])
            for ID in IDS:
                if n0[..., POS[ID]].sum() == 0 and not (ID == 'Glucose' and ph == 'g') and slot(ID) is not None: n0[slot(ID)] = 0.7
            for k_, x in d.items():
                if x < 0:
                    n0[..., POS[k_]] = 0.0
                    n0[slot(k_)] = (0.1 + 0.2) if k_ == r else abs(x) / abs(d[r]) * 0.3
        tk = ('S.g' if ph == 'g' else 'S.l') if tag == 'none' else 'M'
        if other_pkg: tk = {'S.g': 'S.gR', 'S.l': 'SR', 'M': 'MR'}[tk]
        tgt = Target(tk, n0, phases, T=T, P=P_REF)
        s = tgt.stream
        match = dict(kind=kind, tagged=tag != 'none', basis='wt' if wt else 'mol', feed=ph, package='other' if other_pkg else 'own')
        try:
            H0 = float(s.Hnet)
        except Exception as e:
            raise Violation('unexpected-exception', f'Hnet of the feed: {type(e).__name__}: {e}', match=dict(match, exc=type(e).__name__, where='feed'))
        Hm0 = model_Hnet(n0, phases, single, T, P_REF)
        scale = max(abs(H0), abs(Hm0), 1.0)
        if abs(H0 - Hm0) > TOLERANCES['Hnet_rtol'] * scale:
            raise Violation('Hnet-definition', f'Hnet of the feed {H0!r} differs from sum n (Hf + h) = {Hm0!r}', match=match,
                            residual=abs(H0 - Hm0) / scale)
        n_ref = rc.ref_apply(tree, n0)
        if n_ref.min() < -1e-9:
            raise Rejected('infeasible conversion pattern (conversions of one reactant add up to more than 1)', cut=True)
        from thermosteam.exceptions import InfeasibleRegion
        try:
            if Q is None: obj(s)
            else: obj.adiabatic_reaction(s, Q) if Q != 'default' else obj.adiabatic_reaction(s)
        except InfeasibleRegion:
            raise Violation('unexpected-exception', 'InfeasibleRegion on a feasible conversion', match=dict(match, exc='InfeasibleRegion'))
        except RuntimeError as e:
            if Q is not None and 'extrapolate' in str(e):
                raise Rejected('property model left its temperature range while solving for the outlet temperature', cut=True)
            raise Violation('unexpected-exception', f'RuntimeError: {e}', match=dict(match, exc='RuntimeError'))
        except TypeError as e:
            # no temperature of the liquid satisfies the balance; the enthalpy setter retries as gas, and Glucose has no gas-phase
            # enthalpy model (Hvap at Tb is missing in the data): outside the property models' range
            if Q is not None and single == 'l' and s.phase == 'g' and float(tgt.read()[POS['Glucose']]) > 0:
                raise Rejected('no liquid outlet temperature; the gas-phase retry has no enthalpy model for Glucose', cut=True)
            raise Violation('unexpected-exception', f'TypeError: {e}', match=dict(match, exc='TypeError'))
        except Exception as e:
            raise Violation('unexpected-exception', f'{type(e).__name__}: {e}', match=dict(match, exc=type(e).__name__))
        got = tgt.read()
        err = float(np.abs(got - n_ref).max())
        if err > TOLERANCES['flow_rtol'] * max(1.0, float(np.abs(n0).max())):
            raise Violation('flows', f'flows after the call differ from the reference by {err:.3g}', match=match, residual=err,
                            detail=dict(got=got, reference=n_ref))
        st.moved = bool(np.abs(n_ref - n0).max() > 0)
        return obj, tree, rx, refs, tgt, s, n0, n_ref, phases, single, H0, match, wt

    def step(self, st, a):
        obj, tree, rx, refs, tgt, s, n0, n_ref, phases, single, H0, match, wt = self._run(st, a)
        ph, T, xp = a
        if s.T != T or s.P != P_REF:
            raise Violation('isothermal', f'T, P changed to {s.T}, {s.P}', match=match)
        H1 = float(s.Hnet)
        Hm1 = model_Hnet(n_ref, phases, single, T, P_REF)
        Hm0 = model_Hnet(n0, phases, single, T, P_REF)
        scale = max(abs(H0), abs(H1), 1.0)
        d_real, d_model = H1 - H0, Hm1 - Hm0
        if abs(d_real - d_model) > TOLERANCES['Hnet_rtol'] * scale:
            raise Violation('isothermal', f'Hnet changed by {d_real!r}; sum dn_i (Hf_i + h_i) = {d_model!r}', match=dict(match, how='identity'),
                            residual=abs(d_real - d_model) / scale)
        literal = False
        if T == T_REF and reacting_in_reference_phase(st.config, tree, n0, n_ref, phases, single):
            literal = True
            tot = 0.0
            fed = fed_amounts(tree, n0, wt)
            # dH as reported by the objects that do the reacting (the items of the set, not the reactions it was built from)
            reals = [obj] if st.config[0] == 'single' else (list(obj) if st.config[0] in ('P', 'S') else list(obj.reactions))
            for (ref, amount), real in zip(fed, reals):
                try: dh = real.dH
                except Exception as e:
                    raise Violation('unexpected-exception', f'dH: {type(e).__name__}: {e}', match=dict(match, exc=type(e).__name__, where='dH'))
                if np.ndim(dh) != 0:
                    raise Violation('dH-value', f'dH of a {type(real).__name__} is an array of shape {np.shape(dh)}', match=dict(
                        op='item', tagged=match['tagged'], basis=match['basis'], how='not-scalar'))
                tot += float(dh) * amount
            if abs(d_real - tot) > TOLERANCES['Hnet_rtol'] * scale:
                raise Violation('isothermal', f'at T_ref, reference phases: Hnet changed by {d_real!r}; sum dH_k * reactant fed = {tot!r}',
                                match=dict(match, how='literal'), residual=abs(d_real - tot) / scale)
        st.last = (a, fx.r12(d_real))
        st.literal = literal
        return ('iso', fx.r12(d_real), literal)

    def canon(self, st): return (st.config, st.last)
    def nontrivial(self, st, a, obs): return bool(st.moved)
    def outcome(self, st, a, obs):
        kind, items, tag, route = st.config
        return repr((kind, tag, route, a[0], a[1], a[2], obs[0], obs[-1] if obs[0] == 'iso' else None))


class Adiabatic(Iso):
    name = 'c06.adiabatic'

    def actions(self, st):
        Qs = (0.0, 1e4, -1e4, 'default')
        if self.tier != 'quick':
            g = grid_class(st.config)
            if g == 'fine': Qs = (0.0, 1e3, -1e3, 1e4, -1e4, 1e5, -1e5, 'default')
            elif g == 'medium': Qs = (0.0, 1e4, -1e4, 1e5, -1e5, 'default')
        acts = []
        for ph, T, xp in self._cases(st):
            for Q in Qs:
                if self.tier == 'quick' and Q == 'default' and T != 350.0: continue
                if ph.endswith('R') and Q in (0.0, 'default'): continue
                acts.append((ph, T, xp, Q))
        # heat duties so large that no outlet temperature exists in the feed's phase: the enthalpy setter has to move the stream to the
        # other phase (gas feeds: heat removal; liquid feeds: heat input).  The balance is judged on the state the stream ends in.
        kind, items, tag, route = st.config
        if tag == 'none' and (self.tier != 'quick' or kind == 'single'):
            for ph in ('g', 'l'):
                if (ph == 'g' and has_glucose(items)): continue
                for T in ((350.0,) if self.tier == 'quick' else (T_REF, 350.0, 450.0)):
                    for Q in ((-2e6, -4e6, -8e6) if ph == 'g' else (2e6, 4e6, 8e6, 1.6e7)):
                        for xp in (('p3',) if self.tier == 'quick' else ('p3', 'zero')):
                            if self.tier != 'quick' and grid_class(st.config) == 'coarse' and xp == 'zero': continue
                            acts.append((ph, T, xp, Q))
        return acts

    def step(self, st, a):
        ph, T, xp, Q = a
        obj, tree, rx, refs, tgt, s, n0, n_ref, phases, single, H0, match, wt = self._run(st, a, Q=Q)
        Qv = 0.0 if Q == 'default' else Q
        return check_adiabatic(st, s, n_ref, phases, single, H0, Qv, match)

    def outcome(self, st, a, obs):
        kind, items, tag, route = st.config
        return repr((kind, tag, route, a[0], a[1], a[2], a[3], obs[0]))


def check_adiabatic(st, s, n_ref, phases, single, H0, Qv, match):
    if s.P != P_REF:
        raise Violation('adiabatic', f'P changed to {s.P}', match=dict(match, how='P'))
    T1 = float(s.T)
    if not (200.0 <= T1 <= 1500.0):
        raise Rejected('outlet temperature outside [200, 1500] K', cut=True)
    H1 = float(s.Hnet)
    C = float(s.C)
    tol = TOLERANCES['adiabatic_factor'] * abs(C) * TOLERANCES['T_tol'] + TOLERANCES['Hnet_rtol'] * max(abs(H0), abs(H1), 1.0)
    if abs(H1 - (H0 + Qv)) > tol:
        raise Violation('adiabatic', f'Hnet after {H1!r} != Hnet before {H0!r} + Q {Qv!r} (difference {H1 - H0 - Qv:.6g}, tolerance {tol:.3g})',
                        match=dict(match, how='balance'), residual=abs(H1 - H0 - Qv))
    # independent re-evaluation of the outlet state.  The enthalpy setter of a single-phase stream may switch the phase
    # (l <-> g) when no temperature of the original phase satisfies the balance; the re-evaluation uses the phase the
    # stream reports now (the property says nothing about the phase), and the switch is visible in the outcome counter.
    if single is not None:
        st.flipped = s.phase != single
        single = s.phase
    Hm1 = model_Hnet(n_ref, phases, single, T1, P_REF)
    if abs(Hm1 - (H0 + Qv)) > tol:
        raise Violation('adiabatic', f'sum n (Hf + h) at the outlet temperature {T1!r} is {Hm1!r}; Hnet before + Q = {H0 + Qv!r}',
                        match=dict(match, how='re-evaluated'), residual=abs(Hm1 - H0 - Qv))
    st.last = (fx.r12(T1),)
    return ('adiabatic' if not getattr(st, 'flipped', False) else 'adiabatic-phase-switched', round(T1, 6))


# =========================================================================================================
# histories

HIST = [('single', ((0, 'H2'),), 'none', 'mol'), ('single', ((2, 'CH4'),), 'none', 'wt-set'), ('single', ((0, 'H2'),), 'nat', 'mol'),
        ('P', ((0, 'H2'), (2, 'CH4')), 'none', 'mol'), ('S', ((11, 'CH4'), (3, 'CO')), 'none', 'wt-set'),
        ('Y', ((6, 'CH4'), (5, 'CO'), (0, 'H2')), 'none', 'mol'), ('P', ((0, 'H2'), (4, 'Ethanol')), 'nat', 'mol'),
        ('single', ((1, 'Glucose'),), 'none', 'mol')]

HIST_T = [('single', ((21, 'CH4'),), 'none', 'mol'), ('single', ((13, 'H2O'),), 'nat', 'wt-set'), ('P', ((3, 'CO'), (5, 'CO')), 'none', 'wt-set'),
          ('S', ((6, 'CH4'), (5, 'CO'), (0, 'H2'), (3, 'CO')), 'none', 'mol'), ('Y', ((1, 'Glucose'), (4, 'Ethanol'), (8, 'Glucose')), 'none', 'mol'),
          ('S', ((0, 'H2'), (2, 'CH4')), 'nat', 'wt-set')]

@rc.guard_build
class History(System):
    name = 'c06.history'
    nontrivial_per_config = True
    def warm(self): _load()
    def reset_globals(self): rc.reset_reaction_globals()
    def depth(self, tier): return 3 if tier == 'quick' else 5
    def configs(self, tier, seed):
        H = HIST if tier == 'quick' else HIST + HIST_T
        k = seed % len(H)
        return H[k:] + H[:k]

    def build(self, config):
        kind, items, tag, route = config
        st = St(); st.config = config
        st.Xs = [0.125] * len(items)
        st.obj, st.tree, st.rx, st.refs = make_obj(config, st.Xs)
        ph = 'l' if has_glucose(items) else 'g'
        n0, st.phases, st.single = feed_for(config, ph)
        tk = ('S.g' if ph == 'g' else 'S.l') if tag == 'none' else 'M'
        st.tgt = Target(tk, n0, st.phases, T=350.0, P=P_REF)
        st.n = n0.copy()
        st.count = 0
        st.moved = False
        return st

    def actions(self, st):
        return [('adia', 0.0), ('adia', 1e4), ('adia', -1e4), ('iso',), ('setT', 300.0), ('setT', 400.0)]

    def step(self, st, a):
        kind, items, tag, route = st.config
        s = st.tgt.stream
        match = dict(kind=kind, tagged=tag != 'none', basis='mol' if route == 'mol' else 'wt', op=a[0])
        st.moved = False
        if a[0] == 'setT':
            s.T = a[1]
            return ('setT',)
        H0 = float(s.Hnet); T0 = float(s.T)
        Hm = model_Hnet(st.n, st.phases, st.single, T0, P_REF)
        if abs(H0 - Hm) > TOLERANCES['Hnet_rtol'] * max(abs(H0), abs(Hm), 1.0):
            raise Violation('Hnet-definition', f'before {a[0]}: stream.Hnet = {H0!r} but sum n (Hf + h) of what the stream holds is {Hm!r}',
                            match=dict(match, when='before'), residual=abs(H0 - Hm) / max(abs(Hm), 1.0))
        n_ref = rc.ref_apply(st.tree, st.n)
        if n_ref.min() < -1e-9: raise Rejected('harness:feed exhausted', cut=True)
        d0 = rc.rxn_digest(st.obj)
        try:
            if a[0] == 'iso': st.obj(s)
            else: st.obj.adiabatic_reaction(s, a[1])
        except RuntimeError as e:
            if a[0] != 'iso' and 'extrapolate' in str(e):
                raise Rejected('property model left its temperature range while solving for the outlet temperature', cut=True)
            raise Violation('unexpected-exception', f'RuntimeError: {e}', match=dict(match, exc='RuntimeError'))
        except Exception as e:
            raise Violation('unexpected-exception', f'{type(e).__name__}: {e}', match=dict(match, exc=type(e).__name__))
        if rc.rxn_digest(st.obj) != d0:
            raise Violation('reaction-mutated', 'the call changed the reaction object', match=match)
        got = st.tgt.read()
        err = float(np.abs(got - n_ref).max())
        if err > TOLERANCES['flow_rtol'] * max(1.0, float(np.abs(st.n).max())):
            raise Violation('flows', f'flows differ from the reference by {err:.3g}', match=match, residual=err)
        st.moved = True
        st.count += 1
        if a[0] == 'iso':
            if float(s.T) != T0: raise Violation('isothermal', f'T changed {T0} -> {s.T}', match=match)
            H1 = float(s.Hnet)
            dm = model_Hnet(n_ref, st.phases, st.single, T0, P_REF) - model_Hnet(st.n, st.phases, st.single, T0, P_REF)
            scale = max(abs(H0), abs(H1), 1.0)
            if abs((H1 - H0) - dm) > TOLERANCES['Hnet_rtol'] * scale:
                raise Violation('isothermal', f'Hnet changed by {H1 - H0!r}; sum dn (Hf + h) = {dm!r}', match=dict(match, how='identity'),
                                residual=abs(H1 - H0 - dm) / scale)
            st.n = got
            return ('iso', fx.r12(H1 - H0))
        out = check_adiabatic(st, s, n_ref, st.phases, st.single, H0, a[1], match)
        if st.single is not None: st.single = s.phase          # the enthalpy setter may have switched the phase
        st.n = got
        return out

    def canon(self, st):
        s = st.tgt.stream
        return (st.config, rc.rxn_digest(st.obj), tuple(fx.r12(x) for x in st.n.ravel()), fx.r12(s.T), fx.stream_digest(s)[2:])

    def nontrivial(self, st, a, obs): return st.moved and st.count >= 2
    def outcome(self, st, a, obs): return repr((st.config[0], st.config[2], st.config[3], a[0], obs[0], st.count >= 2))



PROPS = ('C', 'S', 'F_vol', 'H')

@rc.guard_build
class CacheHistory(History):
    """The stream memoises derived properties; the energy clauses must hold whatever was read before.  Alphabet: read Hnet; read
    several OTHER properties (C, S, F_vol, H — each compared with a freshly built stream holding the same flows, phase, T, P);
    isothermal call followed directly by Hnet, or by the other properties first and Hnet last; adiabatic call; set T; react a COPY
    of the stream (copy taken now, i.e. after whatever was read) isothermally / adiabatically, check the copy, then re-check the
    ORIGINAL (flows, T, Hnet against the model).  The memo (`_property_cache` and its key) is part of the canonical state."""
    name = 'c06.history.cache'
    def depth(self, tier): return 3 if tier == 'quick' else 5

    def actions(self, st):
        return [('readH',), ('readprops',), ('iso',), ('iso', 'props'), ('adia', 1e4), ('setT', 400.0), ('copy-iso',), ('copy-adia', 1e4)]

    def _twin(self, st, s, n):
        kind, items, tag, route = st.config
        tk = 'M' if tag != 'none' else ('S.g' if s.phase == 'g' else 'S.l')
        return Target(tk, n, st.phases, T=float(s.T), P=float(s.P)).stream

    def _check_props(self, st, s, n, match, names=PROPS):
        tw = self._twin(st, s, n)
        for nm in names:
            try: got, want = float(getattr(s, nm)), float(getattr(tw, nm))
            except Exception as e:
                raise Violation('unexpected-exception', f'{nm}: {type(e).__name__}: {e}', match=dict(match, exc=type(e).__name__, where=nm))
            if abs(got - want) > 1e-9 * max(abs(want), 1.0):
                raise Violation('stale-property', f'{nm} = {got!r}; a freshly built stream with the same flows, phase, T, P gives {want!r}',
                                match=dict(match, prop=nm), residual=abs(got - want) / max(abs(want), 1.0))

    def _check_Hnet(self, st, s, n, single, match, when):
        H = float(s.Hnet); Hm = model_Hnet(n, st.phases, single, float(s.T), P_REF)
        if abs(H - Hm) > TOLERANCES['Hnet_rtol'] * max(abs(H), abs(Hm), 1.0):
            raise Violation('Hnet-definition', f'{when}: stream.Hnet = {H!r} but sum n (Hf + h) of what the stream holds is {Hm!r}',
                            match=dict(match, when=when), residual=abs(H - Hm) / max(abs(Hm), 1.0))
        return H

    def step(self, st, a):
        kind, items, tag, route = st.config
        s = st.tgt.stream
        op = a[0]
        match = dict(kind=kind, tagged=tag != 'none', basis='mol' if route == 'mol' else 'wt', op='-'.join(str(x) for x in a[:2]) if len(a) > 1 and isinstance(a[1], str) else op)
        st.moved = False
        if op == 'readH':
            self._check_Hnet(st, s, st.n, st.single, match, 'read')
            return ('readH',)
        if op == 'readprops':
            self._check_props(st, s, st.n, match)
            return ('readprops',)
        if op == 'iso' and len(a) > 1:
            # isothermal reaction, then OTHER properties first, Hnet last
            H0 = self._check_Hnet(st, s, st.n, st.single, match, 'before')
            n_ref = rc.ref_apply(st.tree, st.n)
            if n_ref.min() < -1e-9: raise Rejected('harness:feed exhausted', cut=True)
            try: st.obj(s)
            except Exception as e:
                raise Violation('unexpected-exception', f'{type(e).__name__}: {e}', match=dict(match, exc=type(e).__name__))
            got = st.tgt.read()
            if float(np.abs(got - n_ref).max()) > TOLERANCES['flow_rtol'] * max(1.0, float(np.abs(st.n).max())):
                raise Violation('flows', 'flows differ from the reference', match=match)
            self._check_props(st, s, got, match, names=('C', 'S', 'F_vol'))
            self._check_Hnet(st, s, got, st.single, match, 'after-other-properties')
            st.n = got; st.moved = True; st.count += 1
            return ('iso-props',)
        if op in ('copy-iso', 'copy-adia'):
            n_ref = rc.ref_apply(st.tree, st.n)
            if n_ref.min() < -1e-9: raise Rejected('harness:feed exhausted', cut=True)
            T0 = float(s.T)
            try:
                c = s.copy()
                H0c = float(c.Hnet)
                if op == 'copy-iso': st.obj(c)
                else: st.obj.adiabatic_reaction(c, a[1])
                H1c = float(c.Hnet)
            except RuntimeError as e:
                if 'extrapolate' in str(e): raise Rejected('property model left its temperature range while solving for the outlet temperature', cut=True)
                raise Violation('unexpected-exception', f'RuntimeError: {e}', match=dict(match, exc='RuntimeError'))
            except Exception as e:
                raise Violation('unexpected-exception', f'{type(e).__name__}: {e}', match=dict(match, exc=type(e).__name__))
            Hm0 = model_Hnet(st.n, st.phases, st.single, T0, P_REF)
            scale = max(abs(Hm0), 1.0)
            if abs(H0c - Hm0) > TOLERANCES['Hnet_rtol'] * scale:
                raise Violation('Hnet-definition', f'Hnet of the copy {H0c!r} differs from sum n (Hf + h) = {Hm0!r}', match=dict(match, when='copy'))
            single_c = st.single if st.single is None else c.phase
            T1 = float(c.T)
            if 200.0 <= T1 <= 1500.0:
                Hm1 = model_Hnet(n_ref, st.phases, single_c, T1, P_REF)
                tol = TOLERANCES['adiabatic_factor'] * abs(float(c.C)) * TOLERANCES['T_tol'] + TOLERANCES['Hnet_rtol'] * scale
                if abs(H1c - Hm1) > tol:
                    raise Violation('Hnet-definition', f'after reacting the copy its Hnet is {H1c!r}; sum n (Hf + h) of what it holds is {Hm1!r}',
                                    match=dict(match, when='copy-after'), residual=abs(H1c - Hm1) / scale)
                if op == 'copy-adia' and abs(H1c - (H0c + a[1])) > tol:
                    raise Violation('adiabatic', f'copy: Hnet after {H1c!r} != before {H0c!r} + Q', match=dict(match, how='balance'))
            # the ORIGINAL is untouched
            got = st.tgt.read()
            if float(np.abs(got - st.n).max()) > 0 or float(s.T) != T0:
                raise Violation('copy-independent', 'reacting a copy changed the flows / temperature of the original stream', match=match)
            self._check_Hnet(st, s, st.n, st.single, match, 'original-after-copy')
            # ... and so is a later copy
            c2 = s.copy()
            self._check_Hnet(st, c2, st.n, st.single, match, 'later-copy')
            st.moved = True
            return (op,)
        return History.step(self, st, a)

    def outcome(self, st, a, obs): return repr((st.config[0], st.config[2], st.config[3], a, obs[0]))


RF_IDS = ('H2', 'O2', 'H2O', 'CH4', 'CO', 'CO2')
RF_RXNS = [
    # (definition dict, reactant, tags or None)
    ({'CH4': -1, 'O2': -2, 'CO2': 1, 'H2O': 2}, 'CH4', None),
    ({'CO': -1, 'H2O': -1, 'CO2': 1, 'H2': 1}, 'CO', None),
    ({'CO': -1, 'O2': -0.5, 'CO2': 1}, 'O2', None),
    ({'H2': -1, 'O2': -0.5, 'H2O': 1}, 'H2', {'H2': 'g', 'O2': 'g', 'H2O': 'l'}),
    ({'CH4': -1, 'O2': -2, 'CO2': 1, 'H2O': 2}, 'CH4', {'CH4': 'g', 'O2': 'g', 'CO2': 'g', 'H2O': 'l'}),
]

@rc.guard_build
class Refresh(System):
    """A PRIVATE property package per execution (copies of the chemicals, own Thermo — nothing leaks): the heat of formation of a
    chemical is revised the documented way (`chemical.Hf = value; chemicals.refresh_constants()`), before and/or after the reaction
    object and the stream exist.  After every action: `rxn.dH == X * sum nu (Hf + latent) [/MW]`, `stream.Hf == sum n Hf`,
    `stream.Hnet == sum n (Hf + h)`, all evaluated from each Chemical's OWN CURRENT Hf; isothermal / adiabatic calls close the balance
    with those values."""
    name = 'c06.refresh'
    nontrivial_per_config = True
    def warm(self): _load()
    def reset_globals(self): rc.reset_reaction_globals()
    def depth(self, tier): return 2 if tier == 'quick' else 4

    def configs(self, tier, seed):
        cfgs = [(i, route, T) for i in range(len(RF_RXNS)) for route in ('mol', 'wt') for T in ((T_REF, 400.0) if tier != 'quick' else (T_REF,))]
        k = seed % len(cfgs)
        return cfgs[k:] + cfgs[:k]

    def build(self, config):
        t = fx.tmo()
        i, route, T = config
        d, r, tags = RF_RXNS[i]
        st = St(); st.config = config
        base = rc.package('P').chemicals
        chems = t.Chemicals([getattr(base, ID).copy(ID) for ID in RF_IDS])
        st.thermo = t.Thermo(chems)
        st.chems = st.thermo.chemicals
        st.C = {c.ID: c for c in st.chems}
        st.d, st.r, st.tags = d, r, tags
        st.X = 0.5
        st.rxn = rc.build_reaction(rc.as_string(d, tags), r, st.X, st.chems)
        if route == 'wt': st.rxn.basis = 'wt'
        st.wt = route == 'wt'
        st.phases = tuple(sorted(set(tags.values()))) if tags else ()
        flows = {ID: 0.5 for ID in RF_IDS}
        flows['CO2'] = 100.0; flows[r] = 1.0
        for k_, x in d.items():
            if x < 0 and k_ != r: flows[k_] = 8.0 * abs(x) / abs(d[r])
        if tags:
            s = t.MultiStream(None, phases=st.phases, T=T, P=P_REF, thermo=st.thermo)
            for ID, x in flows.items(): s.imol[tags.get(ID, 'g'), ID] = x
        else:
            s = t.Stream(None, phase='g', T=T, P=P_REF, thermo=st.thermo)
            for ID, x in flows.items(): s.imol[ID] = x
        st.s = s
        st.edits = 0; st.reacted = 0
        return st

    # -- model, from the chemicals' own current values
    def _latent(self, st, ID, phase):
        c = st.C[ID]
        lv = {'s': 0.0, 'l': float(c.Hfus), 'g': float(c.Hfus) + float(c.Hvap(298.15))}
        return lv[phase] - lv[c.phase_ref]
    def _dH(self, st):
        tot = sum(nu / abs(st.d[st.r]) * (float(st.C[k].Hf) + (self._latent(st, k, st.tags[k]) if st.tags else 0.0)) for k, nu in st.d.items())
        if st.wt: tot /= float(st.C[st.r].MW)
        return st.X * tot
    def _flows(self, st):
        s = st.s
        if st.tags: return {(p, ID): float(s.imol[p, ID]) for p in st.phases for ID in RF_IDS}
        return {(s.phase, ID): float(s.imol[ID]) for ID in RF_IDS}
    def _Hf(self, st, fl): return sum(x * float(st.C[ID].Hf) for (p, ID), x in fl.items())
    def _Hnet(self, st, fl, T):
        return sum(x * (float(st.C[ID].Hf) + float(st.C[ID].H(p, T, P_REF))) for (p, ID), x in fl.items() if x)

    def actions(self, st):
        prod = [k for k, x in st.d.items() if x > 0][0]
        return [('check',), ('edit', prod, 1000.0), ('edit', st.r, -2500.0), ('edit', 'CO2', 500.0), ('iso',), ('adia', 1e4)]

    def _readings(self, st, match):
        s = st.s
        fl = self._flows(st)
        checks = (('dH', st.rxn.dH, self._dH(st)), ('stream.Hf', s.Hf, self._Hf(st, fl)), ('stream.Hnet', s.Hnet, self._Hnet(st, fl, float(s.T))))
        for nm, got, want in checks:
            if np.ndim(got) != 0 or abs(float(got) - want) > 1e-9 * max(abs(want), 1.0):
                raise Violation('refreshed-constants', f'{nm} = {np.asarray(got).tolist()!r}; from the chemicals\' current heats of formation: {want!r}',
                                match=dict(match, quantity=nm, edited=st.edits > 0), residual=abs(float(np.ravel(got)[0]) - want) / max(abs(want), 1.0))

    def step(self, st, a):
        i, route, T = st.config
        op = a[0]
        match = dict(op=op, tagged=bool(st.tags), basis=route)
        s = st.s
        try:
            if op == 'edit':
                c = st.C[a[1]]
                c.Hf = float(c.Hf) + a[2]
                st.chems.refresh_constants()
                st.edits += 1
            elif op in ('iso', 'adia'):
                fl0 = self._flows(st); H0 = float(s.Hnet); Hf0 = float(s.Hf)
                fed = fl0[(st.tags[st.r] if st.tags else s.phase, st.r)]
                if st.wt: fed *= float(st.C[st.r].MW)
                dH = float(st.rxn.dH)
                if op == 'iso': st.rxn(s)
                else: st.rxn.adiabatic_reaction(s, a[1])
                st.reacted += 1
                fl1 = self._flows(st)
                if min(fl1.values()) < 0: raise Rejected('harness:feed exhausted', cut=True)
                dHf_model = self._Hf(st, fl1) - self._Hf(st, fl0)
                scale = max(abs(H0), 1.0)
                if abs((float(s.Hf) - Hf0) - dHf_model) > 1e-9 * scale or abs(dHf_model - self._dH0(st) * fed) > 1e-9 * scale:
                    raise Violation('refreshed-constants', f'formation enthalpy of the stream changed by {float(s.Hf) - Hf0!r}; sum dn Hf = {dHf_model!r}; '
                                    f'X sum nu Hf * fed = {self._dH0(st) * fed!r}', match=dict(match, quantity='dHf', edited=st.edits > 0))
                if op == 'adia':
                    T1 = float(s.T)
                    if not (200.0 <= T1 <= 1500.0): raise Rejected('outlet temperature outside [200, 1500] K', cut=True)
                    tol = 10 * abs(float(s.C)) * 1e-6 + 1e-9 * scale
                    if abs(float(s.Hnet) - (H0 + a[1])) > tol:
                        raise Violation('adiabatic', f'Hnet after {float(s.Hnet)!r} != before {H0!r} + Q', match=dict(match, how='balance', edited=st.edits > 0))
        except (Violation, Rejected): raise
        except Exception as e:
            raise Violation('unexpected-exception', f'{type(e).__name__}: {e}', match=dict(match, exc=type(e).__name__))
        self._readings(st, match)
        return (op, st.edits > 0)

    def _dH0(self, st):
        """X * sum nu Hf (no latent terms), per unit of reactant in the basis of the reaction"""
        tot = sum(nu / abs(st.d[st.r]) * float(st.C[k].Hf) for k, nu in st.d.items())
        if st.wt: tot /= float(st.C[st.r].MW)
        return st.X * tot

    def canon(self, st):
        return (st.config, tuple(fx.r12(float(st.C[ID].Hf)) for ID in RF_IDS), tuple(fx.r12(float(x)) for x in np.ravel(st.chems.Hf)),
                rc.rxn_digest(st.rxn), fx.stream_digest(st.s)[2:])
    def nontrivial(self, st, a, obs): return st.edits > 0
    def outcome(self, st, a, obs): return repr((st.config[0], st.config[1], a[0], min(st.edits, 2), min(st.reacted, 1)))

SYSTEMS = [DH(), DHSum(), DHHistory(), Iso(), Adiabatic(), History(), CacheHistory(), Refresh()]
