"""
C16 — activity-coefficient models are normalised, consistent and side-effect free.

Bounded exhaustive enumeration of the configuration space of
`thermosteam.equilibrium.activity_coefficients` (model class x chemical tuple x permutation x T)
on a complete simplex grid, one clause of the property per transition so that a failure of one
clause never hides another:

  pure    the caller's array is bit-identical after `obj(x, T)` and after `obj.f(x, T, *obj.args)`,
          and both forms return the same values
  vertex  gamma_i == 1 at x_i == 1;   near   gamma_i -> 1 at x_i = 1 - 1e-9
  nogroup chemicals without group data get exactly 1.0, all values finite and positive
  perm    the value of a chemical is the same under every permutation of the chemical list
  gd      Gibbs-Duhem  sum_k x_k dln(gamma_k)/ds == 0 along every edge direction e_i - e_j
          (Richardson-extrapolated central differences)
  ideal   ideal Gamma / Phi / PCF return one

and a history layer (closure) in which two interned model objects of different size are called in
every order at different temperatures and compositions, through all three entry points, and every
result is compared with that of a freshly constructed object (scratch buffers `_group_psis`, the
in-place `psi_modified_UNIFAC(T, abc)` and the construct-time arrays must not leak between calls).
"""
from __future__ import annotations
import itertools, math
import numpy as np
from mc.engine import System, Violation, Rejected
from mc import fixtures as fx

PROPERTY = 'C16'
RULE = ('One transition = one clause of the property evaluated at one point of the enumerated space: (model class, ordered '
        'chemical tuple, T) x (composition on the complete simplex grid incl. vertices, boundary faces and 1e-9 traces) x '
        '(clause: argument purity + functional form, vertex limit, no-group members, every permutation of the list, '
        'Gibbs-Duhem along every edge direction).  A case is non-trivial when the model really evaluated group interactions '
        '(>= 2 chemicals with groups present and some gamma differing from 1 by > 1e-6; for Gibbs-Duhem: a non-zero '
        'derivative scale).  History layer: states are the digests of the interned objects\' scratch/constant arrays; the search '
        'runs to closure.')
ASSUMPTIONS = [
    'chemical pool: Water, Methanol, Ethanol, Propanol, 1-Butanol, Hexane, Heptane, Octane, Benzene, Toluene (+ N2, NaCl without groups); '
    'quick: all subsets of size 2-3, size-4 subsets inside each family(+Water) and a VERIF_SEED-selected 1/8 slice of the other size-4 subsets; '
    'thorough: all subsets of size 2-4, all size-5 subsets of each family(+Water), the 6-set Water+alkanes+aromatics',
    'every permutation of every set is evaluated (size 6: all 720); quick tier: lists of >= 4 chemicals are permuted at one VERIF_SEED-rotated temperature, '
    'thorough: at all four',
    'simplex grid step 1/4 (thorough: 1/8 for sizes <= 4) incl. all vertices and faces, plus 1e-9 trace points; T in {250, 300, 350, 450} K; '
    'nothing is claimed between grid points',
    'the equation-of-state based classes (PRActivityCoefficients, SRKActivityCoefficients, ...) are not among the models the property names and are not judged',
    'c16.grid.quat: all sets of 2-3 chemicals from (tert-Butanol, MTBE, Neopentane, Water, Ethanol, Hexane) with at least one member containing the zero-Q subgroup C (quaternary carbon)',
    'NIST-modified UNIFAC: the bundled chemicals carry no NIST group assignments, the harness assigns them by name on private copies '
    '(same subgroup ids as the Dortmund assignment)',
    'Gibbs-Duhem is checked in directions e_i - e_j between components with x >= 1/8 (both perturbed points stay inside the simplex)',
    'the class-level interning caches (GroupActivityCoefficients._cached per model class) are owned by the harness: emptied before every execution, so the base list and all of its '
    'permutations are requested within ONE execution; twins are built inside a save/clear/restore bracket; c16.history requests the reversed lists lazily through the class so that '
    'the cache content is explored state',
    'permutation invariance is a differential check (library against itself on the re-ordered list); absolute agreement with '
    'published UNIFAC values is not part of the property and not claimed',
]
TOLERANCES = {
    'repeatability_rel': 1e-12,
    'returned_array_is_the_callers': 'after in-place modification of returned arrays the next evaluation is bit-identical / exactly one',
    'vertex_abs': 1e-9, 'near_vertex_abs (x_i = 1-1e-9)': 1e-7, 'permutation_rel': 1e-10, 'functional_form_rel': 1e-12,
    'gibbs_duhem_rel (of sum x_k |dln gamma_k/ds|)': 1e-5, 'gibbs_duhem_abs_floor': 1e-9, 'gibbs_duhem_step_h': 2.0 ** -10,
    'history_vs_fresh_rel': 1e-12, 'purity': 'bit-identical', 'nogroup': 'exactly 1.0',
}

POOL_ALC = ('Water', 'Methanol', 'Ethanol', 'Propanol', '1-Butanol')
POOL_HC = ('Water', 'Hexane', 'Heptane', 'Octane', 'Benzene', 'Toluene')
POOL = ('Water', 'Methanol', 'Ethanol', 'Propanol', '1-Butanol', 'Hexane', 'Heptane', 'Octane', 'Benzene', 'Toluene')
NOGROUP = ('N2', 'NaCl')
QUAT = ('tert-Butanol', 'MTBE', 'Neopentane')         # contain the Q = 0 subgroup 'C' (quaternary carbon)
POOL_QUAT = QUAT + ('Water', 'Ethanol', 'Hexane')
TEMPS = (250.0, 300.0, 350.0, 450.0)
GROUP_MODELS = ('UNIFAC', 'Dortmund', 'NIST')
NIST_GROUPS = {
    'tert-Butanol': {'CH3': 3, 'C': 1, 'OH tert': 1}, 'MTBE': {'CH3': 3, 'C': 1, 'CH3O': 1}, 'Neopentane': {'CH3': 4, 'C': 1},
    'Water': {'H2O': 1}, 'Methanol': {'CH3OH': 1}, 'Ethanol': {'CH3': 1, 'CH2': 1, 'OH prim': 1},
    'Propanol': {'CH3': 1, 'CH2': 2, 'OH prim': 1}, '1-Butanol': {'CH3': 1, 'CH2': 3, 'OH prim': 1},
    'Hexane': {'CH3': 2, 'CH2': 4}, 'Heptane': {'CH3': 2, 'CH2': 5}, 'Octane': {'CH3': 2, 'CH2': 6},
    'Benzene': {'ACH': 6}, 'Toluene': {'ACH': 5, 'ACCH3': 1},
}
H = 2.0 ** -10

_ac = None
_chems = {}

class OwnedGlobals:
    """Process-global mutable state of `thermosteam.equilibrium.*`, `thermosteam._chemical` (e.g. a class-level memo on Chemical) and
    `thermosteam.free_energy` that could alias two executions (DESIGN 1.2): every small
    module-level and class-level set / dict / list / ndarray of the modules below (the interning caches `_cached` / `cache`, and
    anything a change may add next to them, e.g. an "already warned" set).  Captured once, right after the first import and before
    any model has been built; `restore()` puts every container back to that baseline before each execution, `bracket()` runs a block on
    the baseline and reinstates the explored content afterwards, `digest()` is the part of the explored state that lives there.
    Large reference tables (group and interaction parameter dictionaries, > 16 entries at import) are treated as constants."""
    MODULES = ('thermosteam.equilibrium.activity_coefficients', 'thermosteam.equilibrium.bubble_point', 'thermosteam.equilibrium.dew_point',
               'thermosteam.equilibrium.fugacity_coefficients', 'thermosteam.equilibrium.poyinting_correction_factors', 'thermosteam.equilibrium.ideal',
               'thermosteam.equilibrium.domain', 'thermosteam._chemical', 'thermosteam.free_energy')
    #: registries that ARE the identity of the fixtures (the cache=True chemical objects every package refers to): not reset
    EXCLUDE = ('chemical_cache',)

    def __init__(self): self.items = None

    def capture(self):
        if self.items is not None: return
        import importlib, copy
        items = []; seen = set()
        for mn in self.MODULES:
            mod = importlib.import_module(mn)
            mn = mn.replace('thermosteam.equilibrium.', '').replace('thermosteam.', '')
            holders = [(mod, mn)] + [(v, mn + '.' + k) for k, v in vars(mod).items() if isinstance(v, type) and v.__module__ == mod.__name__]
            for holder, label in holders:
                for k, v in list(vars(holder).items()):
                    if k.startswith('__') or id(v) in seen or k in self.EXCLUDE: continue
                    if isinstance(v, (set, dict, list)) and len(v) <= 16:
                        seen.add(id(v)); items.append((label + '.' + k, v, copy.copy(v)))
                    elif isinstance(v, np.ndarray) and v.size <= 4096:
                        seen.add(id(v)); items.append((label + '.' + k, v, v.copy()))
        self.items = items

    @staticmethod
    def _same(v, base):
        if isinstance(v, np.ndarray): return v.shape == base.shape and v.tobytes() == base.tobytes()
        if isinstance(v, dict):
            return len(v) == len(base) and all(k in base and base[k] is x for k, x in v.items())
        if isinstance(v, list): return len(v) == len(base) and all(a is b for a, b in zip(v, base))
        return v == base

    @staticmethod
    def _set(v, content):
        if isinstance(v, np.ndarray):
            if v.shape == content.shape: v[...] = content
        elif isinstance(v, dict): v.clear(); v.update(content)
        elif isinstance(v, set): v.clear(); v.update(content)
        else: v[:] = content

    def restore(self):
        self.capture()
        for label, v, base in self.items:
            if not self._same(v, base): self._set(v, base)

    def bracket(self):
        owner = self
        class _B:
            def __enter__(b):
                import copy
                owner.capture()
                b.saved = [(v, v.copy() if isinstance(v, np.ndarray) else copy.copy(v)) for _, v, _b in owner.items]
                owner.restore()
            def __exit__(b, *exc):
                for v, content in b.saved: owner._set(v, content)
                return False
        return _B()

    @staticmethod
    def _tok(x):
        if hasattr(x, 'ID'): return x.ID
        if isinstance(x, tuple): return tuple(OwnedGlobals._tok(i) for i in x)
        if isinstance(x, (set, frozenset)): return ('set',) + tuple(sorted(repr(OwnedGlobals._tok(i)) for i in x))
        if isinstance(x, type): return x.__name__
        if isinstance(x, (int, float, str, bool)) or x is None: return x
        return type(x).__name__

    def digest(self):
        self.capture()
        out = []
        for label, v, base in self.items:
            if self._same(v, base): continue
            if isinstance(v, np.ndarray): out.append((label, tuple(fx.r12(t) for t in v.ravel())))
            elif isinstance(v, dict): out.append((label, tuple(sorted(repr((self._tok(k), self._tok(x))) for k, x in v.items()))))
            else: out.append((label, tuple(sorted(repr(self._tok(k)) for k in v))))
        return tuple(out)

OWNED = OwnedGlobals()


def _load():
    global _ac
    if _ac is None:
        tmo = fx.tmo()
        from thermosteam.equilibrium import activity_coefficients as ac
        _ac = ac
        OWNED.capture()       # before any model object exists in this process
        for ID in POOL + NOGROUP + QUAT:
            c = fx.chemical(ID)
            _chems[('std', ID)] = c
            n = c.copy(ID)
            if ID in NIST_GROUPS: n.NIST.set_group_counts_by_name(NIST_GROUPS[ID])
            _chems[('NIST', ID)] = n
            # a DIFFERENT object with the same ID whose group data has been removed (a user-edited / reloaded chemical)
            g = c.copy(ID)
            g.UNIFAC.clear(); g.Dortmund.clear(); g.NIST.clear()
            _chems[('nogroups', ID)] = g
        OWNED.capture()       # again: harmless, the capture happens once
    return _ac

def _cls(model):
    ac = _load()
    return {'UNIFAC': ac.UNIFACActivityCoefficients, 'Dortmund': ac.DortmundActivityCoefficients,
            'NIST': ac.NISTActivityCoefficients, 'Ideal': ac.IdealActivityCoefficients,
            'PR': ac.PRActivityCoefficients, 'SRK': ac.SRKActivityCoefficients}[model]

def _chemicals(model, ids):
    _load()
    k = 'NIST' if model == 'NIST' else 'std'
    return tuple(_chems[(k, i)] for i in ids)

def _gamma(model, ids):
    return _cls(model)(_chemicals(model, ids))

CONST_FIELDS = ('_interactions', '_qs', '_rs', '_Qs', '_chemgroups', '_chem_Qfractions', '_group_mask', '_index')

def _const_bytes(o):
    """the construct-time arrays of a model object (a call must never change them)"""
    return tuple(np.ascontiguousarray(getattr(o, f)).tobytes() if hasattr(o, f) else None for f in CONST_FIELDS)

def _use(st, model, ids):
    """interned model object + its construct-time data before use (checked again at the end of the transition)"""
    obj = _gamma(model, ids)
    st.used.append((obj, model, ids, _const_bytes(obj)))
    return obj

def _check_used(st):
    """a transition that modified the construct-time data of an interned object is a violation; the damaged object is
    dropped from the library's cache so that it cannot leak into later executions (DESIGN 1.2)"""
    bad = None
    for obj, model, ids, before in st.used:
        after = _const_bytes(obj)
        if after != before:
            changed = [f for f, a, b in zip(CONST_FIELDS, after, before) if a != b]
            _cls(model)._cached.pop(_chemicals(model, ids), None)
            bad = bad or Violation('model-data-modified', f'{model}{ids}: construct-time arrays {changed} changed by a call',
                                   match=dict(model=model, fields=','.join(changed)))
    st.used = []
    return bad

def clear_interned():
    """every owned process-global container back to its import-time content (interning caches empty)"""
    _load()
    OWNED.restore()

def obj_digest(o):
    """every field of a model object (all slots of all its classes + __dict__): nothing it remembers between calls may be missing from canon"""
    names = []
    for c in type(o).__mro__:
        sl = c.__dict__.get('__slots__', ())
        names += [sl] if isinstance(sl, str) else list(sl)
    names += list(getattr(o, '__dict__', {}))
    out = []
    for nm in dict.fromkeys(names):
        try: v = getattr(o, nm)
        except AttributeError: continue
        if isinstance(v, np.ndarray): out.append((nm, v.shape, hash(np.ascontiguousarray(v).tobytes())))     # deterministic arithmetic: bit-exact digest
        elif isinstance(v, (float, int, bool)) or v is None: out.append((nm, v))
        elif isinstance(v, tuple): out.append((nm, tuple(getattr(c, 'ID', type(c).__name__) for c in v)))
        else: out.append((nm, type(v).__name__))
    return (type(o).__name__, tuple(out))

class isolated:
    """run a block with EMPTY interning caches and put the explored caches back afterwards (fresh twins must neither see nor
    disturb the state under exploration, whatever the library uses as cache key)"""
    def __enter__(self):
        _load()
        self.b = OWNED.bracket(); self.b.__enter__()
    def __exit__(self, *exc):
        return self.b.__exit__(*exc)

# ---- composition grids ---------------------------------------------------------------------------

def simplex(n, den):
    """all points k/den on the (n-1)-simplex, vertices and faces included"""
    out = []
    def rec(prefix, left, slots):
        if slots == 1:
            out.append(tuple(prefix + [left])); return
        for k in range(left, -1, -1):
            rec(prefix + [k], left - k, slots - 1)
    rec([], den, n)
    return [tuple(k / den for k in p) for p in out]

def trace_points(n):
    """near-vertex points (1-1e-9, 1e-9) and binary mid-points with a third component at 1e-9"""
    pts = []
    t = 1e-9
    for i in range(n):
        for j in range(n):
            if i == j: continue
            x = [0.0] * n; x[i] = 1.0 - t; x[j] = t
            pts.append(tuple(x))
    for i in range(n):
        for j in range(i + 1, n):
            for k in range(n):
                if k in (i, j): continue
                x = [0.0] * n; x[i] = 0.5; x[j] = 0.5 - t; x[k] = t
                pts.append(tuple(x))
    return pts

# ---- evaluation helpers -----------------------------------------------------------------------------

def _unexpected(e, model, kind, **extra):
    m = dict(exc=type(e).__name__, model=model, kind=kind); m.update(extra)
    return Violation('unexpected-exception', f'{kind} on {model}: {type(e).__name__}: {e}', match=m)

def _call(obj, x, T, model, kind, **extra):
    """obj(x, T) on a private copy of x; undocumented exceptions are violations"""
    xa = np.array(x, float)
    try:
        g = obj(xa, T)
    except Exception as e:
        raise _unexpected(e, model, kind, **extra)
    return np.asarray(g, float)

def _pattern(ids, x):
    """classifies a composition: which kinds of members are present (stable, small)"""
    grp = sum(1 for i, v in zip(ids, x) if v > 0 and i not in NOGROUP)
    nog = sum(1 for i, v in zip(ids, x) if v > 0 and i in NOGROUP)
    return ('none' if grp == 0 else 'one' if grp == 1 else 'many') + ('+nogroup' if nog else '')


class Grid(System):
    """depth-1 enumeration: config = (model, ordered ids, T); actions = (clause, point …)"""
    nontrivial_per_config = True

    def __init__(self, name, sets_fn, den_fn, clauses=('pure', 'vertex', 'near', 'nogroup', 'perm', 'gd'), models=GROUP_MODELS,
                 perm_block=None):
        self.name = name
        self.sets_fn = sets_fn
        self.den_fn = den_fn
        self.clauses = clauses
        self.models = models
        self.perm_block = perm_block

    def warm(self): _load()
    def reset_globals(self): clear_interned()     # the class-level interning caches are process-global state: emptied per execution
    def depth(self, tier): return 1

    def configs(self, tier, seed):
        cfgs = []
        for ids in self.sets_fn(tier, seed):
            n = len(ids)
            nblocks = 1
            if self.perm_block and math.factorial(n) > self.perm_block:
                nblocks = math.factorial(n) // self.perm_block
            for model in self.models:
                for T in TEMPS:
                    # quick tier: lists of >= 4 chemicals are permuted at one (seed-rotated) temperature only
                    do_perm = bool(tier == 'thorough' or n <= 3 or T == TEMPS[seed % len(TEMPS)])
                    for b in range(nblocks):
                        if b and not do_perm: continue
                        cfgs.append((model, tuple(ids), T, self.den_fn(tier, n), b, nblocks, do_perm))
        k = seed % len(cfgs) if cfgs else 0
        return cfgs[k:] + cfgs[:k]

    def describe(self, tier):
        sets = self.sets_fn(tier, 0)
        return dict(chemical_sets=len(sets), set_sizes=sorted({len(s) for s in sets}), models=list(self.models), temperatures=list(TEMPS))

    def build(self, config):
        model, ids, T, den, b, nb, do_perm = config
        st = type('St', (), {})()
        st.model, st.ids, st.T, st.den, st.block, st.nblocks, st.do_perm = model, ids, T, den, b, nb, do_perm
        st.err = None
        st.used = []
        try:
            st.obj = _use(st, model, ids)
        except Exception as e:      # reported by the first step (build itself must not raise)
            st.obj = None; st.err = e
        st.info = None
        return st

    def canon(self, st):
        return ('grid', st.model, st.ids, st.T, st.block)

    def actions(self, st):
        n = len(st.ids)
        acts = []
        pts = simplex(n, st.den)
        tr = trace_points(n)
        first = st.block == 0
        if first:
            if 'pure' in self.clauses:
                for x in pts + tr: acts.append(('pure', x))
            if 'vertex' in self.clauses:
                for i in range(n): acts.append(('vertex', i))
            if 'near' in self.clauses:
                for i in range(n):
                    for j in range(n):
                        if i != j: acts.append(('near', i, j))
            if 'nogroup' in self.clauses:
                for x in pts + tr: acts.append(('nogroup', x))
            if 'gd' in self.clauses:
                for x in pts:
                    ok = [i for i in range(n) if x[i] >= 0.125]
                    for i, j in itertools.combinations(ok, 2):
                        acts.append(('gd', x, i, j))
        if 'perm' in self.clauses and st.do_perm:
            for x in pts + tr: acts.append(('perm', x))
        return acts

    def _perms(self, st):
        n = len(st.ids)
        perms = list(itertools.permutations(range(n)))[1:]
        if st.nblocks > 1:
            size = (len(perms) + st.nblocks - 1) // st.nblocks
            perms = perms[st.block * size:(st.block + 1) * size]
        return perms

    def step(self, st, a):
        try:
            out = self._step(st, a)
        except Violation:
            bad = _check_used(st)
            if bad is not None: raise bad       # root cause first
            raise
        bad = _check_used(st)
        if bad is not None: raise bad
        return out

    def _step(self, st, a):
        model, ids, T, obj = st.model, st.ids, st.T, st.obj
        kind = a[0]
        n = len(ids)
        st.info = None
        if st.err is not None:
            raise _unexpected(st.err, model, 'construct')
        if kind == 'pure':
            x = a[1]
            pat = _pattern(ids, x)
            xa = np.array(x, float); before = xa.tobytes()
            try:
                g1 = np.asarray(obj(xa, T), float)
            except Exception as e:
                raise _unexpected(e, model, 'call', pattern=pat)
            if xa.tobytes() != before:
                raise Violation('argument-modified', f'{model}{ids}(x, {T}) changed the caller\'s array {list(x)} -> {xa.tolist()}',
                                match=dict(model=model, via='call'), detail=dict(x=x, after=xa.tolist()))
            xb = np.array(x, float)
            try:
                g2 = np.asarray(obj.f(xb, T, *obj.args), float)
            except Exception as e:
                raise _unexpected(e, model, 'f', pattern=pat)
            if xb.tobytes() != before:
                raise Violation('argument-modified', f'{model}{ids}.f(x, {T}, *args) changed the caller\'s array {list(x)} -> {xb.tolist()}',
                                match=dict(model=model, via='f'), detail=dict(x=x, after=xb.tolist()))
            g2 = np.broadcast_to(g2, g1.shape)
            if not np.allclose(g1, g2, rtol=1e-12, atol=0):
                raise Violation('functional-form-differs', f'{model}{ids}: obj(x,T)={g1.tolist()} but obj.f(x,T,*args)={g2.tolist()} at x={list(x)}',
                                match=dict(model=model))
            # a second call with the same argument must give the same answer (scratch buffers)
            g3 = _call(obj, x, T, model, 'call', pattern=pat)
            if not (g1.shape == g3.shape and np.allclose(g1, g3, rtol=1e-12, atol=0)):     # (the EOS classes take two code paths that differ in the last digit)
                raise Violation('not-repeatable', f'{model}{ids}: two consecutive calls at x={list(x)}, T={T} gave {g1.tolist()} and {g3.tolist()}',
                                match=dict(model=model))
            # a returned array is the caller's: overwriting it in place must not influence the next evaluation
            keep = g1.copy()
            for arr in (g1, g3):
                if isinstance(arr, np.ndarray) and arr.flags.writeable and arr.ndim: arr[...] = -7.0
            g4 = _call(obj, x, T, model, 'call', pattern=pat)
            if not (keep.shape == g4.shape and np.allclose(keep, g4, rtol=1e-12, atol=0)):
                raise Violation('result-aliased', f'{model}{ids}: after the caller overwrote the returned arrays in place the next call at x={list(x)}, T={T} '
                                f'gave {g4.tolist()} instead of {keep.tolist()}', match=dict(model=model))
            g1 = keep
            # an un-normalised argument (2*x) must be left alone as well (in-place normalisation would not show on sum(x) == 1)
            xc = 2.0 * np.array(x, float); before2 = xc.tobytes()
            try:
                obj(xc, T)
                if xc.tobytes() == before2: obj.f(xc, T, *obj.args)
            except Exception as e:
                raise _unexpected(e, model, 'call', pattern=pat)
            if xc.tobytes() != before2:
                raise Violation('argument-modified', f'{model}{ids}: un-normalised argument {[2 * v for v in x]} changed to {xc.tolist()}',
                                match=dict(model=model, via='unnormalised'), detail=dict(x=x, after=xc.tolist()))
            st.info = g1
            return ('pure', pat, _sig(g1))
        if kind == 'vertex':
            i = a[1]
            x = [0.0] * n; x[i] = 1.0
            pat = _pattern(ids, x)
            g = _call(obj, x, T, model, 'call', pattern=pat)
            st.info = g
            if not abs(g[i] - 1.0) <= 1e-9:
                raise Violation('vertex-not-one', f'{model}{ids} at x_{ids[i]}=1, T={T}: gamma_{ids[i]}={g[i]!r}',
                                match=dict(model=model), residual=abs(g[i] - 1.0), detail=dict(gamma=g.tolist()))
            return ('vertex', pat, _sig(g))
        if kind == 'near':
            i, j = a[1], a[2]
            x = [0.0] * n; x[i] = 1.0 - 1e-9; x[j] = 1e-9
            pat = _pattern(ids, x)
            g = _call(obj, x, T, model, 'call', pattern=pat)
            st.info = g
            if not abs(g[i] - 1.0) <= 1e-7:
                raise Violation('limit-not-one', f'{model}{ids} at x_{ids[i]}=1-1e-9 (rest {ids[j]}), T={T}: gamma_{ids[i]}={g[i]!r}',
                                match=dict(model=model), residual=abs(g[i] - 1.0), detail=dict(gamma=g.tolist()))
            return ('near', pat, _sig(g))
        if kind == 'nogroup':
            x = a[1]
            pat = _pattern(ids, x)
            g = _call(obj, x, T, model, 'call', pattern=pat)
            st.info = g
            if g.shape != (n,):
                raise Violation('wrong-shape', f'{model}{ids}: result shape {g.shape} for {n} chemicals', match=dict(model=model))
            if not (np.all(np.isfinite(g)) and np.all(g > 0)):
                raise Violation('non-finite', f'{model}{ids} at x={list(x)}, T={T}: gamma={g.tolist()}', match=dict(model=model, pattern=pat))
            for k, ID in enumerate(ids):
                if ID in NOGROUP and g[k] != 1.0:
                    raise Violation('nogroup-not-one', f'{model}{ids} at x={list(x)}: gamma_{ID}={g[k]!r} (no group data)',
                                    match=dict(model=model), residual=abs(g[k] - 1.0))
            return ('nogroup', pat, _sig(g))
        if kind == 'perm':
            x = a[1]
            pat = _pattern(ids, x)
            g = _call(obj, x, T, model, 'call', pattern=pat)
            st.info = g
            worst = 0.0
            for p in self._perms(st):
                pids = tuple(ids[k] for k in p)
                try:
                    pobj = _use(st, model, pids)
                except Exception as e:
                    raise _unexpected(e, model, 'construct')
                gp = _call(pobj, [x[k] for k in p], T, model, 'call', pattern=pat)
                ref = g[list(p)]
                with np.errstate(all='ignore'):      # harness arithmetic only (thermosteam sets errstate to raise)
                    err = float(np.max(np.abs(gp - ref) / np.abs(ref))) if np.all(np.isfinite(gp)) else float('inf')
                worst = max(worst, err)
                if not err <= 1e-10:
                    raise Violation('permutation-dependent',
                                    f'{model} at T={T}: list {ids} x={list(x)} -> {g.tolist()}; list {pids} -> {gp.tolist()} (expected {ref.tolist()})',
                                    match=dict(model=model), residual=err)
            return ('perm', pat, _sig(g))
        if kind == 'gd':
            x, i, j = np.array(a[1], float), a[2], a[3]
            pat = _pattern(ids, a[1])
            u = np.zeros(n); u[i] = 1.0; u[j] = -1.0
            def S(h):
                gp = _call(obj, x + h * u, T, model, 'call', pattern=pat)
                gm = _call(obj, x - h * u, T, model, 'call', pattern=pat)
                with np.errstate(all='ignore'):      # harness arithmetic only
                    d = (np.log(gp) - np.log(gm)) / (2 * h)
                return d
            d1 = S(H); d2 = S(H / 2)
            d = (4 * d2 - d1) / 3.0
            if not np.all(np.isfinite(d)):
                raise Violation('non-finite', f'{model}{ids}: dln(gamma) not finite at x={a[1]}', match=dict(model=model, pattern=pat))
            with np.errstate(all='ignore'):
                s = float(np.dot(x, d)); scale = float(np.dot(x, np.abs(d)))
            st.info = ('gd', scale)
            if not abs(s) <= 1e-5 * scale + 1e-9:
                raise Violation('gibbs-duhem', f'{model}{ids} at x={list(a[1])}, T={T}, direction {ids[i]}-{ids[j]}: '
                                f'sum x_k dln(gamma_k)/ds = {s:.6g} (scale {scale:.6g}; dln gamma/ds = {d.tolist()})',
                                match=dict(model=model), residual=abs(s) / max(scale, 1e-300), detail=dict(dlngamma=d.tolist()))
            return ('gd', pat, 'flat' if scale < 1e-9 else 'curved')
        raise ValueError(a)

    def nontrivial(self, st, a, obs):
        info = st.info
        if info is None: return False
        if isinstance(info, tuple): return info[1] > 1e-6
        return bool(np.any(np.abs(np.asarray(info) - 1.0) > 1e-6))

    def outcome(self, st, a, obs):
        return repr((st.model, len(st.ids), obs))


def _sig(g):
    """coarse signature of a result for the distinct-outcomes counter"""
    g = np.asarray(g, float)
    return ''.join('1' if abs(v - 1) <= 1e-6 else ('+' if v > 1 else '-') for v in g)


# ---- ideal models ------------------------------------------------------------------------------------

class Ideal(System):
    name = 'c16.ideal'
    def warm(self): _load()
    def depth(self, tier): return 1
    def configs(self, tier, seed):
        sets = [('Water', 'Ethanol'), ('Ethanol', 'Water', 'Methanol'), ('Hexane', 'N2', 'Benzene', 'Toluene'), ('NaCl', 'Water')]
        if tier == 'thorough':
            sets += [tuple(s) for n in (2, 3) for s in itertools.combinations(POOL_ALC + NOGROUP, n)]
        return [(s, T) for s in dict.fromkeys(sets) for T in TEMPS]
    def build(self, config):
        ids, T = config
        tmo = fx.tmo()
        st = type('St', (), {})()
        st.ids, st.T = ids, T
        st.chems = _chemicals('Ideal', ids)
        eq = tmo.equilibrium
        st.gamma = eq.IdealActivityCoefficients(st.chems)
        st.phi = eq.IdealFugacityCoefficients(st.chems)
        st.pcf = eq.MockPoyintingCorrectionFactors(st.chems)
        # the ideal package hands out exactly these classes
        th = tmo.Thermo(tmo.Chemicals(list(st.chems))).ideal()
        st.pkg = (th.Gamma(st.chems), th.Phi(st.chems), th.PCF(st.chems))
        st.info = None
        return st
    def canon(self, st): return ('ideal', st.ids, st.T)
    def actions(self, st):
        n = len(st.ids)
        pts = simplex(n, 4) + trace_points(n)
        return [(w, x, P) for w in ('gamma', 'phi', 'pcf', 'pkg') for x in pts for P in ((101325.0,) if w == 'gamma' else (5e3, 101325.0, 3e6))]
    def step(self, st, a):
        which, x, P = a
        T = st.T; n = len(st.ids)
        xa = np.array(x, float); before = xa.tobytes()
        def one(v, what, shape=None):
            v = np.asarray(v, float)
            if shape is not None and v.shape != shape:
                raise Violation('ideal-not-one', f'{what} returned shape {v.shape}', match=dict(which=which))
            if not np.all(v == 1.0):
                raise Violation('ideal-not-one', f'{what} returned {v.tolist()} at x={list(x)}, T={T}, P={P}', match=dict(which=which))
        try:
            if which == 'gamma':
                one(st.gamma(xa, T), 'IdealActivityCoefficients(x,T)', (n,))
                one(st.gamma.f(xa, T, *st.gamma.args), 'IdealActivityCoefficients.f')
            elif which == 'phi':
                one(st.phi(xa, T, P), 'IdealFugacityCoefficients(y,T,P)')
                one(st.phi.f(xa, T, P, *st.phi.args), 'IdealFugacityCoefficients.f')
            elif which == 'pcf':
                Psats = np.ones(n)
                one(st.pcf(T, P, Psats), 'MockPoyintingCorrectionFactors(T,P,Psats)')
                one(st.pcf(T, P), 'MockPoyintingCorrectionFactors(T,P)')
            else:
                g, f, p = st.pkg
                one(g(xa, T), 'thermo.ideal().Gamma'); one(f(xa, T, P), 'thermo.ideal().Phi'); one(p(T, P), 'thermo.ideal().PCF')
        except Violation:
            raise
        except Exception as e:
            raise _unexpected(e, 'Ideal', which)
        if xa.tobytes() != before:
            raise Violation('argument-modified', f'ideal {which} changed the caller\'s array', match=dict(model='Ideal', via=which))
        return ('one', which)
    def nontrivial(self, st, a, obs): return True
    def outcome(self, st, a, obs): return repr((a[0], len(st.ids)))


class IdealHistory(System):
    """Sequences of evaluations of ONE instance of each ideal model (and of group models that fall back to the ideal one) with the
    caller modifying every returned array in place between the calls.  A returned array is the caller's: the next evaluation must
    still return ones and every array returned earlier must keep what the caller wrote into it."""
    name = 'c16.ideal.history'
    nontrivial_per_config = True
    TUPLES = [('Water', 'Ethanol'), ('Ethanol', 'Water', 'Methanol')]
    XS = {2: [(0.25, 0.75), (1.0, 0.0)], 3: [(0.5, 0.25, 0.25), (0.0, 0.5, 0.5)]}

    def warm(self): _load()
    def reset_globals(self): clear_interned()
    def depth(self, tier): return 3
    def configs(self, tier, seed): return [(t,) for t in self.TUPLES]

    def build(self, config):
        ids = config[0]
        tmo = fx.tmo(); eq = tmo.equilibrium; ac = _load()
        chems = _chemicals('Ideal', ids)
        st = type('St', (), {})()
        st.ids = ids
        st.objs = {
            'gamma': eq.IdealActivityCoefficients(chems),
            'fallback.dortmund': ac.DortmundActivityCoefficients((chems[0], _chems[('std', 'N2')]) + ((_chems[('std', 'NaCl')],) if len(ids) == 3 else ())),
            'fallback.unifac': ac.UNIFACActivityCoefficients((_chems[('std', 'NaCl')], chems[1]) + ((_chems[('std', 'N2')],) if len(ids) == 3 else ())),
            'phi': eq.IdealFugacityCoefficients(chems),
            'pcf': eq.MockPoyintingCorrectionFactors(chems),
        }
        st.held = []      # (which, returned object, snapshot of what the caller left in it)
        st.info = None
        return st

    def canon(self, st):
        return (st.ids, tuple((w, tuple(np.asarray(snap, float).ravel().tolist())) for w, r, snap in st.held),
                tuple(sorted((w, type(o).__name__) for w, o in st.objs.items())))

    def actions(self, st):
        n = len(st.ids)
        return [(w, via, xi, mut) for w in st.objs for via in (('call', 'f') if w != 'pcf' else ('call',)) for xi in range(len(self.XS[n]))
                for mut in ('scale', 'fill')]

    def step(self, st, a):
        w, via, xi, mut = a
        obj = st.objs[w]; n = len(st.ids)
        x = np.array(self.XS[n][xi], float); T = 300.0; P = 101325.0
        try:
            if w == 'phi': r = obj(x, T, P) if via == 'call' else obj.f(x, T, P, *obj.args)
            elif w == 'pcf': r = obj(T, P, np.ones(n))
            else: r = obj(x, T) if via == 'call' else obj.f(x, T, *obj.args)
        except Exception as e:
            raise _unexpected(e, 'Ideal', w)
        v = np.asarray(r, float)
        st.info = v
        if not np.all(v == 1.0) or (w in ('gamma', 'fallback.dortmund', 'fallback.unifac') and via == 'call' and v.shape != (n,)):
            raise Violation('ideal-not-one', f'{type(obj).__name__}{st.ids} via {via}: returned {v.tolist()} after the caller modified {len(st.held)} earlier result(s) in place',
                            match=dict(which=w, via=via))
        for w0, r0, snap in st.held:
            if isinstance(r0, np.ndarray) and not np.array_equal(r0, snap):
                raise Violation('result-aliased', f'{w0}{st.ids}: an array returned earlier and modified by the caller to {snap.tolist()} now reads {r0.tolist()} '
                                f'(after a later {w}.{via})', match=dict(which=w0))
        if isinstance(r, np.ndarray) and r.ndim and r.flags.writeable:
            if mut == 'scale': r *= x          # e.g. gamma *= x  (activities)
            else: r[...] = 7.0
        st.held.append((w, r, np.array(r, float).copy()))
        return ('one', w, via, mut)

    def nontrivial(self, st, a, obs): return len(st.held) >= 2
    def outcome(self, st, a, obs): return repr(obs)


# ---- history layer -----------------------------------------------------------------------------------

class History(System):
    """Two interned objects (A: 2-3 chemicals, B: 3-4 chemicals, overlapping) of one model class, freshly
    constructed per execution, plus the REVERSED lists of both, which are requested from the class (i.e. through its interning
    cache) only when an action uses them; every call is compared with a twin constructed with empty caches.  The cache
    content is part of the state."""
    name = 'c16.history'
    nontrivial_per_config = True

    PAIRS = [(('Water', 'Ethanol'), ('Ethanol', 'Water', 'Methanol')),
             (('Hexane', 'Benzene', 'Water'), ('Ethanol', 'Hexane', 'Benzene', 'Toluene')),
             (('Water', 'N2', 'Ethanol'), ('Propanol', 'Water', 'NaCl', '1-Butanol'))]
    XS = {2: [(0.25, 0.75), (1.0, 0.0)], 3: [(0.5, 0.25, 0.25), (0.0, 0.5, 0.5)], 4: [(0.25, 0.25, 0.25, 0.25), (0.5, 0.0, 0.0, 0.5)]}

    def warm(self): _load()
    def reset_globals(self): clear_interned()
    def depth(self, tier): return None      # closure
    def time_cap(self, tier): return 120 if tier == 'quick' else 900      # a library that grows new per-object memory can blow the closure up; reported as a cap
    def configs(self, tier, seed):
        return [(m, a, b) for m in GROUP_MODELS for (a, b) in self.PAIRS]

    def build(self, config):
        model, a, b = config
        st = type('St', (), {})()
        st.model = model
        st.ids = (a, b, tuple(reversed(a)), tuple(reversed(b)))
        st.objs = (_gamma(model, a), _gamma(model, b))
        st.const0 = tuple(self._const(o) for o in st.objs)
        st.info = None
        return st

    CONST = CONST_FIELDS
    def _const(self, o):
        return tuple((f, fx.sparse_digest(np.asarray(getattr(o, f), float))) for f in self.CONST if hasattr(o, f))

    def canon(self, st):
        out = []
        cached = list(_cls(st.model)._cached.values())
        for o in list(st.objs) + [o for o in cached if not any(o is p for p in st.objs)]:
            out.append(obj_digest(o))        # every field, not a fixed list: a new memo field is state too
        return (st.model, st.ids, tuple(out[:2]) + tuple(sorted(out[2:], key=repr)), OWNED.digest())

    def invariants(self, st):
        out = []
        for k, o in enumerate(st.objs):
            if self._const(o) != st.const0[k]:
                changed = [f for (f, d), (_, d0) in zip(self._const(o), st.const0[k]) if d != d0]
                out.append(Violation('model-data-modified', f'{st.model}{st.ids[k]}: construct-time arrays {changed} changed by a call',
                                     match=dict(model=st.model, fields=','.join(changed))))
        return out

    def actions(self, st):
        acts = []
        for k in (0, 1):
            n = len(st.ids[k])
            for via in ('call', 'f', 'ac'):
                if via == 'ac' and any(i in NOGROUP for i in st.ids[k]): continue
                for xi in range(len(self.XS[n])):
                    for T in (250.0, 450.0, 300.0):
                        acts.append((via, k, xi, T))
        # construct (and evaluate once) a model of ANOTHER family for the chemical objects of list A: whatever that leaves behind
        # in process-global state must not change what a model of this family built afterwards returns
        acts.append(('switch', 0, 0, 300.0))
        # the same IDs as list A, but the LAST member is another Chemical object whose group data was removed
        for xi in range(len(self.XS[len(st.ids[0])])): acts.append(('clone', 0, xi, 300.0))
        for k in (2, 3):        # the reversed lists, requested through the class at call time
            n = len(st.ids[k])
            for via in ('call', 'f'):
                for xi in range(len(self.XS[n])):
                    acts.append((via, k, xi, 300.0))
        return acts

    def _eval(self, obj, via, x, T, model):
        xa = np.array(x, float)
        try:
            if via == 'call': return np.asarray(obj(xa, T), float)
            if via == 'f': return np.broadcast_to(np.asarray(obj.f(xa, T, *obj.args), float), xa.shape).copy()
            return np.asarray(obj.activity_coefficients(xa, T), float)
        except Exception as e:
            raise _unexpected(e, model, via)

    def step(self, st, a):
        via, k, xi, T = a
        ids = st.ids[k]; model = st.model
        x = self.XS[len(ids)][xi]
        if via == 'clone':
            chems = _chemicals(model, ids)[:-1] + (_chems[('nogroups', ids[-1])],)
            try:
                o = _cls(model)(chems)
                g = np.asarray(o(np.array(x, float), T), float)
                with isolated():
                    ref = np.asarray(_cls(model)(chems)(np.array(x, float), T), float)
            except Exception as e:
                raise _unexpected(e, model, 'construct')
            st.info = g.copy()
            if g.shape != ref.shape or not np.allclose(g, ref, rtol=1e-12, atol=0):
                raise Violation('history-dependent', f'{model}{ids} with a group-less copy of {ids[-1]} (same ID, other object) requested after the original list: '
                                f'{g.tolist()}, fresh process state: {ref.tolist()}', match=dict(model=model, via='clone', requested='base'))
            if g[-1] != 1.0:
                raise Violation('nogroup-not-one', f'{model}{ids} with a group-less copy of {ids[-1]}: gamma = {g[-1]!r}', match=dict(model=model))
            return ('clone', _sig(g))
        if via == 'switch':
            other = {'UNIFAC': 'NIST', 'Dortmund': 'NIST', 'NIST': 'UNIFAC'}[model]
            chems = _chemicals(model, ids)
            try:
                o = _cls(other)(chems)
                g = np.asarray(o(np.array(x, float), T), float)
                with isolated():
                    ref = np.asarray(_cls(other)(chems)(np.array(x, float), T), float)
            except Exception as e:
                raise _unexpected(e, other, 'construct')
            st.info = g.copy()
            if g.shape != ref.shape or not np.allclose(g, ref, rtol=1e-12, atol=0):
                raise Violation('history-dependent', f'{other}{ids} built after {model} models: {g.tolist()}, fresh process state: {ref.tolist()}',
                                match=dict(model=other, via='switch', requested='base'))
            return ('switch', other, _sig(g))
        if k >= 2:
            x = tuple(reversed(self.XS[len(ids)][xi]))       # the base composition in the reversed order
            try:
                obj = _gamma(model, ids)
            except Exception as e:
                raise _unexpected(e, model, 'construct')
        else:
            obj = st.objs[k]
        if via == 'ac' and not hasattr(obj, 'activity_coefficients'):
            raise Rejected('no activity_coefficients method (ideal fallback)')
        g = self._eval(obj, via, x, T, model)
        # twin constructed with empty caches (the explored caches are put back afterwards)
        with isolated():
            twin = _gamma(model, ids)
            ref = self._eval(twin, via, x, T, model)
        st.info = g.copy()
        bad = g.shape != ref.shape or not np.allclose(g, ref, rtol=1e-12, atol=0, equal_nan=True)
        if isinstance(g, np.ndarray) and g.ndim and g.flags.writeable: g[...] = -7.0     # a returned array is the caller's
        if bad:
            raise Violation('history-dependent', f'{model}{ids} via {via} at x={list(x)}, T={T}: after earlier calls/requests {st.info.tolist()}, fresh object {ref.tolist()}',
                            match=dict(model=model, via=via, requested='reversed' if k >= 2 else 'base'))
        return (via, k, _sig(st.info))

    def nontrivial(self, st, a, obs):
        return st.info is not None and bool(np.any(np.abs(st.info - 1.0) > 1e-6))
    def outcome(self, st, a, obs): return repr((st.model, obs))


# ---- set enumerations ----------------------------------------------------------------------------------

def _subsets(pool, sizes):
    return [tuple(s) for n in sizes for s in itertools.combinations(pool, n)]

def sets_core(tier, seed):
    """sets of chemicals that all have group data"""
    out = _subsets(POOL, (2, 3))
    fam4 = _subsets(POOL_ALC, (4,)) + _subsets(POOL_HC, (4,))
    all4 = _subsets(POOL, (4,))
    if tier == 'thorough':
        out += all4
    else:
        rest = [s for s in all4 if s not in set(fam4)]
        out += fam4 + [s for k, s in enumerate(rest) if k % 8 == seed % 8]
    return list(dict.fromkeys(out))

def sets_nogroup(tier, seed):
    """sets with one or two members lacking group data"""
    out = []
    if tier == 'quick':
        for pool in (POOL_ALC, POOL_HC):
            for s in _subsets(pool, (1, 2)):
                for g in NOGROUP: out.append(s + (g,))
        for s in _subsets(POOL_ALC, (3,)): out.append(s + (NOGROUP[seed % 2],))
        for s in _subsets(POOL_ALC, (2,)): out.append(s + NOGROUP)
        return list(dict.fromkeys(out))
    for pool in (POOL_ALC, POOL_HC):
        for s in _subsets(pool, (1, 2, 3, 4)):
            for g in NOGROUP:
                out.append(s + (g,))
        for s in _subsets(pool, (2,)):
            out.append(s + NOGROUP)
    return list(dict.fromkeys(out))

def sets_quat(tier, seed):
    """sets of 2-3 chemicals with at least one member that contains a zero-Q subgroup"""
    return [s for s in _subsets(POOL_QUAT, (2, 3)) if any(i in QUAT for i in s)]

def sets_eos(tier, seed):
    """small sets for the equation-of-state based activity-coefficient classes"""
    return _subsets(('Water', 'Ethanol', 'Hexane', 'Benzene'), (2, 3))

def sets_large(tier, seed):
    if tier == 'quick':
        return [POOL_ALC]                       # one 5-set (120 permutations) in the quick tier
    return _subsets(POOL_ALC, (5,)) + _subsets(POOL_HC, (5,)) + [POOL_HC]

def den_small(tier, n): return 8 if (tier == 'thorough' and n <= 4) else 4
def den_quarter(tier, n): return 4

SYSTEMS = [
    Ideal(),
    IdealHistory(),
    History(),
    Grid('c16.grid', sets_core, den_small),
    Grid('c16.grid.nogroup', sets_nogroup, den_quarter),
    Grid('c16.grid.large', sets_large, den_quarter, perm_block=120),
    Grid('c16.grid.quat', sets_quat, den_quarter),
]
# Not registered: PRActivityCoefficients / SRKActivityCoefficients are not among the models property C16 names (UNIFAC, Dortmund, NIST, ideal).
# Grid('c16.grid.eos', sets_eos, den_quarter, models=('PR', 'SRK')) can be appended for exploration; see reports/C16.md "observed, outside the property".
