"""
C04 -- a vapour-liquid flash honours its specifications and the equilibrium conditions.

Same driver as C03 (mc/systems/_vle_common.py), different oracles.  After every ``stream.vle(...)`` call that returns
normally:

spec-T / spec-P      the specified temperature / pressure is the stream's temperature / pressure, exactly
spec-H / spec-S      a specified enthalpy / entropy is reproduced by the stream (solver resolution, see TOLERANCES)
V-spec-point         (homologous families with activity coefficients, and ideal packages) the solved temperature
                     (pressure) brackets the specified vapour fraction:  V_ref(T-d) - e <= V <= V_ref(T+d) + e  with my
                     own reference flash V_ref (Rachford-Rice by bisection, K re-evaluated from Gamma/Phi/PCF/Psat)
V-spec-flows         the vapour fraction of the returned flows equals the specification (V_tol, plus the change of V_ref
                     over the solver's T_tol / P_tol) and the reference flash at the returned (T, P)
phase-boundary       (T,P): all liquid at / above my bubble pressure, all vapour at / below my dew pressure, else two phases
iso-fugacity         (T,P), two phases: |ln(y_i/x_i) - ln K_i(x, y, T, P)| <= 1e-4 for every chemical
TP-split / ideal-RR  (T,P), two phases: vapour fraction equals the reference flash; with an ideal package every flow equals
                     my Raoult's-law Rachford-Rice solution (rtol 1e-6)
scaling              feed x k (k in {1e-3, 7}) => products x k (rtol 1e-6), same T and P

History layers run the same oracles on the 2nd / 3rd call on one stream (whatever the previous call left in the cached
VLE object's _K, _V, _T, _P, _nonzero, _index).
"""
from __future__ import annotations
import itertools, math
import numpy as np
from mc.engine import Violation, Rejected
from mc import fixtures as fx
from mc.systems import _vle_common as vc
from mc.systems._vle_common import FlashSystem, Grid, subsets, ndev

PROPERTY = 'C04'
RULE = ('Depth-1 systems enumerate (package, present chemicals, composition pattern, initial phase distribution) x (specification '
        'pair, value 1, value 2); quick = all cases within two coordinate deviations of a base point, thorough = full product.  '
        'History systems: BFS over call sequences on one stream, states merged on the complete stream digest + the cached VLE '
        'object\'s remembered fields (12 digits).  Non-trivial = the call returned normally with vapour AND liquid present (for the '
        'scaling system: and both scaled twins returned); distinct outcomes = (pair, L/V/LV branch, #volatile, light?, heavy?).')
ASSUMPTIONS = [
    'packages: VLE=(Water,Ethanol,Propanol,N2[g],Glucose[s]) for the T/P/H/S/scaling clauses (volatile subsets with / without 0.05 kmol/hr '
    'N2 and / or Glucose per ~1 kmol/hr volatile); families ALC=(Methanol,Ethanol,Propanol,1-Butanol), HC=(Hexane,Heptane,Octane,Benzene,Toluene) '
    'with Dortmund activity coefficients for the V-spec / phase-boundary / iso-fugacity clauses; ideal packages ALCi, HCi, Ai=(Water,Ethanol,Methanol), '
    'WOi=(Water,Ethanol,Acetone,Hexane) for the Raoult clause; ORDi = ideal (N2[g],Methanol,Glucose[s],Water,Propanol) -- package order with locked members first / in the middle, '
    'only volatile chemicals fed; HCpr = HC chemicals with Peng-Robinson vapour fugacity coefficients (Phi=PRFugacityCoefficients) for the iso-fugacity / V-spec / boundary clauses',
    'composition patterns per subset: equimolar; one chemical (first / last) at x=0.02; one chemical (first / last) at 1-0.02(k-1) (every x >= 0.02)',
    'value grids: T {280,320,350,380,420,450} K, P {2e4,101325,3e5,1e6} Pa, V {0.03,0.25,0.5,0.75,0.97}, H and S at fractions '
    '{0,0.1,0.3,0.5,0.7,0.9,1} between the all-liquid value at my bubble point and the all-vapour value at my dew point; nothing is claimed between grid points',
    'calls that raise a documented exception (NotImplementedError "cannot solve for pressure yet", NoEquilibrium, InfeasibleRegion, RuntimeError, '
    'FloatingPointError, ValueError, AssertionError) are outside the quantifier and counted as rejected',
    'reference K-values use the package\'s own Gamma / Phi / PCF objects and Chemical.Psat (an independent *flash*, not independent property models)',
    'the x / y specification pairs are only checked for the T / P they fix (the property states nothing else about them)',
    'only the default VLE method (fixed-point) is explored',
    'the interning caches of thermosteam.equilibrium (BubblePoint/DewPoint/activity-/fugacity-coefficient objects) are cleared before every execution; '
    'cross-package reuse of interned objects is explored only through the explicit pkg action of c04.reuse (Dortmund <-> ideal on the same Chemical objects)',
    'entropy specifications are not enumerated for mixtures containing a chemical whose third-party entropy model is not the integral of '
    'Cn/T (vc.entropy_model_ok; Benzene: thermo HEOS_FIT integral_over_T is a staircase with 2 J/mol/K steps) -- no solver can match such an S(T)',
]
T_TOL = 5e-8; P_TOL = 1.; V_TOL = 1e-6; MIX_T_TOL = 1e-6
TOLERANCES = {
    'spec_T_P': 0.0,
    'H_abs': '1e-6 kJ/kg * F_mass + 10 * C * 1e-6 K; (T,H) is solved in P to P_tol = 1 Pa: a larger residual is accepted iff it is <= 10 * P_tol * |H_V - H_L| / |P_bubble - P_dew| (mean slope over the two-phase range) or H_spec and H_stream lie between the (T,P)-flash enthalpies at P -/+ 10 P_tol',
    'S_abs': '1e-6 kJ/kg/K * F_mass + 10 * (C/T) * 1e-6 K; (T,S): as for (T,H)',
    'V_point_delta_T_K': 100 * T_TOL, 'V_point_delta_P_Pa': 100 * P_TOL, 'V_point_eps': 10 * V_TOL,
    'V_flows': '10*V_tol + |V_ref(+tol) - V_ref(-tol)| over the solved variable',
    'boundary_margin_rel': 1e-5, 'iso_fugacity_lnK': 1e-4, 'TP_split_V': 1e-5, 'ideal_RR_rtol': 1e-6, 'ideal_RR_atol_rel_total': 1e-9,
    'pure_component_saturation_rel': 1e-6,
    'scaling_rtol': 1e-6, 'scaling_atol_rel_total': 1e-9, 'scaling_T_rel': 1e-9, 'scaling_P_rel': 1e-6,
    'reference_flash_convergence': 1e-12,
}

# ----------------------------------------------------------------------------------------------------------------
# oracles

def _m(action, obs, **kw):
    return dict(pair=action[1], N=min(obs['nvol'] + bool(obs['light']), 3), light=obs['light'], heavy=obs['heavy'], **kw)

def _norm(action, obs):
    """('vle','Tp',T,frac) / ('vle','Tq',T,rel) are (T,P) specifications whose pressure was resolved against my own envelope"""
    if action[1] in ('Tp', 'Tq'): return ('vle', 'TP', float(obs['kw']['T']), float(obs['kw']['P']))
    return action

def check_exact(st, action, obs):
    s = st.s
    for name, v in zip(action[1], action[2:4]):
        if name == 'T' and not (float(s.T) == float(v)):
            raise Violation('spec-T', f'{action!r} on {st.config!r}: specified T={v!r}, stream T={float(s.T)!r}',
                            match=_m(action, obs, branch=obs['branch']), residual=abs(float(s.T) - float(v)))
        if name == 'P' and not (float(s.P) == float(v)):
            raise Violation('spec-P', f'{action!r} on {st.config!r}: specified P={v!r}, stream P={float(s.P)!r}',
                            match=_m(action, obs, branch=obs['branch']), residual=abs(float(s.P) - float(v)))

def check_HS(st, action, obs):
    s = st.s
    pair = action[1]
    for name in 'HS':
        if name not in pair: continue
        target = float(obs['kw'][name])
        got = float(getattr(s, name))
        F_mass = float(s.F_mass); C = float(s.C); T = float(s.T)
        info = obs['info']
        if name == 'H': tol = 1e-6 * F_mass + 10. * C * MIX_T_TOL
        else: tol = 1e-6 * F_mass + 10. * C / T * MIX_T_TOL
        tol += 1e-12 * max(abs(target), abs(info['lo']), abs(info['hi']))
        err = abs(got - target)
        if not err <= tol and pair[0] == 'T':
            Pb = info['cond_L'][1]; Pd = info['cond_V'][1]
            if abs(Pb - Pd) > 0. and err <= tol + 10. * P_TOL * abs(info['hi'] - info['lo']) / abs(Pb - Pd):
                st.extra['accepted_by_P_tol'] = True      # P_tol x mean slope of H(P) (S(P)) over the two-phase range, safety factor 10
                continue
            if _within_P_resolution(st, name, target, tol):
                st.extra['accepted_by_P_tol'] = True
                continue
            if not _attainable_at_T(st, name, target, tol):
                raise Rejected(f'vle:{pair}:value-not-attainable-for-P-in-quantifier', cut=True)
        if not err <= tol and pair[0] == 'P' and _within_T_resolution(st, name, target, tol):
            st.extra['accepted_by_T_tol'] = True
            continue
        if not err <= tol:
            raise Violation('spec-' + name, f'{action!r} on {st.config!r}: specified {name}={target!r}, stream {name}={got!r} '
                            f'(|diff|={err:.6g}, tolerance {tol:.3g}; T={T!r} P={float(s.P)!r} branch {obs["branch"]})',
                            match=_m(action, obs, branch=obs['branch']), residual=err / max(abs(info['hi'] - info['lo']), 1e-300),
                            detail=dict(frac=info['frac'], lo=info['lo'], hi=info['hi'], tol=tol))

def _within_P_resolution(st, name, target, tol):
    """(T,H) / (T,S) are solved in P to P_tol = 1 Pa (or H_hat_tol, whichever is met first).  The returned pressure is
    within the stated resolution iff the specified value lies between the values of the (T,P) flash at P - 10 P_tol and
    P + 10 P_tol, and the returned flows are the (T,P) flash at the returned P.  The (T,P) flash used here is the library's
    own, on fresh twins of the feed (it is checked independently by the other clauses)."""
    s = st.s
    T = float(s.T); P = float(s.P)
    d = vc.dense_by_phase(s)
    tmo = fx.tmo()
    vals = []
    for dP in (-10. * P_TOL, 0., 10. * P_TOL):
        t = tmo.MultiStream(None, phases=tuple(d), T=T, P=P, thermo=st.th)
        for p, a in d.items(): t.imol[p] = a
        try: t.vle(T=T, P=P + dP)
        except Exception: return False
        vals.append(float(getattr(t, name)))
    lo, hi = min(vals), max(vals)      # all three points: the (T,P) flash itself is only reproducible to its own tolerances
    got = float(getattr(s, name))
    return (lo - tol <= target <= hi + tol) and (lo - tol <= got <= hi + tol)

def _tp_twin(st, T, P, flash=True):
    d = vc.dense_by_phase(st.s)
    t = fx.tmo().MultiStream(None, phases=tuple(d), T=T, P=P, thermo=st.th)
    for p, a in d.items(): t.imol[p] = a
    if flash: t.vle(T=T, P=P)
    return t

def _attainable_at_T(st, name, target, tol):
    """(T,H) / (T,S) with non-condensable gas: the harness' "all-liquid" end point (volatiles liquid at their bubble pressure, gas
    beside them) need not be an equilibrium state at any pressure.  A value is inside the quantifier only if some P in
    [2e4, 1e6] Pa reaches it: H and S of the (T,P) flash are monotone in P, so the end values decide."""
    T = float(st.s.T)
    try:
        a = float(getattr(_tp_twin(st, T, 2e4), name)); b = float(getattr(_tp_twin(st, T, 1e6), name))
    except Exception:
        return True
    return min(a, b) - tol <= target <= max(a, b) + tol

def _within_T_resolution(st, name, target, tol):
    """(P,H) / (P,S): single-phase results are solved in T to the mixture's T_tol = 1e-6 K; the property models are not continuous
    everywhere (probe: liquid water entropy jumps by 5e-4 J/mol/K at Tb).  Accept iff the value lies between the values of the
    returned flows at T - 10 T_tol and T + 10 T_tol."""
    T = float(st.s.T); P = float(st.s.P)
    a = float(getattr(_tp_twin(st, T - 10 * MIX_T_TOL, P, flash=False), name)); b = float(getattr(_tp_twin(st, T + 10 * MIX_T_TOL, P, flash=False), name))
    return min(a, b) - tol <= target <= max(a, b) + tol

def _volatile_state(st):
    """(ref, z, x, y, Vs, vol) for a stream whose material is volatile only and sits in g / l; else None"""
    s = st.s
    d = vc.dense_by_phase(s)
    if any(a.any() for p, a in d.items() if p not in ('g', 'l')): return None
    vol, light, heavy, tot = vc.classify(st)
    if light or heavy or not vol: return None
    g = d.get('g', np.zeros(len(tot))); l = d.get('l', np.zeros(len(tot)))
    tv = np.array([tot[i] for i in vol]); gv = np.array([g[i] for i in vol]); lv = np.array([l[i] for i in vol])
    F = tv.sum()
    z = tv / F
    Vs = gv.sum() / F
    x = lv / lv.sum() if lv.sum() > 0 else None
    y = gv / gv.sum() if gv.sum() > 0 else None
    return vc.ref_for(st.th, vol), z, x, y, float(Vs), vol, gv, lv, F

def check_V(st, action, obs):
    pair = action[1]
    if pair not in ('PV', 'TV'): return
    vs = _volatile_state(st)
    if vs is None: return
    ref, z, x, y, Vs, vol, gv, lv, F = vs
    s = st.s; T = float(s.T); P = float(s.P)
    V = float(action[3])
    m = _m(action, obs)
    with np.errstate(all='ignore'):
        if ref.n == 1:
            Ps = float(ref.Psats(T)[0])
            if not abs(Ps / P - 1.) <= 1e-6:
                raise Violation('V-spec-point', f'{action!r} on {st.config!r}: pure component, returned T={T!r} P={P!r} but Psat(T)={Ps!r}',
                                match=dict(m, n1=True, atm=(P == 101325.)), residual=abs(Ps / P - 1.))
            if not abs(Vs - V) <= 10 * V_TOL:
                raise Violation('V-spec-flows', f'{action!r} on {st.config!r}: pure component, vapour fraction of the flows {Vs!r} != {V!r}',
                                match=dict(m, n1=True), residual=abs(Vs - V))
            return
        g0 = (x.copy(), y.copy()) if (x is not None and y is not None) else None
        Vmid, xm, ym, _ = ref.flash(z, T, P, guess=g0)
        gm = lambda: (xm.copy(), ym.copy())
        if pair == 'PV':
            dlt = 100 * T_TOL
            Vlo = ref.flash(z, T - dlt, P, guess=gm())[0]; Vhi = ref.flash(z, T + dlt, P, guess=gm())[0]
            # the +-T_tol slack only ever widens the tolerance: evaluate it only when the plain tolerance is exceeded
            slack = abs(ref.flash(z, T + T_TOL, P, guess=gm())[0] - ref.flash(z, T - T_TOL, P, guess=gm())[0]) if abs(Vs - V) > 10 * V_TOL else 0.
        else:
            dlt = 100 * P_TOL
            Vlo = ref.flash(z, T, P + dlt, guess=gm())[0]; Vhi = ref.flash(z, T, P - dlt, guess=gm())[0]
            slack = abs(ref.flash(z, T, P - P_TOL, guess=gm())[0] - ref.flash(z, T, P + P_TOL, guess=gm())[0]) if abs(Vs - V) > 10 * V_TOL else 0.
    eps = 10 * V_TOL
    if not (Vlo - eps <= V <= Vhi + eps):
        raise Violation('V-spec-point', f'{action!r} on {st.config!r}: returned T={T!r} P={P!r}; reference vapour fraction there is {Vmid!r} '
                        f'(bracket [{Vlo!r}, {Vhi!r}] over +-{dlt}) but V={V!r} was specified',
                        match=m, residual=max(Vlo - V, V - Vhi), detail=dict(Vref=Vmid, Vlo=Vlo, Vhi=Vhi))
    if not abs(Vs - V) <= eps + slack:
        raise Violation('V-spec-flows', f'{action!r} on {st.config!r}: vapour fraction of the returned flows {Vs!r}, specified {V!r} '
                        f'(tolerance {eps + slack:.3g}); T={T!r} P={P!r} reference V there {Vmid!r}',
                        match=m, residual=abs(Vs - V), detail=dict(Vref=Vmid))
    if not abs(Vs - Vmid) <= eps + abs(Vhi - Vlo):
        raise Violation('V-spec-flows', f'{action!r} on {st.config!r}: vapour fraction of the returned flows {Vs!r} but the reference flash at the '
                        f'returned T={T!r} P={P!r} gives {Vmid!r}', match=dict(m, vs='ref'), residual=abs(Vs - Vmid))

def check_TP_pure(st, action, obs):
    """(T,P) with exactly ONE volatile chemical (alone or beside a non-volatile solute that does not dissociate, N_solutes = 0): all vapour below
    Psat(T), all liquid above it.  The library states its own tolerance: 1e-3 Pa (absolute); 2e-3 Pa is used here."""
    vol, light, heavy, tot = vc.classify(st)
    if len(vol) != 1 or light: return False
    ch = st.s.chemicals
    if any(tot[i] and ch._heavy_solutes[k] for k, i in enumerate(ch._heavy_indices)): return False
    d = vc.dense_by_phase(st.s)
    if any(a[vol[0]] for p, a in d.items() if p not in ('g', 'l')): return False
    T = float(st.s.T); P = float(st.s.P)
    Ps = float(ch.tuple[vol[0]].Psat(T))
    if T >= ch.tuple[vol[0]].Tc: return True
    if P > Ps + 2e-3: expect = 'L'
    elif P < Ps - 2e-3: expect = 'V'
    else: return True
    if obs['branch'] != expect:
        raise Violation('phase-boundary', f'{action!r} on {st.config!r}: pure {ch.IDs[vol[0]]}: Psat(T) = {Ps!r}, P = {P!r} (P/Psat - 1 = {P / Ps - 1.:.3g}) => expected {expect}, '
                        f'library returned {obs["branch"]}', match=dict(_m(action, obs), expected=expect, got=obs['branch'], n1=True),
                        detail=dict(Psat=Ps))
    return True

def check_TP(st, action, obs, ideal):
    if action[1] != 'TP': return
    if check_TP_pure(st, action, obs): return
    vs = _volatile_state(st)
    if vs is None: return
    ref, z, x, y, Vs, vol, gv, lv, F = vs
    s = st.s; T = float(s.T); P = float(s.P)
    m = _m(action, obs)
    with np.errstate(all='ignore'):
        if ref.n == 1:
            Pb = Pd = float(ref.Psats(T)[0])
        else:
            Pb = ref.bubble_P(z, T)[0]; Pd = ref.dew_P(z, T)[0]
    mg = 1e-5
    if not (np.isfinite(Pb) and np.isfinite(Pd)): return
    if P >= Pb * (1 + mg): expect = 'L'
    elif P <= Pd * (1 - mg): expect = 'V'
    elif Pd * (1 + mg) < P < Pb * (1 - mg): expect = 'LV'
    else: return
    if obs['branch'] != expect:
        raise Violation('phase-boundary', f'{action!r} on {st.config!r}: my bubble pressure {Pb!r}, dew pressure {Pd!r} => expected {expect}, '
                        f'library returned {obs["branch"]} (vapour fraction {Vs!r})', match=dict(m, expected=expect, got=obs['branch']),
                        detail=dict(P_bubble=Pb, P_dew=Pd))
    if expect != 'LV' or ref.n == 1: return
    with np.errstate(all='ignore'):
        K = ref.Kvalues(x, y, T, P)
        res = float(np.abs(np.log(y / x) - np.log(K)).max())
    if not res <= 1e-4:
        raise Violation('iso-fugacity', f'{action!r} on {st.config!r}: max |ln(y/x) - ln K(x,y,T,P)| = {res:.3g}; x={x.tolist()} y={y.tolist()} K={K.tolist()}',
                        match=m, residual=res)
    with np.errstate(all='ignore'):
        Vr, xr, yr, Kr = ref.flash(z, T, P, guess=(x.copy(), y.copy()))
    if not abs(Vs - Vr) <= 1e-5:
        raise Violation('TP-split', f'{action!r} on {st.config!r}: vapour fraction {Vs!r}, reference flash {Vr!r}', match=m, residual=abs(Vs - Vr))
    if ideal:
        gr = F * Vr * yr; lr = F * (1 - Vr) * xr
        err = max(np.abs(gv - gr).max(), np.abs(lv - lr).max())
        bad = (np.abs(gv - gr) > 1e-6 * np.abs(gr) + 1e-9 * F) | (np.abs(lv - lr) > 1e-6 * np.abs(lr) + 1e-9 * F)
        if bad.any():
            raise Violation('ideal-RR', f'{action!r} on {st.config!r}: vapour {gv.tolist()} liquid {lv.tolist()} but Raoult/Rachford-Rice gives '
                            f'{gr.tolist()} / {lr.tolist()}', match=m, residual=float(err / F))

def _gas_state(st):
    """volatile chemicals + non-condensable gas in g / l (non-dissociating solute allowed beside them); else None"""
    s = st.s
    d = vc.dense_by_phase(s)
    vol, light, heavy, tot = vc.classify(st)
    if not light or not vol: return None
    ch = s.chemicals
    if any(tot[i] and ch._heavy_solutes[k] for k, i in enumerate(ch._heavy_indices)): return None
    if any(a[i] for p, a in d.items() if p not in ('g', 'l') for i in list(vol) + list(ch._light_indices)): return None
    g = d.get('g', np.zeros(len(tot)))
    nv = np.array([tot[i] for i in vol]); gv = np.array([g[i] for i in vol])
    n_gas = float(sum(tot[i] for i in ch._light_indices))
    F = float(nv.sum() + n_gas)
    return vc.ref_for(st.th, vol), nv / F, n_gas / F, gv, nv, F

def check_gas(st, action, obs):
    """ideal package, non-condensable gas present: the split must agree with my Raoult's-law Rachford-Rice solution with a K = infinity member.
    (T,P): every vapour flow within 10 V_tol of the total flow; (T,V)/(P,V): the specified V (= fraction of the volatile chemicals vaporised, the
    library's definition) is bracketed by the reference at the returned T / P -+ 100 tolerances, and the returned flows have that V."""
    pair = action[1]
    if pair not in ('TP', 'TV', 'PV'): return
    gs = _gas_state(st)
    if gs is None: return
    ref, z, za, gv, nv, F = gs
    T = float(st.s.T); P = float(st.s.P)
    m = _m(action, obs, gas=True)
    if pair in ('TV', 'PV'): m = dict(m, fixed=float(action[2]), Vspec=float(action[3]))
    Fv = float(nv.sum())
    with np.errstate(all='ignore'):
        beta, xl, yv, v = vc.flash_with_gas(ref, z, za, T, P)
    if pair == 'TP':
        err = float(np.abs(gv - F * v).max())
        if not err <= 10 * V_TOL * F:
            raise Violation('ideal-RR', f'{action!r} on {st.config!r} (current contents volatile {nv.tolist()}, gas {za * F!r}): vapour flows {gv.tolist()} but Raoult/Rachford-Rice '
                            f'with a non-condensable member gives {(F * v).tolist()}', match=m, residual=err / F)
        return
    V = float(action[3])
    Vs = float(gv.sum() / Fv)
    with np.errstate(all='ignore'):
        if pair == 'PV':
            dlt = 100 * T_TOL
            Vlo = vc.flash_with_gas(ref, z, za, T - dlt, P)[3].sum() * F / Fv; Vhi = vc.flash_with_gas(ref, z, za, T + dlt, P)[3].sum() * F / Fv
        else:
            dlt = 100 * P_TOL
            Vlo = vc.flash_with_gas(ref, z, za, T, P + dlt)[3].sum() * F / Fv; Vhi = vc.flash_with_gas(ref, z, za, T, P - dlt)[3].sum() * F / Fv
    Vmid = float(v.sum() * F / Fv)
    eps = 10 * V_TOL
    if not (Vlo - eps <= V <= Vhi + eps):
        raise Violation('V-spec-point', f'{action!r} on {st.config!r} (volatile {nv.tolist()}, gas {za * F!r}): returned T={T!r} P={P!r}; the reference vaporises {Vmid!r} of the volatile '
                        f'chemicals there (bracket [{Vlo!r}, {Vhi!r}] over +-{dlt}) but V={V!r} was specified', match=m, residual=max(Vlo - V, V - Vhi))
    if not abs(Vs - V) <= eps + abs(Vhi - Vlo):
        raise Violation('V-spec-flows', f'{action!r} on {st.config!r}: the returned flows vaporise {Vs!r} of the volatile chemicals, specified {V!r}; T={T!r} P={P!r}', match=m, residual=abs(Vs - V))

def make_oracle(reference=False, ideal=False, scaling=False):
    def oracle(system, st, action, before, obs):
        if action[0] != 'vle': return
        action = _norm(action, obs)
        check_exact(st, action, obs)
        check_HS(st, action, obs)
        if reference:
            check_V(st, action, obs)
            check_TP(st, action, obs, ideal)
            if ideal: check_gas(st, action, obs)
        elif action[1] == 'TP':
            check_TP_pure(st, action, obs)
        if scaling:
            check_scaling(system, st, action, obs)
    return oracle

K_SCALE = (1e-3, 7.)

def check_scaling(system, st, action, obs):
    pkg, comp, mag, dist = st.config[:4]
    flows = vc.magnitudes(len(comp), mag)
    base = vc.dense_by_phase(st.s)
    total = float(sum(a.sum() for a in base.values()))
    ok = 0
    for k in K_SCALE:
        cfg2 = (pkg, comp, tuple(f * k for f in flows), dist)
        st2 = system.build(cfg2)
        try:
            obs2 = vc.run_call(st2, action)
        except Rejected as r:
            # a documented rejection of the scaled twin (seen only where the specification sits exactly on a branch point, e.g.
            # S equal to the dew value to the last bit): the scaled call is outside the quantifier, nothing to compare
            raise Rejected(f'scaling:scaled-twin:{r.what}', cut=True)
        d2 = vc.dense_by_phase(st2.s)
        for p in set(base) | set(d2):
            a = base.get(p); b = d2.get(p)
            if a is None: a = np.zeros_like(b)
            if b is None: b = np.zeros_like(a)
            bad = np.abs(b - k * a) > 1e-6 * k * np.abs(a) + 1e-9 * k * total
            if bad.any():
                i = int(np.argmax(np.abs(b - k * a)))
                raise Violation('scaling', f'{action!r} on {st.config!r}: phase {p} {st.s.chemicals.IDs[i]} = {a[i]!r}; feed x {k} gives {b[i]!r} '
                                f'= {b[i] / k!r} x {k} (branches {obs["branch"]} / {obs2["branch"]}, T {obs["T"]!r} / {obs2["T"]!r}, P {obs["P"]!r} / {obs2["P"]!r})',
                                match=_m(action, obs, how='flows', k=k, branch=obs['branch']),
                                residual=float(np.abs(b - k * a).max() / (k * total)))
        if not (abs(obs2['T'] - obs['T']) <= 1e-9 * obs['T'] + 100 * T_TOL and abs(obs2['P'] - obs['P']) <= 1e-6 * obs['P'] + 2 * P_TOL):
            raise Violation('scaling', f'{action!r} on {st.config!r}: T, P = {obs["T"]!r}, {obs["P"]!r}; feed x {k} gives {obs2["T"]!r}, {obs2["P"]!r}',
                            match=_m(action, obs, how='TP', k=k), residual=max(abs(obs2['T'] - obs['T']) / obs['T'], abs(obs2['P'] - obs['P']) / obs['P']))
        ok += 1
    st.extra['scaled_ok'] = ok

# ----------------------------------------------------------------------------------------------------------------
# alphabets

T_VALS = (280., 320., 350., 380., 420., 450.)
P_VALS = (2e4, 101325., 3e5, 1e6)
V_VALS = (0.03, 0.25, 0.5, 0.75, 0.97)
F_VALS = (0., 0.1, 0.3, 0.5, 0.7, 0.9, 1.)
X_VALS = (0.3, 0.5, 0.7)
VALS = {'T': T_VALS, 'P': P_VALS, 'V': V_VALS, 'H': F_VALS, 'S': F_VALS, 'x': X_VALS, 'y': X_VALS}
BASEV = {'T': 350., 'P': 101325., 'V': 0.5, 'H': 0.3, 'S': 0.3, 'x': 0.5, 'y': 0.5}
PAIRS = ('TP', 'TV', 'PV', 'PH', 'PS', 'TH', 'TS', 'Tx', 'Px', 'Ty', 'Py')

def vle_calls(binary, pairs=PAIRS):
    out = []
    for pair in pairs:
        if pair[1] in 'xy' and not binary: continue
        for v1 in VALS[pair[0]]:
            for v2 in VALS[pair[1]]:
                out.append(('vle', pair, v1, v2))
    return out

def call_coords(a):
    return (a[1], a[2] == BASEV[a[1][0]], a[3] == BASEV[a[1][1]])

PATTERNS = ('eq', 'lo0', 'lo-1', 'hi0', 'hi-1')

def pattern_flows(k, pat, total=4.0):
    """explicit flows (kmol/hr) of the k present chemicals: every mole fraction >= 0.02"""
    if k == 1: return (total,)
    if pat == 'eq': x = [1. / k] * k
    elif pat in ('lo0', 'lo-1'):
        x = [(1. - 0.02) / (k - 1)] * k; x[0 if pat == 'lo0' else -1] = 0.02
    elif pat in ('hi0', 'hi-1'):
        x = [0.02] * k; x[0 if pat == 'hi0' else -1] = 1. - 0.02 * (k - 1)
    else: raise ValueError(pat)
    return tuple(round(total * xi, 12) for xi in x)

class CompGrid(Grid):
    """Grid whose 'magnitude' coordinate is a composition pattern turned into explicit flows; optional extras
    (small amounts of non-condensable gas / non-volatile solute) appended to the composition."""
    def __init__(self, pkg, vol_comps, patterns_q, patterns_t, dists, calls_fn, call_coords, bases, seed_bases=(), extras=((),), max_dev=2, extra_flow=0.05):
        super().__init__(pkg, vol_comps, patterns_q, patterns_t, dists, calls_fn, call_coords, bases, seed_bases, max_dev)
        self.extras = extras; self.extra_flow = extra_flow

    def _expand(self, comp, pat, extra):
        flows = pattern_flows(len(comp), pat)
        return tuple(comp) + tuple(extra), tuple(flows) + tuple(self.extra_flow for _ in extra)

    def enum_configs(self, system, tier, seed):
        out = []; seen = set()
        pats = self.mags_q if tier == 'quick' else self.mags_t
        bases = self._bases(seed)
        for comp in self.comps:
            for pat in pats:
                if len(comp) == 1 and pat != 'eq': continue
                for extra in self.extras:
                    for dist in self.dists:
                        if tier == 'quick' and min(ndev((comp, pat, extra, dist), b[:4]) for b in bases) > self.max_dev: continue
                        c2, f2 = self._expand(comp, pat, extra)
                        cfg = (self.pkg, c2, f2, dist, (comp, pat, extra))
                        if cfg not in seen:
                            seen.add(cfg); out.append(cfg)
        k = seed % max(len(out), 1)
        return out[k:] + out[:k]

    def enum_actions(self, system, st):
        if st.n_calls >= 1 and system.depth(system.tier) == 1: return []
        cfg = st.config
        calls = self.calls_fn(cfg)
        if system.tier == 'thorough': return calls
        comp, pat, extra = cfg[4]
        coords = (tuple(comp), pat, tuple(extra), cfg[3])
        bases = self._bases(system.seed)
        out = []
        for a in calls:
            cc = self.call_coords(a)
            for b in bases:
                if ndev(coords, b[:4]) + ndev(cc, b[4]) <= self.max_dev:
                    out.append(a); break
        return out

def _binary(cfg):
    return len(cfg[4][0]) == 2 and not cfg[4][2]

def _s_ok(cfg): return vc.entropy_ok_for(cfg[0], cfg[1])

def _calls(cfg):
    calls = vle_calls(_binary(cfg))
    if not _s_ok(cfg): calls = [a for a in calls if 'S' not in a[1]]
    return calls

B = lambda comp, pat, extra, dist, pair: (tuple(comp), pat, tuple(extra), dist, (pair, True, True))

ALC = vc.package_ids('ALC'); HC = vc.package_ids('HC')
DISTS = ('l', 'g', 'half', 'Sl')
FDISTS = ('l', 'half')

FAMILY_GRIDS = [
    CompGrid('ALC', subsets(ALC), ('eq', 'lo0', 'hi-1'), PATTERNS, FDISTS, _calls, call_coords,
             bases=[B(('Methanol', 'Ethanol', 'Propanol'), 'eq', (), 'l', 'TP'), B(('Ethanol', '1-Butanol'), 'lo0', (), 'half', 'PV'),
                    B(ALC, 'hi-1', (), 'l', 'TV')],
             seed_bases=[B(('Methanol', '1-Butanol'), 'eq', (), 'half', 'PH'), B(('Propanol',), 'eq', (), 'l', 'PV'), B(('Methanol', 'Propanol', '1-Butanol'), 'lo0', (), 'l', 'TS')]),
    CompGrid('HC', subsets(HC), ('eq', 'lo0', 'hi-1'), PATTERNS, FDISTS, _calls, call_coords,
             bases=[B(('Hexane', 'Heptane', 'Octane'), 'eq', (), 'l', 'TP'), B(('Benzene', 'Toluene'), 'lo0', (), 'half', 'TV'),
                    B(HC, 'hi-1', (), 'l', 'PV')],
             seed_bases=[B(('Hexane', 'Benzene'), 'eq', (), 'half', 'PS'), B(('Octane',), 'eq', (), 'l', 'TV'), B(('Heptane', 'Octane', 'Toluene'), 'lo0', (), 'l', 'TH')]),
]
IDEAL_GRIDS = [
    CompGrid('Ai', subsets(vc.package_ids('A')), ('eq', 'lo0'), ('eq', 'lo0', 'hi-1'), ('l', 'g'), _calls, call_coords,
             bases=[B(('Water', 'Ethanol', 'Methanol'), 'eq', (), 'l', 'TP'), B(('Water', 'Ethanol'), 'lo0', (), 'g', 'PV')]),
    CompGrid('WOi', subsets(vc.package_ids('WO')), ('eq', 'lo0'), ('eq', 'lo0', 'hi-1'), ('l', 'g'), _calls, call_coords,
             bases=[B(('Water', 'Ethanol', 'Acetone', 'Hexane'), 'eq', (), 'l', 'TP'), B(('Water', 'Hexane'), 'lo0', (), 'g', 'TV')]),
    CompGrid('ALCi', subsets(ALC), ('eq', 'lo0'), ('eq', 'lo0', 'hi-1'), ('l', 'g'), _calls, call_coords,
             bases=[B(('Methanol', 'Ethanol', 'Propanol'), 'eq', (), 'l', 'PV'), B(ALC, 'lo0', (), 'g', 'TP')]),
    CompGrid('HCi', subsets(HC), ('eq', 'lo0'), ('eq', 'lo0', 'hi-1'), ('l', 'g'), _calls, call_coords,
             bases=[B(('Hexane', 'Benzene', 'Toluene'), 'eq', (), 'l', 'TV'), B(HC, 'lo0', (), 'g', 'TP')]),
]
# package ORDER as a configuration axis: ORD = (N2[g], Methanol, Glucose[s], Water, Propanol); only volatile chemicals are fed
IDEAL_GRIDS.append(
    CompGrid('ORDi', subsets(('Methanol', 'Water', 'Propanol')), ('eq', 'lo0'), ('eq', 'lo0', 'hi-1'), ('l', 'g'), _calls, call_coords,
             bases=[B(('Methanol', 'Water', 'Propanol'), 'eq', (), 'l', 'TP'), B(('Water', 'Propanol'), 'lo0', (), 'g', 'PV'), B(('Methanol', 'Propanol'), 'eq', (), 'l', 'TV')]))
# one member above its critical temperature: SC = (Propane [Tc 369.9 K], Hexane, Octane), SCW = (CO2 [Tc 304.1 K], Water, Ethanol); ideal packages
IDEAL_GRIDS.append(
    CompGrid('SCi', [c for c in subsets(vc.package_ids('SC')) if 'Propane' in c and len(c) > 1], ('eq', 'lo0'), ('eq', 'lo0', 'hi-1'), ('l', 'g'), _calls, call_coords,
             bases=[B(('Propane', 'Octane'), 'lo0', (), 'l', 'TP'), B(('Propane', 'Hexane', 'Octane'), 'eq', (), 'g', 'TP')]))
IDEAL_GRIDS.append(
    CompGrid('SCWi', [c for c in subsets(vc.package_ids('SCW')) if 'CO2' in c and len(c) > 1], ('eq', 'lo0'), ('eq', 'lo0', 'hi-1'), ('l', 'g'), _calls, call_coords,
             bases=[B(('CO2', 'Water', 'Ethanol'), 'lo0', (), 'l', 'TP'), B(('CO2', 'Ethanol'), 'eq', (), 'g', 'TP')]))
VLE_VOL = ('Water', 'Ethanol', 'Propanol')
# ideal package WITH a few mol % of non-condensable gas (and solute): VLEi = ideal (Water, Ethanol, Propanol, N2[g], Glucose[s]); 0.2 kmol/hr N2 per 4 kmol/hr volatile = 4.8 mol %
IDEAL_GRIDS.append(
    CompGrid('VLEi', subsets(VLE_VOL, 2, 3), ('eq', 'lo0'), ('eq', 'lo0', 'hi-1'), ('l', 'g'), lambda cfg: vle_calls(False, ('TP', 'TV', 'PV', 'PH', 'TH')), call_coords,
             bases=[B(('Ethanol', 'Propanol'), 'eq', ('N2',), 'l', 'TV'), B(VLE_VOL, 'eq', ('N2', 'Glucose'), 'g', 'TP'), B(('Water', 'Ethanol'), 'lo0', ('N2',), 'l', 'PV')],
             extras=(('N2',), ('N2', 'Glucose')), extra_flow=0.2))
SPEC_GRID = CompGrid('VLE', subsets(VLE_VOL), ('eq', 'lo0', 'hi-1'), PATTERNS, DISTS, _calls, call_coords,
                     bases=[B(('Water', 'Ethanol'), 'eq', ('N2', 'Glucose'), 'l', 'PH'), B(VLE_VOL, 'lo0', (), 'half', 'PS'),
                            B(('Ethanol', 'Propanol'), 'eq', ('N2',), 'g', 'TP'), B(('Water',), 'eq', ('Glucose',), 'l', 'TH')],
                     seed_bases=[B(('Water', 'Propanol'), 'hi-1', ('Glucose',), 'Sl', 'TS'), B(('Ethanol',), 'eq', ('N2',), 'l', 'TV'),
                                 B(VLE_VOL, 'eq', ('N2', 'Glucose'), 'g', 'PV')],
                     extras=((), ('N2',), ('Glucose',), ('N2', 'Glucose')))

class MultiGrid:
    """several grids enumerated as one system"""
    def __init__(self, grids): self.grids = {g.pkg: g for g in grids}
    def enum_configs(self, system, tier, seed):
        out = []
        for g in self.grids.values(): out += g.enum_configs(system, tier, seed)
        return out
    def enum_actions(self, system, st):
        return self.grids[st.config[0]].enum_actions(system, st)

FAMILY = MultiGrid(FAMILY_GRIDS)
IDEAL = MultiGrid(IDEAL_GRIDS)

# ---- non-ideal vapour: Peng-Robinson fugacity coefficients (Thermo(..., Phi=PRFugacityCoefficients)) -------------------------------
# HCpr = the HC chemicals, Dortmund gamma, PR phi.  The reference flash uses its own instance of the same Phi class.  The calls put the
# pressure inside MY envelope ('Tp') at temperatures where the alkanes boil at 2-10 bar (phi deviates from 1 by several per cent).
PHI_CALLS_Q = [('vle', 'Tp', 420., 0.5), ('vle', 'Tp', 450., 0.5), ('vle', 'Tp', 450., 0.05), ('vle', 'TV', 450., 0.5), ('vle', 'PV', 6e5, 0.5)]
PHI_CALLS_T = PHI_CALLS_Q + [('vle', 'Tp', 380., 0.5), ('vle', 'Tp', 450., 0.95), ('vle', 'Tp', 420., 0.05), ('vle', 'TV', 420., 0.25), ('vle', 'PV', 1e6, 0.75),
                             ('vle', 'PV', 3e5, 0.25), ('vle', 'PH', 6e5, 0.5), ('vle', 'TP', 450., 1e6), ('vle', 'TP', 420., 3e5)]
def phi_configs(system, tier, seed):
    if tier == 'quick':
        comps = [('Hexane', 'Octane'), ('Heptane', 'Toluene'), ('Benzene', 'Toluene'), ('Hexane', 'Heptane', 'Octane'), ('Hexane', 'Benzene', 'Toluene'), ('Heptane', 'Octane', 'Toluene')]
        pats = ('eq', 'lo0')
    else:
        comps = subsets(HC, 2, 3) + [('Octane',), tuple(HC)]
        pats = ('eq', 'lo0', 'hi-1')
    out = []
    for c in comps:
        for pat in pats:
            if len(c) == 1 and pat != 'eq': continue
            out.append(_cfg('HCpr', c, pat))
    k = seed % len(out)
    return out[k:] + out[:k]
def phi_actions(system, st):
    if st.n_calls >= 1: return []
    return list(PHI_CALLS_Q if system.tier == 'quick' else PHI_CALLS_T)

# ---- exactly one volatile chemical, (T,P) around its saturation pressure, from both prior phases -------------------------------------------
PURE_REL = (1e-6, -1e-6, 5e-4, -5e-4, 2e-3, -2e-3, 1e-2, -1e-2, 1e-8, -1e-8)
def pure_configs(system, tier, seed):
    out = []
    pure = [('VLE', 'Water'), ('VLE', 'Ethanol'), ('ALC', 'Methanol'), ('ALC', '1-Butanol'), ('HC', 'Hexane'), ('HC', 'Toluene')]
    if tier != 'quick': pure += [('VLE', 'Propanol'), ('ALC', 'Ethanol'), ('ALC', 'Propanol'), ('HC', 'Heptane'), ('HC', 'Octane'), ('HC', 'Benzene'), ('ALCi', 'Methanol'), ('HCi', 'Octane')]
    for pkg, ID in pure:
        for extra in (((), ('Glucose',)) if pkg == 'VLE' else ((),)):
            for dist in ('l', 'g', 'half') if tier != 'quick' else ('l', 'g'):
                out.append(_cfg(pkg, (ID,), 'eq', extra, dist))
    k = seed % len(out)
    return out[k:] + out[:k]
def pure_actions(system, st):
    if st.n_calls >= 1: return []
    Ts = (350.,) if system.tier == 'quick' else (300., 350., 400.)
    rel = PURE_REL[:6] if system.tier == 'quick' else PURE_REL
    return [('vle', 'Tq', T, r) for T in Ts for r in rel]
def pure_oracle(system, st, action, before, obs):
    make_oracle()(system, st, action, before, obs)
def pure_nontrivial(system, st, a, obs):
    return not isinstance(obs, tuple) and obs.get('branch') in ('L', 'V')

# scaling: reduced grid (three flashes per case)
SCALE_PAIRS = ('TP', 'TV', 'PV', 'PH', 'PS', 'TH', 'TS')
def _scale_calls(cfg):
    out = []
    for pair in SCALE_PAIRS:
        for v1 in {'T': (320., 350., 420.), 'P': (2e4, 101325., 1e6)}[pair[0]]:
            for v2 in {'P': (2e4, 101325., 1e6), 'V': (0.03, 0.5, 0.97), 'H': (0., 0.3, 0.9), 'S': (0.1, 0.5, 1.)}[pair[1]]:
                out.append(('vle', pair, v1, v2))
    if not _s_ok(cfg): out = [a for a in out if 'S' not in a[1]]
    return out
def _scale_coords(a):
    return (a[1], a[2] in (350., 101325.), a[3] in (101325., 0.5, 0.3, 0.5))
SCALE_GRIDS = MultiGrid([
    CompGrid('VLE', subsets(VLE_VOL), ('eq', 'lo0'), ('eq', 'lo0', 'hi-1'), ('l', 'half'), _scale_calls, _scale_coords,
             bases=[B(('Water', 'Ethanol'), 'eq', ('N2', 'Glucose'), 'l', 'PH'), B(VLE_VOL, 'lo0', (), 'half', 'TV')],
             extras=((), ('N2', 'Glucose'))),
    CompGrid('HC', subsets(HC, 1, 3) + [tuple(HC)], ('eq', 'lo0'), ('eq', 'lo0', 'hi-1'), ('l',), _scale_calls, _scale_coords,
             bases=[B(('Hexane', 'Benzene'), 'eq', (), 'l', 'TP'), B(HC, 'lo0', (), 'l', 'PS')]),
    CompGrid('ALCi', subsets(ALC, 1, 3), ('eq', 'lo0'), ('eq', 'lo0', 'hi-1'), ('l',), _scale_calls, _scale_coords,
             bases=[B(('Methanol', 'Ethanol'), 'eq', (), 'l', 'PV'), B(('Methanol', 'Ethanol', 'Propanol'), 'lo0', (), 'l', 'TH')]),
])

# ---- histories -----------------------------------------------------------------------------------------------------------------

def _cfg(pkg, comp, pat, extra=(), dist='l'):
    flows = pattern_flows(len(comp), pat)
    return (pkg, tuple(comp) + tuple(extra), tuple(flows) + tuple(0.05 for _ in extra), dist, (tuple(comp), pat, tuple(extra)))

HIS_CONFIGS_Q = [
    _cfg('ALC', ('Methanol', 'Ethanol', 'Propanol'), 'eq'),
    _cfg('HC', ('Hexane', 'Benzene', 'Toluene', 'Octane'), 'lo0', dist='half'),
    _cfg('VLE', ('Water', 'Ethanol'), 'eq', ('N2', 'Glucose')),
    _cfg('HCi', ('Hexane', 'Heptane'), 'eq', dist='g'),
    _cfg('ALC', ('Ethanol',), 'eq'),
]
HIS_CONFIGS_T = HIS_CONFIGS_Q + [
    _cfg('ALC', ALC, 'hi-1', dist='g'),
    _cfg('HC', ('Benzene', 'Toluene'), 'eq', dist='Sl'),
    _cfg('VLE', VLE_VOL, 'lo0', ('N2',), dist='half'),
    _cfg('Ai', ('Water', 'Ethanol', 'Methanol'), 'eq'),
    _cfg('VLE', ('Water',), 'eq', ('Glucose',)),
]
# ordered so that T, P, V and the pair kind move up and down between consecutive calls
HIS_CALLS = [
    ('vle', 'TP', 350., 101325.), ('vle', 'PV', 101325., 0.5), ('vle', 'PH', 101325., 0.3), ('vle', 'TV', 320., 0.97),
    ('vle', 'TP', 420., 1e6), ('vle', 'PS', 2e4, 0.7), ('vle', 'PV', 1e6, 0.03), ('vle', 'TH', 350., 0.7),
    ('vle', 'TP', 280., 2e4), ('vle', 'TV', 420., 0.25), ('vle', 'PH', 3e5, 0.9), ('vle', 'TS', 380., 0.3),
    ('vle', 'TP', 450., 2e4), ('vle', 'TP', 320., 1e6), ('vle', 'PV', 2e4, 0.75), ('vle', 'PV', 3e5, 0.25),
    ('vle', 'TV', 280., 0.5), ('vle', 'TV', 450., 0.03), ('vle', 'PH', 2e4, 0.), ('vle', 'PH', 1e6, 1.),
    ('vle', 'PS', 101325., 0.5), ('vle', 'PS', 1e6, 0.1), ('vle', 'TH', 420., 0.3), ('vle', 'TS', 320., 0.9),
    ('vle', 'TP', 380., 3e5), ('vle', 'PV', 101325., 0.97), ('vle', 'TV', 350., 0.75), ('vle', 'PH', 101325., 0.7),
    ('vle', 'Px', 101325., 0.5), ('vle', 'Ty', 350., 0.5),
]

def his_enum_configs(system, tier, seed):
    c = HIS_CONFIGS_Q if tier == 'quick' else HIS_CONFIGS_T
    k = seed % len(c)
    return c[k:] + c[:k]

def _his_actions(n_q, n_t):
    def f(system, st):
        n = n_q if system.tier == 'quick' else n_t
        out = []
        for a in HIS_CALLS[:n]:
            if a[1][1] in 'xy' and not _binary(st.config): continue
            if 'S' in a[1] and not _s_ok(st.config): continue
            out.append(a)
        return out
    return f

def his_oracle(system, st, action, before, obs):
    pkg = st.extra.get('pkg') or st.config[0]
    ideal = pkg.endswith('i')
    make_oracle(reference=(pkg in ('ALC', 'HC', 'HCpr') or ideal), ideal=ideal)(system, st, action, before, obs)

# ---- reuse of one stream / of the process-global interned solver objects ------------------------------------------------------
# Actions: vle calls at IDENTICAL specifications; 'refill' = empty the stream and fill it with another subset of the package
# (same size, smaller, larger) -- the cached VLE object keeps _nonzero/_index/_K/_V/_T/_P and whatever else it remembers;
# 'pkg' = continue with the same chemicals under the other package (Dortmund <-> ideal) within the same execution, so the
# interned BubblePoint/DewPoint/Gamma objects created by the earlier calls are still registered.
# Sequence rules: the first action is a call; never two non-call actions in a row.

REUSE = {
    # pkg: (start composition, [refills], other package)
    'ALC':  ((('Methanol', 'Ethanol'), (1.6, 2.4)),
             [(('Propanol', '1-Butanol'), (2.2, 1.8)), (('Ethanol', 'Propanol', '1-Butanol'), (1.0, 1.5, 1.5)), (('Methanol', 'Ethanol'), (3.0, 1.0)), (('Propanol',), (4.0,))], 'ALCi'),
    'ALCi': ((('Methanol', 'Ethanol'), (1.6, 2.4)),
             [(('Propanol', '1-Butanol'), (2.2, 1.8)), (('Ethanol', 'Propanol', '1-Butanol'), (1.0, 1.5, 1.5)), (('Methanol', 'Ethanol'), (3.0, 1.0)), (('Propanol',), (4.0,))], 'ALC'),
    'HC':   ((('Hexane', 'Benzene', 'Toluene'), (1.0, 1.5, 1.5)),
             [(('Heptane', 'Octane', 'Toluene'), (1.5, 1.0, 1.5)), (('Hexane', 'Heptane'), (2.0, 2.0)), (('Hexane', 'Heptane', 'Octane', 'Benzene', 'Toluene'), (0.8, 0.8, 0.8, 0.8, 0.8))], 'HCi'),
    'HCi':  ((('Hexane', 'Benzene', 'Toluene'), (1.0, 1.5, 1.5)),
             [(('Heptane', 'Octane', 'Toluene'), (1.5, 1.0, 1.5)), (('Hexane', 'Heptane'), (2.0, 2.0)), (('Hexane', 'Heptane', 'Octane', 'Benzene', 'Toluene'), (0.8, 0.8, 0.8, 0.8, 0.8))], 'HC'),
    'VLEi': ((('Ethanol', 'Propanol', 'N2'), (2.0, 2.0, 0.1)),
             [(('Water', 'Ethanol', 'N2'), (2.0, 2.0, 0.3)), (('Water', 'Ethanol', 'Propanol', 'N2', 'Glucose'), (1.0, 1.5, 1.5, 0.2, 0.2)), (('Ethanol', 'Propanol'), (2.0, 2.0))], 'VLE'),
    'HCpr': ((('Hexane', 'Octane'), (2.0, 2.0)),
             [(('Heptane', 'Toluene'), (2.0, 2.0)), (('Hexane', 'Heptane', 'Octane'), (1.5, 1.0, 1.5))], 'HC'),
    'A':    ((('Water', 'Ethanol'), (2.0, 2.0)), [(('Ethanol', 'Methanol'), (2.0, 2.0)), (('Water', 'Ethanol', 'Methanol'), (1.0, 1.0, 2.0))], 'Ai'),
    'Ai':   ((('Water', 'Ethanol'), (2.0, 2.0)), [(('Ethanol', 'Methanol'), (2.0, 2.0)), (('Water', 'Ethanol', 'Methanol'), (1.0, 1.0, 2.0))], 'A'),
}
# 'Tp' = (T, P) with P at a fraction of the way from MY dew pressure to MY bubble pressure: 0.05 / 0.95 sit just inside the
# envelope, where a stale dew / bubble point object of another package decides the all-vapour / all-liquid shortcut wrongly
REUSE_CALLS = [('vle', 'TV', 350., 0.5), ('vle', 'Tp', 350., 0.05), ('vle', 'Tp', 350., 0.95), ('vle', 'TH', 350., 0.5), ('vle', 'PV', 101325., 0.5),
               ('vle', 'Tp', 350., 0.5), ('vle', 'TP', 350., 101325.), ('vle', 'PH', 101325., 0.5), ('vle', 'TV', 350., 0.03)]

def reuse_configs(system, tier, seed):
    pk = ['ALC', 'ALCi', 'HC', 'HCi', 'VLEi'] if tier == 'quick' else list(REUSE)
    out = []
    for pkg in pk:
        (comp, flows), refills, other = REUSE[pkg]
        for dist in (('l',) if tier == 'quick' else ('l', 'Sl')):
            out.append((pkg, comp, flows, dist, (comp, 'reuse', ())))
    k = seed % len(out)
    return out[k:] + out[:k]

def reuse_actions(system, st):
    n = 5 if system.tier == 'quick' else len(REUSE_CALLS)
    calls = REUSE_CALLS[:n]
    last = st.extra.get('last_kind')
    if last is None and st.n_calls == 0: return calls
    out = list(calls)
    if last == 'vle':
        (comp, flows), refills, other = REUSE[st.config[0]]
        nr = 3 if system.tier == 'quick' else len(refills)
        out += [('refill', c, f) for c, f in refills[:nr]]
        cur = st.extra.get('pkg') or st.config[0]
        out.append(('pkg', other if cur == st.config[0] else st.config[0]))
        # in-place scaling: composition identical (bit-identical for powers of two), magnitude changed, same specifications again
        out += [('scale', 2.0), ('scale', 0.5)] + ([] if system.tier == 'quick' else [('scale', 3.0)])
        # only the NON-PARTITIONING member changes (gas flow x3, /3; solute x4): the set of chemicals present stays the same
        IDs_ = st.s.chemicals.IDs; tot_ = vc.totals(st.s)
        for ID_, fs_ in (('N2', (3.0, 1. / 3.)), ('Glucose', (4.0,))):
            if ID_ in IDs_ and tot_[IDs_.index(ID_)]:
                out += [('edit', ID_, f_) for f_ in fs_]
    return out

def reuse_oracle(system, st, action, before, obs):
    st.extra['last_kind'] = action[0]
    his_oracle(system, st, action, before, obs)

def describe_multi(mg):
    def d(tier):
        return dict(packages=list(mg.grids), compositions={k: len(g.comps) for k, g in mg.grids.items()},
                    patterns={k: list(g.mags_q if tier == 'quick' else g.mags_t) for k, g in mg.grids.items()},
                    bound='deviation<=2 from base points' if tier == 'quick' else 'full product')
    return d

def scale_nontrivial(system, st, a, obs):
    return not isinstance(obs, tuple) and st.extra.get('scaled_ok') == len(K_SCALE) and obs.get('branch') == 'LV'

SYSTEMS = [
    FlashSystem('c04.spec.grid', SPEC_GRID.enum_configs, SPEC_GRID.enum_actions, make_oracle(), 1, 1,
                describe=describe_multi(MultiGrid([SPEC_GRID]))),
    FlashSystem('c04.family.grid', FAMILY.enum_configs, FAMILY.enum_actions, make_oracle(reference=True), 1, 1, describe=describe_multi(FAMILY)),
    FlashSystem('c04.ideal.grid', IDEAL.enum_configs, IDEAL.enum_actions, make_oracle(reference=True, ideal=True), 1, 1, describe=describe_multi(IDEAL)),
    FlashSystem('c04.pure', pure_configs, pure_actions, pure_oracle, 1, 1, nontrivial=pure_nontrivial,
                describe=dict(what='(T,P) flash of exactly one volatile chemical (alone / with Glucose) at P = Psat(T) x (1 + rel), rel = +-1e-6, +-5e-4, +-2e-3 (thorough also +-1e-2, +-1e-8), '
                              'from an all-liquid and an all-vapour feed (thorough: and half/half); oracle: P < Psat - 2e-3 Pa => all vapour, P > Psat + 2e-3 Pa => all liquid')),
    FlashSystem('c04.phi', phi_configs, phi_actions, his_oracle, 1, 1,
                describe=dict(package='HCpr = HC chemicals with Dortmund gamma and Peng-Robinson phi', calls='PHI_CALLS_Q (quick) / PHI_CALLS_T (thorough)',
                              compositions='quick: 3 binaries + 3 ternaries x 2 patterns; thorough: every 2- and 3-subset of HC + Octane + all five, 3 patterns')),
    FlashSystem('c04.scale', SCALE_GRIDS.enum_configs, SCALE_GRIDS.enum_actions, make_oracle(scaling=True), 1, 1,
                describe=describe_multi(SCALE_GRIDS), nontrivial=scale_nontrivial),
    FlashSystem('c04.reuse', reuse_configs, reuse_actions, reuse_oracle, 3, 3,
                describe=dict(alphabet='5 (quick) / 9 (thorough) calls at identical specifications + refills with another chemical subset (same size, '
                              'larger, smaller, same set other composition) + switch Dortmund <-> ideal package on the same chemicals',
                              rule='first action is a call; never two non-call actions in a row')),
    FlashSystem('c04.hist2', his_enum_configs, _his_actions(12, 30), his_oracle, 2, 2,
                describe=dict(alphabet='first 12 (quick) / all 30 (thorough) calls of HIS_CALLS')),
    FlashSystem('c04.hist3', his_enum_configs, _his_actions(5, 8), his_oracle, 3, 3,
                describe=dict(alphabet='first 5 (quick) / first 8 (thorough) calls of HIS_CALLS')),
]
