"""
C02 -- stream energy balance: enthalpy is conserved by mixing / separating and invertible in temperature.

Four systems over the REAL `Stream` / `MultiStream` objects on PKG_A = (Water, Ethanol, Methanol):

  c02.mix      depth 1   inlet sets (1-3 inlets + optional EMPTY inlet) x Q x receiver kind        -> H_out == sum H_in + Q, P_out == min P
  c02.sepout   depth 1   mixture x part x temperatures x pressures                                  -> H_after == H_before - H_part
  c02.setter   depth 1   template x composition x P x {H, h, S} x start temperature x target        -> read-back == assigned, T == T*, idempotence
  c02.history  depth 3 (full alphabet) and c02.history.deep depth 2/4 (reduced alphabet): sequences of {mix, separate_out, set H, set S, set T, scale} on two streams -> the same oracles on non-initial states,
                         + `x.H` as read through the (memoised) property == enthalpy of the concrete state, + solver scratch is left clean

Reference model (DESIGN 1.4): the enthalpy / heat capacity of a concrete state (phase -> flows, T, P) is re-evaluated here from the
pure-component functions `Chemical.H(phase, T, P)`, `Chemical.Cn(phase, T)` as a plain mole-weighted sum; it does not go through
`Stream._get_property`, its memo or the mixture object.  Entropies are compared against a FRESHLY constructed twin stream (same code
path, no history), so that this property does not depend on the form of the ideal mixing term (that is C07's subject).
"""
from __future__ import annotations
import itertools, math
import numpy as np
from mc.engine import System, Violation, Rejected
from mc import fixtures as fx

PROPERTY = 'C02'
RULE = ('depth-1 grids: every enumerated (receiver kind, inlet tuple, Q) / (mixture, part, temperatures) / (template, composition, P, attribute, '
        'start T, target T) is one transition executed on fresh real streams; quick = full product over a core sub-alphabet + all points that '
        'deviate from a base point in <= 2 coordinates of the full alphabet, thorough = full product (n <= 2 inlets) + <= 3 deviations (n = 3). '
        'history layer: BFS over operation sequences on two streams, states merged on the complete stream digests (flows, phases, T, P, memo, '
        'aliasing).  A transition is non-trivial when the code under test had to solve for a temperature (>= 2 non-empty inlets at different '
        'temperatures or Q != 0 / a target different from the current value) ; outcomes distinguish receiver class, phase change, fallback.')
ASSUMPTIONS = [
    'package PKG_A = (Water, Ethanol, Methanol), ideal mixture model (thermosteam default), phases l and g, multi-phase receivers/templates over (g, l)',
    'inlet alphabet: liquid at T in {280, 298.15, 330, 345} K, gas at T in {380, 420, 480} K, P in {1e4, 101325, 1e6, 1e7} Pa, 6 compositions incl. pure, trace (1e-3) and large (1e3) flows, Q in {0, +1e3, -1e3, +1e5} kJ/hr',
    'setter targets are the values a fresh twin has at T* in {250, 280, 298.15, 330, 345, 380, 420, 480, 500} K, i.e. reachable targets inside the stated range; nothing is claimed between grid points',
    'the reference enthalpy is the mole-weighted sum of Chemical.H (ideal mixture); excess energies are off (library default)',
    'third-party numerics (thermo.HeatCapacityLiquid antiderivatives, flexsolve) are trusted; their measured float noise enters the entropy tolerance explicitly (TOLERANCES.noise_factor)',
    'vle=True mixing and conserve_phases=True are not explored',
]
T_TOL = 1e-6
TOLERANCES = {
    'T_tol_solver': T_TOL,
    'H_balance': '10 * C_out * T_tol + 1e-12 * sum|H_in|   [kJ/hr]',
    'H_readback': '10 * C * T_tol + noise_factor * eta_H',
    'S_readback': '10 * (C / T) * T_tol + noise_factor * eta_S   (eta = measured deviation of the twin\'s S(T) from local linearity over T +- 0.016 K: float noise of the third-party antiderivative)',
    'noise_factor': 4.0,
    'T_target_H': 1e-5,
    'T_idempotent': 'T_tol + noise_factor * eta / (df/dT)   (a setter cannot locate T better than the resolution of the function it inverts)',
    'P_min': 'exact',
    'H_read_vs_state': 1e-9,
}

CHEMS = ('Water', 'Ethanol', 'Methanol')
COMPS = [(1., 0., 0.), (1., 2.5, 0.375), (0., 0., 1.), (1000., 0., 1e-3), (0.375, 1., 2.5), (0., 2.5, 0.)]
TEMPLATES = [('l', 280.), ('l', 298.15), ('l', 330.), ('l', 345.), ('g', 380.), ('g', 420.), ('g', 480.)]
TEMPLATES_X = TEMPLATES + [('m', 345.), ('m', 380.)]     # thorough: mixed-phase (g + l, both holding material) inlets as well
PRESSURES = [1e4, 101325., 1e6, 1e7]
QS = [0., 1e3, -1e3, 1e5]
RECEIVERS = ['single-l', 'single-g', 'multi']
TGRID = [250., 280., 298.15, 330., 345., 380., 420., 480., 500.]
TGRID_X = TGRID + [275., 300., 325., 350., 375., 400., 425., 450., 475.]      # thorough: 25 K steps in addition (appended: indices of TGRID keep their meaning)
# core sub-alphabets (quick: full product over these)
CORE_TPL = [1, 3, 5]            # l 298.15, l 345, g 420
CORE_P = [1, 2]
CORE_COMP = [0, 1, 2]
CORE_Q = [0, 1]

_ths = {}
_PKG = 'ideal'
def set_pkg(pkg):
    """select the mixture model of PKG_A used by every helper below: 'ideal' (IdealMixture, thermosteam's default) or 'PR' (the
    Peng-Robinson EOSMixture, whose solver scratch `mixture._free_energy_args` is REAL hidden state shared by every stream of the package)"""
    global _PKG
    _PKG = pkg

def _thermo(pkg=None):
    pkg = pkg or _PKG
    if pkg not in _ths:
        base = fx.thermo('A')
        if pkg == 'ideal': _ths[pkg] = base
        else:
            tmo = fx.tmo()
            _ths[pkg] = tmo.Thermo(base.chemicals, mixture=tmo.PRMixture.from_chemicals(base.chemicals))
    return _ths[pkg]

class clean_scratch:
    """reference evaluations run with the mixture's solver scratch emptied (and put back afterwards): the reference must describe the
    concrete state of a stream, not whatever an earlier solve on ANOTHER stream left in the shared mixture object"""
    def __enter__(self):
        self.fea = getattr(_thermo().mixture, '_free_energy_args', None)
        self.saved = dict(self.fea) if self.fea is not None else None
        if self.fea is not None: self.fea.clear()
    def __exit__(self, *exc):
        if self.fea is not None:
            self.fea.clear(); self.fea.update(self.saved)

def scratch_digest():
    fea = getattr(_thermo().mixture, '_free_energy_args', None)
    if not fea: return ()
    out = []
    for ph in sorted(fea):
        try:
            eos, eos_mol, kw = fea[ph]
            out.append((ph, fx.r12(eos_mol), tuple(fx.r12(z) for z in kw.get('zs', ())), fx.r12(kw.get('P', 0.))))
        except Exception:
            out.append((ph, repr(type(fea[ph]))))
    return tuple(out)


# ---- process-global state of the solver module: mutable default arguments --------------------------------------------------------------
_DEFAULTS0 = None
def _solver_functions():
    import types, sys
    mod = sys.modules['thermosteam.mixture.mixture']
    out = []
    for nm, obj in sorted(vars(mod).items()):
        if isinstance(obj, types.FunctionType) and obj.__module__ == mod.__name__:
            out.append((nm, obj))
        elif isinstance(obj, type) and obj.__module__ == mod.__name__:
            for k, f in sorted(vars(obj).items()):
                if isinstance(f, types.FunctionType): out.append((f'{nm}.{k}', f))
    return out

def _mutable(x): return isinstance(x, (list, dict, set, bytearray))

def record_defaults():
    """import-time value of every default argument of thermosteam.mixture.mixture's functions that is a mutable container (a default list /
    dict survives between calls: process-global solver state).  Recorded once, before any solve."""
    global _DEFAULTS0
    if _DEFAULTS0 is not None: return
    import copy
    fx.tmo()
    rec = {}
    for nm, f in _solver_functions():
        d = f.__defaults__ or (); kd = f.__kwdefaults__ or {}
        if any(_mutable(x) for x in d) or any(_mutable(x) for x in kd.values()):
            rec[nm] = (copy.deepcopy(d), copy.deepcopy(kd))
    _DEFAULTS0 = rec

def reset_defaults():
    """put those containers back to their import-time contents IN PLACE (the function keeps referring to the same object)"""
    import copy
    record_defaults()
    if not _DEFAULTS0: return
    fs = dict(_solver_functions())
    for nm, (d0, kd0) in _DEFAULTS0.items():
        f = fs[nm]
        for cur, ini in list(zip(f.__defaults__ or (), d0)) + [((f.__kwdefaults__ or {}).get(k), v) for k, v in kd0.items()]:
            if isinstance(cur, list): cur[:] = copy.deepcopy(ini)
            elif isinstance(cur, (dict, set)): cur.clear(); cur.update(copy.deepcopy(ini))

def defaults_digest():
    if not _DEFAULTS0: return ()
    fs = dict(_solver_functions())
    out = []
    for nm in sorted(_DEFAULTS0):
        f = fs[nm]
        vals = [x for x in (f.__defaults__ or ()) if _mutable(x)] + [x for x in (f.__kwdefaults__ or {}).values() if _mutable(x)]
        out.append((nm, repr([[fx.r12(v) if isinstance(v, float) else v for v in x] if isinstance(x, list) else x for x in vals])))
    return tuple(out)

_warmed = False
def _warm():
    """evaluate every property model once in the master process, so that lazily initialised third-party correlation data is in the same
    state in every forked worker (results must not depend on which worker evaluates a transition)"""
    global _warmed
    if _warmed: return
    record_defaults()
    _thermo()
    for kind in ('l', 'g', 'm'):
        for T in (260., 350., 490.):
            try:
                s = mk_template(kind, T, 101325., (1., 1., 1.))
                s.H, s.S, s.C
                s.H = s.H + 10.; s.S = s.S
            except Exception:
                pass        # warming must never decide anything: a library exception here is met again, and classified, inside a step
    reset_defaults()
    _warmed = True

# ---- building real streams -------------------------------------------------------------------------------------------------

def mk_single(phase, T, P, flows):
    tmo = fx.tmo()
    kw = {c: f for c, f in zip(CHEMS, flows) if f}
    return tmo.Stream(None, thermo=_thermo(), phase=phase, T=T, P=P, **kw)

def mk_multi(T, P, lflows, gflows):
    tmo = fx.tmo()
    kw = {}
    l = [(c, f) for c, f in zip(CHEMS, lflows) if f]; g = [(c, f) for c, f in zip(CHEMS, gflows) if f]
    if l: kw['l'] = l
    if g: kw['g'] = g
    return tmo.MultiStream(None, thermo=_thermo(), phases=('g', 'l'), T=T, P=P, **kw)

def mk_receiver(kind):
    if kind == 'single-l': return mk_single('l', 298.15, 101325., (0, 0, 0))
    if kind == 'single-g': return mk_single('g', 400., 101325., (0, 0, 0))
    if kind == 'multi': return mk_multi(298.15, 101325., (0, 0, 0), (0, 0, 0))
    raise ValueError(kind)

def mk_template(kind, T, P, comp):
    """stream templates of the setter / history layers"""
    if kind == 'l' or kind == 'g': return mk_single(kind, T, P, comp)
    if kind == 'm': return mk_multi(T, P, comp, comp[::-1])          # both phases hold material
    if kind == 'mg': return mk_multi(T, P, (0, 0, 0), comp)          # multi-phase object, all material in the gas phase (smooth S(T))
    raise ValueError(kind)


# ---- reference model ----------------------------------------------------------------------------------------------------------

class Snap:
    """concrete thermodynamic state of a stream: phase -> dense flows (package order), T, P"""
    __slots__ = ('flows', 'T', 'P', 'cls', 'chems')
    def __init__(self, s):
        self.flows = {p: a.copy() for p, a in fx.dense(s).items()}
        self.T = float(s.T); self.P = float(s.P); self.cls = type(s).__name__
        self.chems = s.chemicals.tuple           # the stream's own package (inlets may be defined on another package than the receiver)
    @property
    def molA(self):
        """total flows per chemical in the order of PKG_A (matched by CAS)"""
        tot = self.mol
        by = {c.CAS: float(x) for c, x in zip(self.chems, tot)}
        return np.array([by.get(c.CAS, 0.) for c in _thermo().chemicals.tuple])
    @property
    def total(self): return float(sum(a.sum() for a in self.flows.values()))
    @property
    def mol(self): return sum(self.flows.values())
    def phases_present(self): return tuple(sorted(p for p, a in self.flows.items() if a.any()))
    def jsonable(self):
        return dict(cls=self.cls, T=self.T, P=self.P, flows={p: a.tolist() for p, a in self.flows.items() if a.any()})

def H_ref(sn, T=None):
    """kJ/hr: sum_phase sum_i n_i * H_i(phase, T, P)   (J/mol * kmol/hr)"""
    T = sn.T if T is None else T
    if _PKG != 'ideal':
        # EOS package: same mixture code, evaluated directly on the concrete state with an empty scratch (differential reference)
        mix = _thermo().mixture
        with clean_scratch():
            return float(sum(mix.H(p, a, T, sn.P) for p, a in sn.flows.items() if a.any()))
    chems = sn.chems
    return float(sum(n * chems[i].H(p, T, sn.P) for p, a in sn.flows.items() for i, n in enumerate(a) if n))

def C_ref(sn, T=None):
    T = sn.T if T is None else T
    if _PKG != 'ideal':
        mix = _thermo().mixture
        with clean_scratch():
            return float(sum(mix.Cn(p, a, T, sn.P) for p, a in sn.flows.items() if a.any()))
    chems = sn.chems
    return float(sum(n * chems[i].Cn(p, T) for p, a in sn.flows.items() for i, n in enumerate(a) if n))

def twin(sn, T=None):
    """freshly constructed stream with the same concrete state (no history, empty memo)"""
    T = sn.T if T is None else T
    ph = [p for p in sn.flows]
    if sn.cls == 'MultiStream' or len(ph) > 1:
        tmo = fx.tmo()
        kw = {p: [(c, f) for c, f in zip(CHEMS, a) if f] for p, a in sn.flows.items() if a.any()}
        return tmo.MultiStream(None, thermo=_thermo(), phases=tuple(ph), T=T, P=sn.P, **kw)
    return mk_single(ph[0], T, sn.P, sn.flows[ph[0]])

def S_twin(sn, T=None):
    with clean_scratch():
        return float(twin(sn, T).S)

def noise(f, T, C_over=None):
    """float noise of a function of temperature near T: largest deviation from the secant through T-8d .. T+8d (d = 2e-3 K).
    The curvature contribution over that span (f'' h^2 / 2 with h = 0.016 K) is ~1e-7 of C, i.e. 1 % of the solver tolerance, so what
    remains is rounding noise of the third-party antiderivatives."""
    d = 2e-3
    xs = [T + k * d for k in range(-8, 9)]
    ys = [f(x) for x in xs]
    slope = (ys[-1] - ys[0]) / (xs[-1] - xs[0])
    return max(abs(y - (ys[0] + slope * (x - xs[0]))) for x, y in zip(xs, ys))


def free_energy_args_clean():
    m = _thermo().mixture
    fea = getattr(m, '_free_energy_args', None)
    return fea is None or len(fea) == 0


def classify_exc(e):
    return type(e).__name__

UNDOCUMENTED = (TypeError, IndexError, AttributeError, KeyError, UnboundLocalError, NameError, ZeroDivisionError, RecursionError)


# ---- oracles shared by the depth-1 layers and the history layer ------------------------------------------------------------------------

def check_mix(receiver, inlets, Q, match_extra=None):
    """run receiver.mix_from(inlets, Q=Q) against the model; returns an observation tuple."""
    before = [Snap(i) for i in inlets]
    nonempty = [b for b in before if b.total > 0.]
    H_in = [H_ref(b) for b in nonempty]
    rc0 = type(receiver).__name__
    # classifying fields: the branch of Stream.mix_from (0 / 1 / >=2 non-empty inlets), whether heat is added, whether the receiver is
    # itself an inlet.  Receiver kind, phases, pressures ... go to `detail`.
    m = dict(n_nonempty=min(len(nonempty), 2), Q_nonzero=bool(Q != 0.), self_inlet=any(i is receiver for i in inlets))
    if any(b.chems is not _thermo().chemicals.tuple and tuple(c.ID for c in b.chems) != tuple(c.ID for c in _thermo().chemicals.tuple) for b in nonempty):
        m['cross_package'] = True
    info = dict(recv=rc0, phases=''.join(sorted(set(''.join(b.phases_present()) for b in nonempty))))
    if match_extra: info.update(match_extra)
    try:
        receiver.mix_from(inlets, energy_balance=True, Q=Q)
    except UNDOCUMENTED as e:
        raise Violation('unexpected-exception', f'mix_from raised {type(e).__name__}: {e}', match=dict(m, op='mix', exc=type(e).__name__),
                        detail=dict(inlets=[b.jsonable() for b in before], Q=Q, **info))
    except Exception as e:
        raise Rejected(f'mix:{type(e).__name__}', cut=True)
    after = Snap(receiver)
    if not nonempty:
        if after.total != 0.:
            raise Violation('mix-empty', 'mixing only empty inlets left material in the receiver', match=m)
        return ('mix', 'empty')
    expected = sum(H_in) + Q
    H_out = H_ref(after)
    C_out = C_ref(after)
    tol = 10. * abs(C_out) * T_TOL + 1e-12 * (sum(abs(h) for h in H_in) + abs(Q))
    info['recv_after'] = after.cls
    if not (abs(H_out - expected) <= tol):
        raise Violation('H-balance', f'H_out - (sum H_in + Q) = {H_out - expected:.6g} kJ/hr (tol {tol:.3g}); H_out={H_out:.9g}, sum H_in={sum(H_in):.9g}, Q={Q}; '
                        f'T_out={after.T:.6f}', match=m, residual=abs(H_out - expected),
                        detail=dict(inlets=[b.jsonable() for b in before], Q=Q, after=after.jsonable(), H_in=H_in, H_out=H_out, **info))
    if len(nonempty) == 1 and Q == 0. and after.cls == 'Stream' and nonempty[0].cls == 'Stream' and after.phases_present() != nonempty[0].phases_present():
        raise Violation('single-inlet-phase', f'one non-empty inlet in phase {nonempty[0].phases_present()}: receiver ended in {after.phases_present()} '
                        f'(T={after.T}, P={after.P})', match=m, detail=dict(inlets=[b.jsonable() for b in before], after=after.jsonable(), **info))
    Pmin = min(b.P for b in nonempty)
    if after.P != Pmin:
        raise Violation('P-min', f'P_out={after.P} but the lowest pressure among the non-empty inlets is {Pmin}', match=m,
                        detail=dict(inlets=[b.jsonable() for b in before], after=after.jsonable()))
    read = float(receiver.H)
    if not (abs(read - H_out) <= 1e-9 * max(abs(H_out), abs(C_out) * 1.) + 1e-9):
        raise Violation('H-read-vs-state', f'receiver.H reads {read:.9g} but the enthalpy of its state is {H_out:.9g}', match=m, residual=abs(read - H_out))
    mol_in = sum(b.molA for b in nonempty)
    if not np.allclose(after.molA, mol_in, rtol=1e-12, atol=0):
        raise Violation('flows', f'receiver flows {after.molA.tolist()} != summed inlets {mol_in.tolist()}', match=m)
    solved = len(nonempty) >= 2 and (len({b.T for b in nonempty}) > 1 or Q != 0.)
    return ('mix', len(nonempty), after.cls, after.phases_present(), bool(solved or (Q != 0.)), _bucket(after.T))

def _bucket(T):
    return '<250' if T < 250 else ('>500' if T > 500 else 'in')


def check_sep(mixture, part, match_extra=None):
    b_m, b_p = Snap(mixture), Snap(part)
    m = dict(recv=b_m.cls, part=b_p.cls, cross_phase=bool(set(b_p.phases_present()) - set(b_m.phases_present())))
    Hm, Hp = H_ref(b_m), H_ref(b_p)
    # model-level precondition (the quantifier: temperatures inside the validity range of the property models): the remainder, kept in the
    # phase(s) of the mixture, must be able to hold H_before - H_part at some temperature in [200, 600] K
    rest = Snap(mixture)
    if b_m.cls == 'Stream':
        ph = next(iter(b_m.flows)); rest.flows = {ph: b_m.mol - b_p.mol}
    else:
        rest.flows = {p: b_m.flows[p] - b_p.flows.get(p, 0.) for p in b_m.flows}
    lo, hi = H_ref(rest, 200.), H_ref(rest, 600.)
    reachable = lo <= Hm - Hp <= hi
    try:
        mixture.separate_out(part, energy_balance=True)
    except UNDOCUMENTED as e:
        raise Violation('unexpected-exception', f'separate_out raised {type(e).__name__}: {e}', match=dict(m, op='sep', exc=type(e).__name__),
                        detail=dict(mixture=b_m.jsonable(), part=b_p.jsonable()))
    except Exception as e:
        if not reachable:
            raise Rejected('sep:H_before - H_part not reachable by the remainder within 200-600 K:' + type(e).__name__, cut=True)
        raise Violation('sep-raised', f'separate_out raised {type(e).__name__}: {str(e)[:200]} although the remainder can hold H_before - H_part at a '
                        f'temperature inside 200-600 K', match=dict(m, exc=type(e).__name__), detail=dict(mixture=b_m.jsonable(), part=b_p.jsonable()))
    after = Snap(mixture)
    H_out = H_ref(after); C_out = C_ref(after)
    expected = Hm - Hp
    tol = 10. * abs(C_out) * T_TOL + 1e-12 * (abs(Hm) + abs(Hp))
    if not (abs(H_out - expected) <= tol):
        raise Violation('sep-H-balance', f'H_after - (H_before - H_part) = {H_out - expected:.6g} kJ/hr (tol {tol:.3g}); T_after={after.T:.6f} phases={after.phases_present()}',
                        match=m, residual=abs(H_out - expected), detail=dict(mixture=b_m.jsonable(), part=b_p.jsonable(), after=after.jsonable()))
    if not np.allclose(after.mol, b_m.mol - b_p.mol, rtol=1e-9, atol=1e-12 * b_m.total):
        raise Violation('flows', f'flows after separate_out {after.mol.tolist()} != {(b_m.mol - b_p.mol).tolist()}', match=m)
    read = float(mixture.H)
    if not (abs(read - H_out) <= 1e-9 * max(abs(H_out), abs(C_out)) + 1e-9):
        raise Violation('H-read-vs-state', f'stream.H reads {read:.9g} but the enthalpy of its state is {H_out:.9g}', match=m, residual=abs(read - H_out))
    return ('sep', after.cls, after.phases_present(), _bucket(after.T))


def check_set(s, attr, Tstar, match_extra=None, target=None, prep='fresh'):
    """assign the value a fresh twin has at T* to s.<attr>; attr in H, h, S.  With `target` given (a value READ from this very stream
    while it was at T*, before its state was moved by something other than the setter) that value is assigned instead."""
    b = Snap(s)
    kind = ('mg' if b.phases_present() == ('g',) else 'm') if b.cls == 'MultiStream' else next(iter(b.flows))
    m = dict(attr=attr, kind=kind, prep=prep)
    F = b.total
    if target is not None: pass
    elif attr == 'H': target = H_ref(b, Tstar)
    elif attr == 'h': target = H_ref(b, Tstar) / F
    else: target = S_twin(b, Tstar)
    phases0 = b.phases_present()
    try:
        setattr(s, attr, target)
    except RecursionError as e:
        raise Violation('setter-raised', f'{attr} setter raised RecursionError (T0={b.T}, T*={Tstar})', match=dict(m, exc='RecursionError'),
                        detail=dict(state=b.jsonable(), Tstar=Tstar, target=target))
    except Exception as e:
        raise Violation('setter-raised', f'{attr} setter raised {type(e).__name__}: {str(e)[:200]} (T0={b.T}, T*={Tstar}); the target is the value of '
                        f'the same stream at T*', match=dict(m, exc=type(e).__name__), detail=dict(state=b.jsonable(), Tstar=Tstar, target=target))
    a = Snap(s)
    changed = a.phases_present() != phases0 or a.cls != b.cls
    m['phase_changed'] = bool(changed)
    if not np.array_equal(a.mol, b.mol) or a.P != b.P:
        raise Violation('setter-side-effect', f'{attr} setter changed flows or pressure', match=m)
    if not (150. <= a.T <= 1500.):
        # far outside every property model: the state cannot be evaluated reliably (and a twin cannot be built at T <= 0)
        raise Violation(f'{attr}-readback', f'assigned {attr}={target:.9g} (value at T*={Tstar}) from T0={b.T}: the setter returned normally with '
                        f'T={a.T!r}, phases {phases0}->{a.phases_present()}', match=m, residual=abs(a.T - Tstar),
                        detail=dict(state=b.jsonable(), Tstar=Tstar, target=target, after=a.jsonable()))
    if attr in ('H', 'h'):
        scale = 1. if attr == 'H' else 1. / F
        got = H_ref(a) * scale
        C = C_ref(a) * scale
        eta = noise(lambda T: H_ref(a, T) * scale, a.T)
        tol = 10. * abs(C) * T_TOL + TOLERANCES['noise_factor'] * eta + 1e-12 * abs(target)
    else:
        got = S_twin(a)
        C = C_ref(a)
        eta = noise(lambda T: S_twin(a, T), a.T)
        tol = 10. * abs(C) / a.T * T_TOL + TOLERANCES['noise_factor'] * eta + 1e-12 * abs(target)
    det = dict(state=b.jsonable(), Tstar=Tstar, target=target, after=a.jsonable(), value_after=got, eta=eta)
    if not (abs(got - target) <= tol):
        raise Violation(f'{attr}-readback', f'assigned {attr}={target:.9g} (value at T*={Tstar}) from T0={b.T}: state after has {attr}={got:.9g} '
                        f'(diff {got - target:.3g}, tol {tol:.3g}), T={a.T:.6f}, phases {phases0}->{a.phases_present()}', match=m,
                        residual=abs(got - target), detail=det)
    read = float(getattr(s, attr))
    if not (abs(read - got) <= 1e-9 * max(abs(got), abs(C)) + 1e-9):
        raise Violation(f'{attr}-read-vs-state', f's.{attr} reads {read:.9g} but the {attr} of its state is {got:.9g}', match=m, residual=abs(read - got))
    if attr in ('H', 'h') and not changed and not (abs(a.T - Tstar) <= TOLERANCES['T_target_H']):
        raise Violation('T-target', f'{attr} assigned the value at T*={Tstar} moved T to {a.T!r}', match=m, residual=abs(a.T - Tstar), detail=det)
    # idempotence: assigning the value the stream now reads must not move T
    T1 = a.T
    try:
        setattr(s, attr, float(getattr(s, attr)))
    except Exception as e:
        raise Violation('setter-raised', f'{attr} setter raised {type(e).__name__} when assigned the value it already has', match=dict(m, exc=type(e).__name__, idem=True))
    slope = abs(C) if attr in ('H', 'h') else abs(C) / a.T
    tolT = T_TOL + TOLERANCES['noise_factor'] * eta / slope
    a2 = Snap(s)
    if a2.phases_present() != a.phases_present() or a2.cls != a.cls:
        m = dict(m, phase_changed=True)
    if not (abs(float(s.T) - T1) <= tolT):      # (also catches nan)
        raise Violation('idempotence', f'assigning {attr} the value it already has moved T from {T1!r} to {float(s.T)!r}', match=m, residual=abs(float(s.T) - T1), detail=det)
    return ('set', attr, kind, bool(changed), abs(b.T - Tstar) > 1e-9)


PREPS = ['fresh', 'read-moveT', 'noread-moveT', 'read-moveTP', 'read-scale-moveT']

def prepared(kind, T0, Tstar, P, comp, attr, prep):
    """stream that sits at T0 when the setter is called, and the target to assign.
    fresh            built at T0; target = value of a twin at T*                                   (no history)
    read-moveT       built at T*, s.<attr> READ (fills the memo), then s.T = T0 directly; target = the value read
    noread-moveT     built at T*, s.T = T0 directly without any read; target = value of a twin at T*
    read-moveTP      as read-moveT, with the pressure moved away and back around the temperature change
    read-scale-moveT as read-moveT, value read, flows doubled then halved again (exact in binary), T moved"""
    if prep == 'fresh':
        return mk_template(kind, T0, P, comp), None
    s = mk_template(kind, Tstar, P, comp)
    v = None
    if prep.startswith('read'):
        v = float(getattr(s, attr))
    if prep == 'read-moveTP':
        s.P = 2. * P; s.T = T0; s.P = P
    elif prep == 'read-scale-moveT':
        s.scale(2.); s.T = T0; s.scale(0.5)
    else:
        s.T = T0
    return s, v

# ---- enumeration helpers -----------------------------------------------------------------------------------------------------------------

def deviations(alphabets, base, k):
    """all index tuples that differ from `base` in at most k coordinates"""
    n = len(alphabets)
    out = set()
    out.add(tuple(base))
    for r in range(1, k + 1):
        for coords in itertools.combinations(range(n), r):
            choices = [[v for v in range(alphabets[c]) if v != base[c]] for c in coords]
            for vals in itertools.product(*choices):
                p = list(base)
                for c, v in zip(coords, vals): p[c] = v
                out.add(tuple(p))
    return out


# =========================================================================================================================================
class MixGrid(System):
    """config = (receiver kind, extra empty inlet, first inlet); actions = (other inlets..., Q)"""
    name = 'c02.mix'
    nontrivial_per_config = True

    def __init__(self):
        self._acts = {}

    def warm(self): _warm()
    def reset_globals(self): fx.reset_globals(_thermo()); reset_defaults()
    def depth(self, tier): return 1

    # an inlet is (tpl index, P index, comp index)
    def _points(self, tier, seed):
        nT, nP, nC, nQ = len(TEMPLATES), len(PRESSURES), len(COMPS), len(QS)
        nTx = len(TEMPLATES_X)
        pts = set()
        inl_all = list(itertools.product(range(nT), range(nP), range(nC)))
        inl_core = list(itertools.product(CORE_TPL, CORE_P, CORE_COMP))
        rot = seed % nC
        def rotc(c): return (c + rot) % nC
        # n = 1: full product in both tiers
        for rk in range(3):
            for ex in (0, 1):
                for i1 in inl_all:
                    for q in range(nQ): pts.add((rk, ex, (i1,), q))
        if tier == 'quick':
            for rk in range(3):
                for ex in (0, 1):
                    for i1 in inl_core:
                        for i2 in inl_core:
                            for q in CORE_Q: pts.add((rk, ex, (i1, i2), q))
            bases2 = [(0, 0, 1, 1, rotc(1), 3, 2, rotc(0), 1), (2, 1, 5, 0, rotc(2), 2, 3, rotc(4), 2)]
            alph2 = [3, 2, nT, nP, nC, nT, nP, nC, nQ]
            for b in bases2:
                for p in deviations(alph2, b, 2):
                    pts.add((p[0], p[1], ((p[2], p[3], p[4]), (p[5], p[6], p[7])), p[8]))
            kdev3 = 2
        else:
            # n <= 2: full product over liquid, gas AND mixed-phase inlets x all P x all compositions x all Q
            inl_x = list(itertools.product(range(nTx), range(nP), range(nC)))
            for rk in range(3):
                for ex in (0, 1):
                    for i1 in inl_x:
                        for q in range(nQ): pts.add((rk, ex, (i1,), q))
                        for i2 in inl_x:
                            for q in range(nQ): pts.add((rk, ex, (i1, i2), q))
            # n = 3: full product over a reduced menu (l 298.15, l 345, g 420, g 480) x (101325, 1e6) x 3 compositions x all Q
            inl_m = list(itertools.product([1, 3, 5, 6], CORE_P, CORE_COMP))
            for rk in range(3):
                for ex in (0, 1):
                    for i1 in inl_m:
                        for i2 in inl_m:
                            for i3 in inl_m:
                                for q in range(nQ): pts.add((rk, ex, (i1, i2, i3), q))
            kdev3 = 3
        # cross-package inlets (first inlet on PKG_B): n = 1 full product over the 7 single-phase templates x 4 P x the 3 compositions that
        # have Water or Ethanol, and n = 2 with a PKG_A second inlet (quick: 18-inlet core menu; thorough: the 24-inlet menu, every PKG_B first inlet)
        XC = [0, 1, 5]
        inl_b = [(t, p_, c, 'B') for t in range(nT) for p_ in range(nP) for c in XC]
        second = inl_core if tier == 'quick' else list(itertools.product([1, 3, 5, 6], CORE_P, CORE_COMP))     # thorough: the 24-inlet menu
        firstb = [(t, p_, c, 'B') for t in CORE_TPL for p_ in CORE_P for c in XC] if tier == 'quick' else inl_b
        for rk in range(3):
            for ex in (0, 1):
                for i1 in inl_b:
                    for q in range(nQ): pts.add((rk, ex, (i1,), q))
                for i1 in firstb:
                    for i2 in second:
                        for q in (CORE_Q if tier == 'quick' else range(nQ)): pts.add((rk, ex, (i1, i2), q))
        # n = 3: fixed base points (not rotated by the seed), so that quick (<= 2 deviations) is a subset of thorough (<= 3 deviations)
        # whatever seeds the two tiers are run with; the n = 2 bases may rotate because thorough holds the full n = 2 product
        bases3 = [(0, 0, 1, 1, 1, 3, 2, 0, 5, 0, 2, 1), (2, 1, 4, 3, 3, 0, 1, 5, 2, 2, 1, 2),
                  (1, 0, 6, 1, 4, 5, 0, 1, 1, 1, 0, 3)]
        alph3 = [3, 2, nT, nP, nC, nT, nP, nC, nT, nP, nC, nQ]
        for b in bases3:
            for p in deviations(alph3, b, kdev3):
                pts.add((p[0], p[1], ((p[2], p[3], p[4]), (p[5], p[6], p[7]), (p[8], p[9], p[10])), p[11]))
        return pts

    def configs(self, tier, seed):
        acts = {}
        for (rk, ex, inl, q) in self._points(tier, seed):
            acts.setdefault((rk, ex, inl[0]), []).append((inl[1:], q))
        for k in acts: acts[k].sort()
        self._acts = acts
        cfgs = sorted(acts)
        k = seed % len(cfgs)
        return cfgs[k:] + cfgs[:k]

    def describe(self, tier):
        return dict(points=sum(len(v) for v in self._acts.values()))

    def build(self, config):
        set_pkg('ideal')
        return dict(config=config, done=False)

    def actions(self, st):
        if st['done']: return []
        return self._acts.get(tuple(st['config']), [])

    def canon(self, st):
        return (st['config'], st.get('last'))

    @staticmethod
    def _inlet(i):
        if len(i) > 3:         # inlet defined on PKG_B = (Ethanol, Water): another package, other chemical order, no Methanol
            t, p, c = i[:3]
            ph, T = TEMPLATES_X[t]
            w, e, _ = COMPS[c]
            kw = {k: v for k, v in (('Water', w), ('Ethanol', e)) if v}
            return fx.tmo().Stream(None, thermo=fx.thermo('B'), phase=ph, T=T, P=PRESSURES[p], **kw)
        t, p, c = i
        ph, T = TEMPLATES_X[t]
        if ph == 'm': return mk_multi(T, PRESSURES[p], COMPS[c], COMPS[c][::-1])
        return mk_single(ph, T, PRESSURES[p], COMPS[c])

    def step(self, st, a):
        rk, ex, i1 = st['config']
        others, q = a
        inl = [self._inlet(i1)] + [self._inlet(i) for i in others]
        if ex:
            e = mk_single('l', 260., 5e3, (0, 0, 0))      # EMPTY inlet with the lowest pressure and an odd temperature
            inl.insert(1 if len(inl) > 1 else 0, e)
        r = mk_receiver(RECEIVERS[rk])
        obs = check_mix(r, inl, QS[q], match_extra=dict(extra_empty=bool(ex)))
        if not free_energy_args_clean():
            raise Violation('scratch-left', 'mixture._free_energy_args not empty after mix_from')
        st['done'] = True; st['last'] = (a, obs)
        st['obs'] = obs
        return obs

    def nontrivial(self, st, a, obs):
        return obs[0] == 'mix' and obs[1] != 'empty' and obs[4]

    def outcome(self, st, a, obs):
        return repr(obs)


# =========================================================================================================================================
class SepGrid(System):
    """config = (template kind of the mixture, P index, comp index, part pattern); actions = (T_m index, part kind, T_part index)"""
    name = 'c02.sepout'
    PARTS = [(0.5, 0.5, 0.5), (1., 0., 0.25), (0.25, 1., 0.), (0.25, 0.25, 1.), (0.0625, 0.0625, 0.0625)]
    TL = [280., 298.15, 330., 345.]
    TG = [380., 420., 480.]

    def warm(self): _warm()
    def reset_globals(self): fx.reset_globals(_thermo()); reset_defaults()
    def depth(self, tier): return 1

    def configs(self, tier, seed):
        comps = [1, 4, 3] if tier == 'quick' else [1, 4, 3, 0, 2, 5]
        Ps = [1, 2] if tier == 'quick' else range(len(PRESSURES))
        cf = [(k, p, c, f) for k in ('l', 'g', 'm') for p in Ps for c in comps for f in range(len(self.PARTS))]
        k = seed % len(cf)
        return cf[k:] + cf[:k]

    def build(self, config):
        set_pkg('ideal'); return dict(config=config, done=False, tier=None)

    def actions(self, st):
        if st['done']: return []
        kind, _, c, f = st['config']
        part = tuple(x * y for x, y in zip(COMPS[c], self.PARTS[f]))
        if not any(part) or not any(x - y for x, y in zip(COMPS[c], part)): return []      # part or remainder empty: outside the property
        acts = []
        Tm = self.TL if kind in ('l', 'm') else self.TG
        for im, _ in enumerate(Tm):
            for pk in ('l', 'g'):
                Tp = self.TL if pk == 'l' else self.TG
                for ip, _ in enumerate(Tp):
                    acts.append((im, pk, ip))
                acts.append((im, pk, 'same'))        # the part sits at EXACTLY the mixture's T and P (in the same or in the other phase)
        return acts

    def canon(self, st): return (st['config'], st.get('last'))

    def step(self, st, a):
        kind, p, c, f = st['config']
        im, pk, ip = a
        comp = COMPS[c]; frac = self.PARTS[f]
        part = tuple(x * y for x, y in zip(comp, frac))
        rest = tuple(x - y for x, y in zip(comp, part))
        if not any(part) or not any(rest):
            st['done'] = True
            raise Rejected('precondition: part or remainder empty', cut=True)
        Tm = (self.TL if kind in ('l', 'm') else self.TG)[im]
        Tp = Tm if ip == 'same' else (self.TL if pk == 'l' else self.TG)[ip]
        P = PRESSURES[p]
        if kind == 'm':
            mix = mk_multi(Tm, P, comp, comp)          # comp in each phase; part is taken from the phase pk
            po = mk_multi(Tp, P, part if pk == 'l' else (0, 0, 0), part if pk == 'g' else (0, 0, 0))
        else:
            mix = mk_single(kind, Tm, P, comp)
            po = mk_single(pk, Tp, P, part)
        obs = check_sep(mix, po)
        st['done'] = True; st['last'] = (a, obs)
        return obs

    def nontrivial(self, st, a, obs):
        kind = st['config'][0]
        Tm = (self.TL if kind in ('l', 'm') else self.TG)[a[0]]
        if a[2] == 'same': return obs[0] == 'sep' and a[1] != kind        # same T, P: non-trivial when the phases differ (latent heat)
        Tp = (self.TL if a[1] == 'l' else self.TG)[a[2]]
        return obs[0] == 'sep' and Tm != Tp


# =========================================================================================================================================
class SetterGrid(System):
    """config = (template kind, P index, comp index, attribute); actions = (T0 index, T* index)"""
    name = 'c02.setter'

    def warm(self): _warm()
    def reset_globals(self): fx.reset_globals(_thermo()); reset_defaults()
    def depth(self, tier): return 1

    def configs(self, tier, seed):
        comps = [0, 1, 3] if tier == 'quick' else range(len(COMPS))
        Ps = [1, 3] if tier == 'quick' else range(len(PRESSURES))
        if tier == 'quick': comps = sorted(set(comps) | {seed % len(COMPS)})
        cf = [(k, p, c, at) for k in ('l', 'g', 'm', 'mg') for p in Ps for c in comps for at in ('H', 'h', 'S')]
        self._sub = [1, 4, 6] if tier == 'quick' else None         # prepared sequences: quick on {280, 345, 420}^2, thorough on the full grid
        k = seed % len(cf)
        return cf[k:] + cf[:k]

    _sub = [1, 4, 6]
    def build(self, config):
        set_pkg('ideal'); return dict(config=config, done=False)
    def actions(self, st):
        if st['done']: return []
        nT = len(TGRID) if self._sub is not None else len(TGRID_X)
        acts = [(i, j, 0) for i in range(nT) for j in range(nT)]
        # read / mutate / assign sequences: the state is moved by something other than the setter before the assignment
        sub = self._sub if self._sub is not None else range(nT)
        acts += [(i, j, k) for k in range(1, len(PREPS)) for i in sub for j in sub]
        return acts
    def canon(self, st): return (st['config'], st.get('last'))

    def step(self, st, a):
        kind, p, c, attr = st['config']
        prep = PREPS[a[2]] if len(a) > 2 else 'fresh'
        s, v = prepared(kind, TGRID_X[a[0]], TGRID_X[a[1]], PRESSURES[p], COMPS[c], attr, prep)
        obs = check_set(s, attr, TGRID_X[a[1]], target=v, prep=prep)
        if not free_energy_args_clean():
            raise Violation('scratch-left', 'mixture._free_energy_args not empty after the setter')
        st['done'] = True; st['last'] = (a, obs)
        return obs

    def nontrivial(self, st, a, obs): return a[0] != a[1]
    def outcome(self, st, a, obs): return repr((obs, st['config'][0], a[2] if len(a) > 2 else 0))


# =========================================================================================================================================
class History(System):
    """two streams, sequences of energy-balance operations; complete stream digests as canonical state"""
    nontrivial_per_config = True
    #: canon() is the complete concrete state of both streams (+ solver scratch); the config only selects the initial state, so equal
    #: states reached from different configs have identical futures and share one expansion
    merge_across_configs = True

    def __init__(self, name, dq, dt, rich=True, pkg='ideal', kinds=None):
        self.name = name; self._dq, self._dt = dq, dt
        self.pkg = pkg; self.kinds = kinds
        # temperatures of the set / setT / restore actions.  The EOS layer stays in the clearly gaseous region (T >= 400 K, P <= 2e5 Pa): where
        # the cubic loses its vapour root the library silently swaps departure functions (try/except in EOSMixture.H) and H(T) is not a
        # function the property speaks about
        self.Tset, self.TsetT, self.Trest = ((300., 400.), 350., 330.) if pkg == 'ideal' else ((400., 460.), 430., 450.)
        self.rich = rich        # rich: full action alphabet; otherwise a reduced alphabet explored one level deeper

    def warm(self): _warm(); _thermo(self.pkg)
    def reset_globals(self): fx.reset_globals(_thermo(self.pkg)); reset_defaults()
    def depth(self, tier): return self._dq if tier == 'quick' else self._dt
    def time_cap(self, tier): return 400 if tier == 'quick' else 1200

    def configs(self, tier, seed):
        cf = self.kinds or [('l', 'l'), ('l', 'g'), ('l', 'm'), ('m', 'l'), ('g', 'g')]
        k = seed % len(cf)
        return cf[k:] + cf[:k]

    def _temps(self, config):
        """(targets of set H|S, value of `T =`, detour temperature of restore) -- chosen per package / phase region"""
        if self.pkg == 'ideal': return (300., 400.), 350., 330.
        if config[0] == 'L': return (310., 335.), 320., 325.          # EOS, clearly liquid region
        return (400., 460.), 430., 450.                                # EOS, clearly gaseous region

    def build(self, config):
        set_pkg(self.pkg)
        fea = getattr(_thermo().mixture, '_free_energy_args', None)
        if fea is not None: fea.clear()          # the shared mixture object is hidden state: owned (emptied) at build, part of canon
        ka, kb = config[0], config[1]
        T0 = {'l': 298.15, 'g': 420., 'm': 345.}
        if self.pkg == 'ideal':
            # kind codes may carry a scale suffix: 'lB' = liquid x 1e3, 'lS' = liquid x 1e-3 (the magnitudes of DESIGN section 2): a solve on a
            # very large stream followed by an assignment on a very small one exposes solver state that survives between calls
            sc = {'B': 1e3, 'S': 1e-3}
            fa, fb = sc.get(ka[1:], 1.), sc.get(kb[1:], 1.)
            ka, kb = ka[0], kb[0]
            a = mk_template(ka, T0[ka], 101325., tuple(fa * x for x in (1., 2.5, 0.375)))
            b = mk_template(kb, T0[kb] + (20. if ka == kb else 0.), 1e6, tuple(fb * x for x in (0.375, 0., 1.)))
        elif ka == 'L':
            # EOS package, both streams clearly liquid (sub-cooled at their pressure): the cubic keeps its liquid root over the whole
            # range the actions can reach, so H(T) is continuous
            a = mk_template('l', 298.15, 101325., (1., 2.5, 0.375))
            b = mk_template('l', 330., 2e5, (0.375, 0., 1.) if kb == 'L' else (1., 0., 0.375))
        else:
            a = mk_template(ka, T0[ka], 101325., (1., 2.5, 0.375))
            b = mk_template({'h': 'g'}.get(kb, kb), {'g': 440., 'h': 480., 'mg': 460.}[kb], 2e5, (0.375, 0., 1.) if kb != 'h' else (1., 0., 0.375))
        S = [a, b]
        if len(config) > 2:        # third stream
            kc = config[2]
            S.append(mk_template(kc, T0[kc] + 40., 5e5, (0., 2.5, 0.)))
        return dict(s=S, last=None, config=tuple(config))

    def canon(self, st):
        ids = {}
        return (self.pkg,) + tuple(fx.stream_digest(x, ids) for x in st['s']) + (scratch_digest(), defaults_digest())

    def actions(self, st):
        S = st['s']
        sn = [Snap(x) for x in S]
        acts = []
        rich = self.rich
        Tset, TsetT, Trest = self._temps(st.get('config') or ('l', 'l'))
        n = len(S)
        for r in range(n):
            others = [o for o in range(n) if o != r]
            for o in others:
                if rich:
                    for srcs in ((r, o), (o,), (o, o)):
                        for Q in (0., 1e3):
                            acts.append(('mix', r, srcs, Q))
                elif n == 2:
                    acts.append(('mix', r, (r, o), 1e3)); acts.append(('mix', r, (o,), 0.)); acts.append(('mix', r, (o, o), -1e3))
                else:
                    acts.append(('mix', r, (r, o), 1e3)); acts.append(('mix', r, (o,), 0.))
                # r becomes a copy() of o (two streams with equal state; later steps change one of them and read both alternately)
                if sn[o].total > 0 and (rich or n == 2): acts.append(('copy', r, o))
                # separate_out: other <= receiver per chemical, remainder non-empty, both non-empty
                if sn[o].total > 0 and np.all(sn[o].mol <= sn[r].mol) and (sn[r].mol - sn[o].mol).sum() > 0:
                    # a multi-phase receiver gives the part up phase by phase: the part must be contained in each phase
                    if sn[r].cls == 'Stream' or all(p in sn[r].flows and np.all(f <= sn[r].flows[p]) for p, f in sn[o].flows.items() if f.any()):
                        acts.append(('sep', r, o))
            if n == 3:
                acts.append(('mix', r, tuple(others), -1e3))          # both other streams into r
                if rich: acts.append(('mix', r, (r,) + tuple(others), 0.))
            if sn[r].total > 0 and rich:
                for at in ('H', 'S'):
                    for Ts in Tset:
                        acts.append(('set', r, at, Ts))
                acts.append(('setT', r, TsetT))
                if 250. <= sn[r].T <= 500.:          # the value to restore must belong to a temperature inside the stated range
                    for at in ('H', 'S'):
                        acts.append(('restore', r, at, Trest))
                for k in (0.5, 2.):
                    acts.append(('scale', r, k))
            elif sn[r].total > 0:
                acts.append(('set', r, 'H', 400.)); acts.append(('set', r, 'S', 300.)); acts.append(('setT', r, 350.))
                if 250. <= sn[r].T <= 500.: acts.append(('restore', r, 'H', 330.))
        return acts

    def step(self, st, a):
        set_pkg(self.pkg)
        S = st['s']
        op = a[0]
        if op == 'mix':
            _, r, srcs, Q = a
            obs = check_mix(S[r], [S[i] for i in srcs], Q, match_extra=dict(layer='history'))
        elif op == 'sep':
            _, r, o = a
            obs = check_sep(S[r], S[o])
        elif op == 'set':
            _, r, at, Ts = a
            obs = check_set(S[r], at, Ts)
        elif op == 'copy':
            _, r, o = a
            b = Snap(S[o])
            S[r] = S[o].copy()
            af = Snap(S[r])
            if af.T != b.T or af.P != b.P or af.cls != b.cls or any(not np.array_equal(af.flows.get(p_, 0), f) for p_, f in b.flows.items()):
                raise Violation('copy-state', f'copy() of stream {o} differs from it: {b.jsonable()} -> {af.jsonable()}', match=dict(op='copy'))
            obs = ('copy',)
        elif op == 'restore':
            # read the value, move the temperature directly (no read in between), assign the value read: T must come back
            _, r, at, T2 = a
            Tback = float(S[r].T)
            v = float(getattr(S[r], at))
            S[r].T = T2 if abs(T2 - Tback) > 1. else T2 + 25.
            obs = check_set(S[r], at, Tback, target=v, prep='read-moveT')
        elif op == 'setT':
            _, r, T = a
            S[r].T = T
            obs = ('setT',)
        elif op == 'scale':
            _, r, k = a
            b = Snap(S[r]); Hb = H_ref(b)
            S[r].scale(k)
            af = Snap(S[r]); Ha = H_ref(af)
            if af.T != b.T or not (abs(Ha - k * Hb) <= 1e-12 * abs(Hb) + 1e-12):
                raise Violation('scale-H', f'scale({k}): H {Hb!r} -> {Ha!r}, T {b.T} -> {af.T}', match=dict(op='scale'))
            obs = ('scale',)
        else:
            raise ValueError(a)
        # every stream: the enthalpy read through the memoised property is the enthalpy of the concrete state
        for i, x in enumerate(S):
            sn = Snap(x)
            if sn.total == 0.: continue
            Hs = H_ref(sn); C = C_ref(sn)
            read = float(x.H)
            if not (abs(read - Hs) <= 1e-9 * max(abs(Hs), abs(C)) + 1e-9):
                raise Violation('H-read-vs-state', f'after {a!r}: stream {i} reads H={read:.9g}, its state has H={Hs:.9g}', match=dict(op=op, layer='history'),
                                residual=abs(read - Hs))
        if not free_energy_args_clean():
            raise Violation('scratch-left', f'mixture._free_energy_args not empty after {a!r}: {scratch_digest()!r}', match=dict(op=op, pkg=self.pkg))
        st['last'] = obs
        return obs

    def nontrivial(self, st, a, obs):
        if a[0] == 'mix': return obs[1] != 'empty' and obs[4]
        if a[0] in ('set', 'restore'): return obs[4]
        return a[0] == 'sep'

    def outcome(self, st, a, obs):
        return repr((a[0], obs))


# =========================================================================================================================================
class MixVLE(System):
    """the vapour-liquid-equilibrium path of `Stream.mix_from` (vle=True) on a multi-phase receiver: with the energy balance on the
    receiver is flashed at (H = sum H_in + Q, P = min P); with it off at (T of the receiver, P = min P)."""
    name = 'c02.mixvle'
    MENU_T = [0, 1, 2, 3, 4, 5, 6]       # every liquid and gas template
    MENU_P = [1, 2]
    MENU_C = [0, 1, 2, 4]

    def warm(self): _warm()
    def reset_globals(self): fx.reset_globals(_thermo('ideal')); reset_defaults()
    def depth(self, tier): return 1

    def configs(self, tier, seed):
        self._tier = tier
        if tier == 'quick': inl = [(1, 1, 1), (3, 1, 0), (5, 1, 1), (4, 2, 2)]
        else: inl = list(itertools.product(self.MENU_T, self.MENU_P, self.MENU_C))
        self._inl = inl
        cf = [(i1, eb) for i1 in inl for eb in (True, False)]
        k = seed % len(cf)
        return cf[k:] + cf[:k]

    _inl = [(1, 1, 1), (3, 1, 0), (5, 1, 1), (4, 2, 2)]
    def build(self, config):
        set_pkg('ideal'); return dict(config=config, last=None)
    def canon(self, st): return (st['config'], st['last'])
    def actions(self, st):
        if st['last'] is not None: return []
        Qs = (0., 1e3) if st['config'][1] else (0.,)
        return [(i2, Q) for i2 in self._inl for Q in Qs]

    def step(self, st, a):
        set_pkg('ideal')
        i1, eb = st['config']; i2, Q = a
        A, B = MixGrid._inlet(i1), MixGrid._inlet(tuple(i2))
        r = mk_receiver('multi')
        before = [Snap(A), Snap(B)]
        H_in = [H_ref(b) for b in before]
        T_recv = float(r.T)
        m = dict(energy_balance=bool(eb), Q_nonzero=bool(Q))
        try:
            r.mix_from([A, B], energy_balance=bool(eb), vle=True, Q=Q)
        except UNDOCUMENTED as e:
            raise Violation('unexpected-exception', f'mix_from(vle=True) raised {type(e).__name__}: {e}', match=dict(m, op='mixvle', exc=type(e).__name__),
                            detail=dict(inlets=[b.jsonable() for b in before], Q=Q))
        except Exception as e:
            raise Rejected(f'mixvle:{type(e).__name__}', cut=True)
        after = Snap(r)
        mol_in = before[0].mol + before[1].mol
        if not np.allclose(after.mol, mol_in, rtol=1e-9, atol=1e-12 * mol_in.sum()):
            raise Violation('flows', f'vle mix: receiver flows {after.mol.tolist()} != summed inlets {mol_in.tolist()}', match=m)
        Pmin = min(b.P for b in before)
        if after.P != Pmin:
            raise Violation('P-min', f'vle mix: P_out={after.P} but the lowest inlet pressure is {Pmin}', match=m)
        two = len(after.phases_present()) > 1
        if eb:
            expected = sum(H_in) + Q
            H_out = H_ref(after); C_out = C_ref(after)
            F_mass = float(r.F_mass)
            tol = 1e-6 * F_mass + 10. * abs(C_out) * T_TOL + 1e-9 * (abs(H_in[0]) + abs(H_in[1]))
            if not (abs(H_out - expected) <= tol):
                raise Violation('H-balance-vle', f'vle mix: H_out - (sum H_in + Q) = {H_out - expected:.6g} kJ/hr (tol {tol:.3g}); T_out={after.T:.4f}, '
                                f'phases {after.phases_present()}', match=m, residual=abs(H_out - expected),
                                detail=dict(inlets=[b.jsonable() for b in before], Q=Q, after=after.jsonable()))
            read = float(r.H)
            if not (abs(read - H_out) <= 1e-9 * max(abs(H_out), abs(C_out)) + 1e-9):
                raise Violation('H-read-vs-state', f'receiver.H reads {read:.9g} but the enthalpy of its state is {H_out:.9g}', match=m, residual=abs(read - H_out))
        else:
            if after.T != T_recv:
                raise Violation('T-kept', f'vle mix without energy balance moved T from {T_recv} to {after.T}', match=m)
        obs = ('mixvle', bool(eb), after.cls, after.phases_present(), two)
        st['last'] = (a, obs)
        return obs

    def nontrivial(self, st, a, obs): return obs[4]
    def outcome(self, st, a, obs): return repr(obs)


SYSTEMS = [MixGrid(), SepGrid(), SetterGrid(), History('c02.history', 3, 3), History('c02.history.deep', 2, 4, rich=False, kinds=[('l', 'l'), ('l', 'g'), ('l', 'm'), ('m', 'l'), ('g', 'g'), ('lB', 'lS'), ('gS', 'lB'), ('gB', 'gS')]),
           # configuration axis "mixture model": the same two-stream histories on a Peng-Robinson EOSMixture package, whose solver scratch
           # (`mixture._free_energy_args`, shared by every stream of the package) is real hidden state: S / H assignments on one stream are
           # interleaved with H reads, mixing, separation and H assignment on the other
           History('c02.history.eos', 2, 3, pkg='PR', kinds=[('g', 'g'), ('g', 'h'), ('g', 'mg')]),
           # thorough-weighted extensions: the EOS package in the clearly liquid region, and a universe of THREE streams (reduced alphabet)
           History('c02.history.eos.liq', 1, 3, pkg='PR', kinds=[('L', 'L'), ('L', 'W')]),
           History('c02.history.three', 2, 4, rich=False, kinds=[('l', 'g', 'l'), ('l', 'm', 'g')]),
           History('c02.history.five', 1, 5, rich=False, kinds=[('l', 'g'), ('l', 'm')]),
           MixVLE()]
