"""
C09 -- sparse flow arrays behave exactly like the dense NumPy arrays they represent.

Bounded exhaustive exploration of the real `thermosteam.base.sparse` objects in lock-step with the
most boring reference model there is: the dense NumPy image of every object and NumPy's own
operator.

Layer 1 (depth 1, input grids; one system per target kind and operation family)
    c09.ops.{SV,SLV,SA,SAb}    every operator / in-place operator / reflected operator x every operand of
                               every kind (python scalars, 0-d arrays, lists, 1-d / 2-d ndarrays, SparseVector,
                               SparseLogicalVector, SparseArray, length-1 operands of each kind)
    c09.alias.{SV,SLV,SA,SAb}  in-place operators whose operand is taken from the target itself (sa[k:k+1], sa[k], sa, [sa[k]], sa[[k]], sa[:, j:j+1] ...)
    c09.unary.{...}            unary operators, conversions, reductions (axis x keepdims), queries, copy
    c09.index.{...}            __getitem__ / __setitem__ with every index form x every value form
    c09.ctor                   construction from every source kind
    c09.readonly.{SV,SA}       every mutating operation on a read-only target must be rejected
Layer 2 (histories)
    c09.closure.v2             one SparseVector of size 2 (+ constant operands), values on a dyadic lattice,
                               searched until the frontier is empty = ALL histories of ANY length in the lattice
    c09.closure.vw             two interacting vectors of size 2, closure (all histories of any length) on a small lattice
    c09.heap.n{2,3}            heap {v, w, u(size 1), m (logical), A (2 x n)} with in-place operations between
                               heap members (incl. an object with itself) and constants, depth 2 (quick) / 3 (thorough)
    c09.buffer                 heap {v, m, A} with to_flat_array(buffer) into buffers that are reused across calls (convert, mutate, convert again)
    c09.heap.alias             heap {v, A, r} where r IS the first row of A (operand overlapping its in-place target)
    c09.heap.deep              heap {v, w, A} over a 50-action alphabet without division, depth 3 (quick) / 6 or the time cap

Oracle (DESIGN 3, 3b): an operation is in the compared domain iff NumPy evaluates it on the dense images
without raising and without a floating-point error (np.errstate(all='raise')).  Inside the domain the dense
image of the result (shape, values, boolean-ness of array results) and of the target of an in-place
operation equals NumPy's; the other operand is unchanged; a non-in-place result shares no storage with an
operand; every sparse object touched satisfies the representation invariant (stored entries are exactly the
non-zero elements, keys in range(size), rows of equal size and kind).  Where NumPy raises ValueError (shapes do
not broadcast, axis out of bounds) the sparse operation must raise too and leave its target unchanged.
Where NumPy raises for another reason (casting, division by zero, index out of range) nothing is demanded.
"""
from __future__ import annotations
import itertools, operator as _op, sys
import numpy as np
from mc.engine import System, Violation, Rejected

PROPERTY = 'C09'
RULE = ('depth-1 systems: one case = (target object with concrete contents, operation, other operand with concrete contents / index and '
        'value forms); every case of the stated grids is executed once on fresh real objects and on the dense NumPy images.  A case is '
        'non-trivial when the operation reached a kernel with real work: both operands non-zero at a common position, a broadcasting '
        'branch, an exact cancellation, an entry deleted or created by an in-place operation / item assignment, a reduction over a '
        'vector holding zeros and non-zeros.  History systems: a state is the complete representation (dct items incl. stored zeros, size, '
        'read_only, row identity) of every heap object plus the dense mirror; histories are merged iff those are equal.  distinct_outcomes '
        'counts (target kind, operation, operand kind, shape pattern, result class, cancellation/deletion flags, rejected-or-not).')
ASSUMPTIONS = [
    'element alphabet {0, 1, -1, 0.5} (and 2, booleans, integers for scalars): contains 0, an exact cancellation pair and a fraction; the '
    '"large/small magnitudes" of the quantifier are represented only by the lattice bound of the history layer, not by 1e300-type values',
    'shapes: vectors of size 1-3, 2-d operands up to 2x2 (quick) / 2x3 and 3x1 (thorough); the quantifier\'s 3 x 6 is not reached',
    'compared domain = NumPy evaluates the dense operation without raising and without inf/nan (np.errstate(all="raise")); division by zero, '
    'casting errors (in-place float into bool), out-of-range indices are outside; ValueError from NumPy (shape mismatch, axis out of bounds) '
    'must be mirrored by an exception that leaves the target unchanged',
    'in-place operation on a target whose last axis has length 1 with a longer operand: NumPy rejects, the library documents growth of the '
    'target (self.size = other_size); accepted outcomes are rejection with unchanged target OR the NumPy out-of-place broadcast result',
    'scalar results (sum, max, any, bool(), item access) are compared by value only; boolean-ness is compared for array-valued results',
    'index tuples returned by nonzero/positive/negative_index are compared as sets of coordinates (order is not part of the dense image)',
    'results with no element (empty selections) are compared as equal whatever their shape: a SparseArray without rows cannot carry its trailing shape',
    'read-only layer: the clause is "read-only data never changes and a write that would change it raises"; a write that is a no-op for the '
    'current contents and returns normally is counted (outcome noop-accepted), not reported',
    'out-of-range (positive) indices are outside the domain (NumPy raises IndexError); negative indices and slices beyond the size are inside (NumPy wraps / clips)',
    'history systems restore an already accepted prefix from a snapshot of the plain containers (dict items in insertion order, sizes, flags) taken when this process '
    'executed it, instead of re-checking it; the transition under examination is always executed and checked on real objects',
    'history layer: values confined to the dyadic lattice {k/den : |k| <= kmax}; a transition that leaves the lattice or the NumPy domain is cut and counted',
    'sequences of up to ~30 operations are covered only where the search reaches closure (c09.closure.v2); the heap systems are depth-bounded',
]
TOLERANCES = {'value_equality': 'exact (==) on float64 dense images', 'closure_lattice_quick': 'k/4, |k|<=16 (1 089 states)',
              'closure_lattice_thorough': 'k/16, |k|<=64 (16 641 states)', 'heap_lattices': 'see the describe() entry of each history system'}

# --------------------------------------------------------------------------------------------------
_sp = None
def sp():
    global _sp
    if _sp is None:
        import thermosteam  # noqa
        _sp = sys.modules['thermosteam.base.sparse']
    return _sp

VALS = (0.0, 1.0, -1.0, 0.5)
VALS3 = (0.0, 1.0, -1.0)
VALS2 = (0.0, -1.0)
BOOLS = (False, True)
SPARSE_KINDS = ('SV', 'SLV', 'SA', 'SAb')
FLOAT_KINDS_2D = ('l2', 'a2', 'SA')

# ---- operands ------------------------------------------------------------------------------------

def build_operand(spec):
    """spec=(kind, data) -> (real object, dense image).  Sparse objects are built with the trusted minimal
    constructors (from_dict / from_set / from_rows) so that a broken __init__ cannot hide behind every case."""
    S = sp()
    kind, data = spec
    if kind == 'pf': return float(data), float(data)
    if kind == 'pi': return int(data), int(data)
    if kind == 'pb': return bool(data), bool(data)
    if kind == 'n0': return np.array(float(data)), np.array(float(data))
    if kind == 'nf': return np.float64(data), np.float64(data)
    if kind == 'nb': return np.bool_(data), np.bool_(data)
    if kind == 'l1': return [float(x) for x in data], np.array(data, float)
    if kind == 'l1b': return [bool(x) for x in data], np.array(data, bool)
    if kind == 't1': return tuple(float(x) for x in data), np.array(data, float)
    if kind == 'a1': return np.array(data, float), np.array(data, float)
    if kind == 'a1i': return np.array(data, int), np.array(data, int)
    if kind == 'a1b': return np.array(data, bool), np.array(data, bool)
    if kind == 'l2': return [[float(x) for x in r] for r in data], np.array(data, float)
    if kind == 'l2b': return [[bool(x) for x in r] for r in data], np.array(data, bool)
    if kind == 'a2': return np.array(data, float), np.array(data, float)
    if kind == 'a2b': return np.array(data, bool), np.array(data, bool)
    if kind == 'SV':
        return S.SparseVector.from_dict({i: float(x) for i, x in enumerate(data) if x}, len(data)), np.array(data, float)
    if kind == 'SLV':
        return S.SparseLogicalVector.from_set({i for i, x in enumerate(data) if x}, len(data)), np.array(data, bool)
    if kind == 'SA':
        rows = [S.SparseVector.from_dict({i: float(x) for i, x in enumerate(r) if x}, len(r)) for r in data]
        return S.SparseArray.from_rows(rows), np.array(data, float)
    if kind == 'SAb':
        rows = [S.SparseLogicalVector.from_set({i for i, x in enumerate(r) if x}, len(r)) for r in data]
        return S.SparseArray.from_rows(rows), np.array(data, bool)
    raise ValueError(spec)


def shape_of(spec):
    kind, data = spec
    if kind in ('pf', 'pi', 'pb', 'n0', 'nf', 'nb'): return ()
    if kind in ('l2', 'l2b', 'a2', 'a2b', 'SA', 'SAb'): return (len(data), len(data[0]))
    return (len(data),)


def pattern(ts, os_):
    """abstract relation between the target shape and the operand shape, aligned from the right"""
    if os_ == (): return 'scalar'
    if ts == os_: return 'same'
    out = []
    n = max(len(ts), len(os_))
    for k in range(1, n + 1):
        a = ts[-k] if k <= len(ts) else None
        b = os_[-k] if k <= len(os_) else None
        if a is None: out.append('+1' if b == 1 else '+n')
        elif b is None: out.append('-1' if a == 1 else '-n')
        elif a == b: out.append('=1' if a == 1 else '=')
        elif b == 1: out.append('o1')
        elif a == 1: out.append('s1')
        else: out.append('x')
    return ','.join(reversed(out))

def pattern_cat(pat, okc):
    """coarse category of a shape pattern (stable field for the known-findings matcher)
    lead1   the operand has extra leading axes, all of length 1           (the library squeezes them)
    leadn   the operand has an extra leading axis of length > 1          (vector target, 2-d operand with several rows)
    rows-s1 2-d target with ONE row against a 2-d operand with several rows
    -col1   suffix: the operand's last axis has length 1 while the target's is longer"""
    if pat in ('scalar', 'same'): return pat
    t = pat.split(',')
    col1 = '-col1' if t[-1] == 'o1' and okc in ('dense2', 'sparse2') else ''
    if t[0] == '+1': return 'lead1'
    if t[0] == '+n': return 'leadn' + col1
    if len(t) == 2 and t[0] == 's1': return 'rows-s1' + col1
    if len(t) == 2 and t[0] == 'x': return 'rows-x'
    if col1: return 'col1'
    if 'x' in t: return 'mismatch'
    return 'broadcast'


def operand_class(ok):
    if ok.startswith('heap-'):
        k = ok.split('-')[1]
        return ('sparse2' if k in ('SA', 'SAb') else 'sparse1') + ('-self' if ok.endswith('-self') else '-alias' if ok.endswith('-alias') else '')
    if ok.startswith('alias-'): return ok
    if ok in ('pf', 'pi', 'pb', 'n0', 'nf', 'nb'): return 'scalar'
    if ok in ('SV', 'SLV'): return 'sparse1'
    if ok in ('SA', 'SAb'): return 'sparse2'
    if ok in ('l2', 'l2b', 'a2', 'a2b'): return 'dense2'
    return 'dense1'


def op_class(op):
    if op in ('lt', 'le', 'gt', 'ge', 'eq', 'ne'): return 'cmp'
    if op in ('and', 'or', 'xor'): return 'logical'
    if op in ('rand', 'ror', 'rxor'): return 'rlogical'
    if op in ('iand', 'ior', 'ixor'): return 'ilogical'
    if op in ('iadd', 'isub', 'imul', 'itruediv'): return 'iarith'
    if op in ('radd', 'rsub', 'rmul', 'rtruediv'): return 'rarith'
    if op in ('add', 'sub', 'mul', 'truediv'): return 'arith'
    return op

# ---- reading the real objects --------------------------------------------------------------------

def repr_problems(x):
    """representation invariant of a sparse object; returns list of (code, text)"""
    S = sp()
    out = []
    cls = x.__class__
    if cls is S.SparseVector:
        d = x.dct
        if type(d) is not dict: return [('container', f'dct is {type(d).__name__}')]
        if not isinstance(x.size, (int, np.integer)) or isinstance(x.size, bool): out.append(('size', f'size={x.size!r}'))
        for k, v in d.items():
            if isinstance(k, (bool, np.bool_)) or not isinstance(k, (int, np.integer)): out.append(('key-type', f'key {k!r}'))
            elif not (0 <= k < x.size): out.append(('key-range', f'key {k!r} outside range({x.size})'))
            try:
                if v != v or v in (float('inf'), float('-inf')): out.append(('nonfinite', f'value {v!r} at {k!r}'))
                elif not v: out.append(('stored-zero', f'zero stored at {k!r}'))
            except Exception:
                out.append(('value-type', f'value {v!r} at {k!r}'))
            if not isinstance(v, (float, int, np.floating, np.integer, np.bool_)):
                out.append(('value-type', f'value {v!r} ({type(v).__name__}) at {k!r}'))
    elif cls is S.SparseLogicalVector:
        d = x.set
        if type(d) is not set: return [('container', f'set is {type(d).__name__}')]
        if not isinstance(x.size, (int, np.integer)) or isinstance(x.size, bool): out.append(('size', f'size={x.size!r}'))
        for k in d:
            if isinstance(k, (bool, np.bool_)) or not isinstance(k, (int, np.integer)): out.append(('key-type', f'key {k!r}'))
            elif not (0 <= k < x.size): out.append(('key-range', f'key {k!r} outside range({x.size})'))
    elif cls is S.SparseArray:
        rows = x.rows
        if type(rows) is not list: return [('container', f'rows is {type(rows).__name__}')]
        kinds = set(); sizes = set()
        for r in rows:
            if r.__class__ not in (S.SparseVector, S.SparseLogicalVector):
                out.append(('row-type', f'row is {type(r).__name__}')); continue
            kinds.add(r.__class__.__name__); sizes.add(r.size)
            out.extend(repr_problems(r))
        if len(kinds) > 1: out.append(('mixed-rows', f'rows of kinds {sorted(kinds)}'))
        if len(sizes) > 1: out.append(('ragged-rows', f'rows of sizes {sorted(sizes)}'))
        if len(set(map(id, rows))) != len(rows): out.append(('aliased-rows', 'the same row object appears twice'))
    return out


def image(x):
    """dense image of a real object (after repr_problems returned nothing)"""
    S = sp()
    cls = x.__class__
    if cls is S.SparseVector:
        a = np.zeros(x.size)
        for k, v in x.dct.items(): a[k] = v
        return a
    if cls is S.SparseLogicalVector:
        a = np.zeros(x.size, bool)
        for k in x.set: a[k] = True
        return a
    if cls is S.SparseArray:
        rows = [image(r) for r in x.rows]
        if not rows: return np.zeros((0, 0))
        return np.array(rows)
    if isinstance(x, np.ndarray): return x
    if isinstance(x, (list, tuple)):
        return np.asarray([image(i) if i.__class__ in (S.SparseVector, S.SparseLogicalVector, S.SparseArray) else i for i in x])
    if isinstance(x, (bool, int, float, np.number, np.bool_)): return np.asarray(x)
    raise TypeError(type(x).__name__)


def is_sparse(x):
    S = sp()
    return x.__class__ in (S.SparseVector, S.SparseLogicalVector, S.SparseArray)


def containers(x):
    """ids of the mutable containers that hold the data of a sparse object"""
    S = sp()
    cls = x.__class__
    if cls is S.SparseVector: return {id(x.dct)}
    if cls is S.SparseLogicalVector: return {id(x.set)}
    if cls is S.SparseArray:
        out = set()
        for r in x.rows:
            out.add(id(r)); out |= containers(r)
        return out
    return set()


def dg(x):
    """complete digest of an operand (to detect modification)"""
    S = sp()
    cls = x.__class__
    if cls is S.SparseVector:
        try: items = tuple(sorted(x.dct.items()))
        except TypeError: items = tuple(sorted(x.dct.items(), key=repr))
        return ('V', x.size, items, bool(x.read_only))
    if cls is S.SparseLogicalVector:
        try: return ('L', x.size, tuple(sorted(x.set)))
        except TypeError: return ('L', x.size, tuple(sorted(x.set, key=repr)))
    if cls is S.SparseArray:
        return ('A', tuple(dg(r) for r in x.rows))
    if isinstance(x, np.ndarray): return ('nd', x.shape, str(x.dtype), x.tobytes())
    return ('py', repr(x))


def kind_of(x):
    S = sp()
    cls = x.__class__
    if cls is S.SparseVector: return 'SV'
    if cls is S.SparseLogicalVector: return 'SLV'
    if cls is S.SparseArray:
        return 'SAb' if x.rows and x.rows[0].__class__ is S.SparseLogicalVector else 'SA'
    if isinstance(x, np.ndarray): return f'nd{x.ndim}'
    return type(x).__name__

# ---- the comparison core -------------------------------------------------------------------------

class RefOutside(Exception):
    """NumPy does not evaluate the dense operation for a reason other than shapes -> outside the compared domain"""

class RefShape(Exception):
    """NumPy rejects the dense operation with ValueError (shapes do not broadcast / axis out of bounds)"""


def run_ref(f, *args):
    try:
        with np.errstate(all='raise'):
            r = f(*args)
    except ValueError as e:
        raise RefShape(f'{type(e).__name__}: {e}')
    except (TypeError, FloatingPointError, ZeroDivisionError, IndexError, OverflowError, AttributeError, KeyError) as e:
        raise RefOutside(f'{type(e).__name__}')
    if r is NotImplemented: raise RefOutside('NotImplemented')
    if isinstance(r, (np.ndarray, np.generic, float, int, bool)):
        a = np.asarray(r)
        if a.dtype == object: raise RefOutside('object-result')
        if a.dtype.kind == 'f' and not np.isfinite(a).all(): raise RefOutside('nonfinite')
    return r


def compare(img, ref):
    """-> None or deviation code"""
    ref = np.asarray(ref)
    img = np.asarray(img)
    if img.dtype == object: return 'object-array'
    if img.size == 0 and ref.size == 0: return None      # no element to compare (an empty SparseArray cannot carry its trailing shape)
    if img.shape != ref.shape:
        a, b = np.squeeze(img), np.squeeze(ref)
        if a.shape == b.shape and np.array_equal(a, b): return 'shape-squeezed'
        return 'shape'
    if not np.array_equal(img, ref): return 'value'
    if ref.ndim > 0 and ref.size > 0 and (img.dtype == bool) != (ref.dtype == bool): return 'boolness'
    return None


def _short(x):
    try:
        if is_sparse(x): return f'{kind_of(x)}{dg(x)!r}'[:160]
        return repr(x)[:160]
    except Exception:
        return f'<{type(x).__name__}>'


class Case:
    """One operation on real objects + the same on the dense images.

    real(T, O)  -> result (for in-place ops the returned object; T is mutated)
    ref(td, od) -> dense result                         (non-in-place)
                   new dense image of the target         (in-place; `ref_result` optional)
    """
    def __init__(self, match, T, td, O=None, od=None, inplace=False, check_alias=True, grow_ok=False,
                 result='image', identity_ok=False, fine=None):
        self.match = match; self.T = T; self.td = td; self.O = O; self.od = od
        self.fine = fine or {}
        self.inplace = inplace; self.check_alias = check_alias; self.grow_ok = grow_ok
        self.result = result; self.identity_ok = identity_ok

    def viol(self, clause, dev, msg, **detail):
        m = dict(self.match); m['dev'] = dev
        if clause == 'result-shares-storage' and 'op' in self.fine and 'op' not in m: m['op'] = self.fine['op']
        detail = dict(detail); detail['fine'] = self.fine
        return Violation(clause, msg, match=m, detail=detail)

    def check_repr(self, x, what):
        if is_sparse(x):
            p = repr_problems(x)
            if p:
                raise self.viol('representation', p[0][0], f'{what}: {p[0][1]}  [{_short(x)}]', problems=p[:6], where=what)

    def run(self, real, ref, norm=None):
        T, td, O, od = self.T, self.td, self.O, self.od
        dT0 = dg(T); dO0 = dg(O) if O is not None else None
        alias_T_O = getattr(self, 'alias', False) or (O is not None and is_sparse(O) and bool(containers(T) & containers(O)))
        # ---- reference
        status = 'ok'; exp = None; exp_target = None; why = ''
        try:
            if self.inplace:
                exp_target = run_ref(ref, td.copy(), od.copy() if isinstance(od, np.ndarray) else od)
            else:
                exp = run_ref(ref, td.copy(), od.copy() if isinstance(od, np.ndarray) else od)
        except RefOutside as e:
            raise Rejected(f'outside-domain:{e}', cut=True)
        except RefShape as e:
            status = 'shape'; why = str(e)
        grow = None; squeezed = None
        if status == 'shape' and self.inplace and self.grow_ok is not None and callable(self.grow_ok):
            # documented growth of a target whose last axis has length 1 (decided on the shapes alone)
            try: bshape = np.broadcast_shapes(td.shape, np.shape(od))
            except ValueError: bshape = None
            if bshape is not None and len(bshape) == td.ndim and td.shape[-1] == 1 and bshape[:-1] == td.shape[:-1] and bshape[-1] > 1:
                try:
                    g = np.asarray(run_ref(self.grow_ok, td.copy(), od))
                except RefOutside as e:
                    raise Rejected(f'outside-domain:growth:{e}', cut=True)
                except RefShape:
                    g = None
                if g is not None:
                    if td.dtype == bool and g.dtype != bool: raise Rejected('outside-domain:growth:cast', cut=True)
                    grow = g.astype(td.dtype)
        if status == 'shape' and self.inplace and isinstance(od, np.ndarray) and od.ndim > td.ndim and all(k == 1 for k in od.shape[:od.ndim - td.ndim]):
            # what NumPy gives when the leading length-1 axes of the operand are dropped (the library's reduce_ndim)
            try:
                squeezed = run_ref(ref, td.copy(), od.reshape(od.shape[od.ndim - td.ndim:]))
            except RefOutside as e:
                # with the library's reading of the operand the operation is outside the domain (e.g. division by zero)
                raise Rejected(f'outside-domain:squeezed:{e}', cut=True)
            except RefShape:
                squeezed = None
        # ---- real
        exc = None; res = None
        try:
            res = real(T, O)
        except Exception as e:   # noqa
            exc = e
        # ---- operand untouched
        if O is not None and not alias_T_O and dg(O) != dO0:
            raise self.viol('operand-modified', 'other', f'the other operand changed: {dO0!r} -> {dg(O)!r}')
        if status == 'shape':
            if exc is None:
                if grow is not None:
                    self.check_repr(T, 'target after growth')
                    d = compare(image(T), grow)
                    if d: raise self.viol('inplace-growth', d, f'length-1 target grown to {image(T).tolist()!r}, NumPy broadcast gives {grow.tolist()!r}')
                    self.flags = ('grown',)
                    return ('grown', kind_of(T))
                if squeezed is not None and not repr_problems(T) and compare(image(T), squeezed) is None:
                    raise self.viol('shape-mismatch-not-rejected', 'squeezed-operand',
                                    f'NumPy rejects ({why[:100]}); the sparse operation dropped the leading length-1 axes of the operand and '
                                    f'updated the target to {_short(T)}', numpy=why)
                raise self.viol('shape-mismatch-not-rejected', 'returned',
                                f'NumPy rejects ({why[:120]}) but the sparse operation returned {_short(res)}; target now {_short(T)}',
                                numpy=why)
            if dg(T) != dT0:
                raise self.viol('rejected-but-modified', type(exc).__name__,
                                f'raised {type(exc).__name__} but the target changed: {dT0!r} -> {dg(T)!r}')
            raise Rejected('shape-mismatch-rejected', cut=False)
        if exc is not None:
            if isinstance(exc, (MemoryError, RecursionError)): raise exc
            if dg(T) != dT0 and not self.inplace:
                raise self.viol('raised-and-modified', type(exc).__name__, f'{type(exc).__name__}: {exc}; target changed')
            raise self.viol('unexpected-exception', type(exc).__name__,
                            f'NumPy evaluates this, the sparse operation raises {type(exc).__name__}: {str(exc)[:200]}',
                            exc=type(exc).__name__)
        # ---- results
        self.check_repr(T, 'target')
        if self.inplace:
            d = compare(image(T), exp_target)
            if d:
                raise self.viol('inplace-result', d, f'target is {image(T).tolist()!r} (shape {image(T).shape}), NumPy gives '
                                f'{np.asarray(exp_target).tolist()!r} (shape {np.asarray(exp_target).shape})')
            if self.result == 'self' and res is not T:
                raise self.viol('inplace-result', 'not-self', f'in-place operator returned {_short(res)} instead of the target')
            return ('ok', kind_of(T))
        if dg(T) != dT0:
            raise self.viol('operand-modified', 'target', f'non-in-place operation changed its left operand: {dT0!r} -> {dg(T)!r}')
        if norm is not None:
            try:
                got = norm(res)
            except Exception as e:
                raise self.viol('result', 'malformed', f'result {_short(res)} cannot be read: {type(e).__name__}: {e}')
            want = exp
            if got != want:
                raise self.viol('result', 'value', f'result {got!r}, NumPy-derived expectation {want!r}')
            return ('ok', type(res).__name__)
        self.check_repr(res, 'result')
        try:
            img = image(res)
        except TypeError:
            raise self.viol('result', 'type', f'result of type {type(res).__name__}: {_short(res)}')
        d = compare(img, exp)
        if d:
            raise self.viol('result', d, f'result {np.asarray(img).tolist()!r} (shape {np.asarray(img).shape}, {kind_of(res)}), NumPy gives '
                            f'{np.asarray(exp).tolist()!r} (shape {np.asarray(exp).shape}, dtype {np.asarray(exp).dtype})')
        if self.check_alias and is_sparse(res):
            if res is T or (O is not None and res is O):
                if not self.identity_ok:
                    raise self.viol('result-shares-storage', 'identity', 'the result IS one of the operands')
            else:
                shared = containers(res) & (containers(T) | (containers(O) if O is not None and is_sparse(O) else set()))
                if shared:
                    raise self.viol('result-shares-storage', 'container', f'result {_short(res)} shares its dct/set/row with an operand')
        return ('ok', kind_of(res))


# ---- operator tables -----------------------------------------------------------------------------
BIN = {'add': _op.add, 'sub': _op.sub, 'mul': _op.mul, 'truediv': _op.truediv,
       'lt': _op.lt, 'le': _op.le, 'gt': _op.gt, 'ge': _op.ge, 'eq': _op.eq, 'ne': _op.ne,
       'and': _op.and_, 'or': _op.or_, 'xor': _op.xor}
REFL = {'radd': _op.add, 'rsub': _op.sub, 'rmul': _op.mul, 'rtruediv': _op.truediv,
        'rand': _op.and_, 'ror': _op.or_, 'rxor': _op.xor}
IOP = {'iadd': _op.iadd, 'isub': _op.isub, 'imul': _op.imul, 'itruediv': _op.itruediv,
       'iand': _op.iand, 'ior': _op.ior, 'ixor': _op.ixor}
LOGICAL = ('and', 'or', 'xor', 'rand', 'ror', 'rxor', 'iand', 'ior', 'ixor')
ARITH = ('add', 'sub', 'mul', 'truediv', 'radd', 'rsub', 'rmul', 'rtruediv', 'iadd', 'isub', 'imul', 'itruediv')


def do_binary(T, td, tk, op, O, od, ok, pat, fam='binary', selfop=False):
    okc = operand_class(ok)
    match = dict(fam=fam, tk=tk, opc=op_class(op), okc=okc, pcat=pattern_cat(pat, okc))
    fine = dict(op=op, ok=ok, pat=pat)
    if selfop:
        f = IOP[op]; g = BIN[op[1:]]
        c = Case(match, T, td, O, od, inplace=True, grow_ok=(lambda a, b: g(a, b)), result='self', fine=fine)
        return c.run(lambda x, y: f(x, x), lambda x, y: f(x, x.copy()))
    if op in BIN:
        f = BIN[op]
        c = Case(match, T, td, O, od, fine=fine)
        return c.run(lambda a, b: f(a, b), lambda a, b: f(a, b))
    if op in REFL:
        f = REFL[op]
        c = Case(match, T, td, O, od, fine=fine)
        return c.run(lambda a, b: f(b, a), lambda a, b: f(b, a))
    f = IOP[op]; g = BIN[op[1:]]
    c = Case(match, T, td, O, od, inplace=True, grow_ok=(lambda a, b: g(a, b)), result='self', fine=fine)
    def ref(a, b):
        r = f(a, b)
        return r
    return c.run(lambda a, b: f(a, b), ref)


def nontrivial_binary(td, od, op):
    a = np.asarray(td); b = np.asarray(od)
    try:
        bb = np.broadcast(a, b)
    except ValueError:
        return False
    if a.shape != b.shape and b.ndim: return True
    aa, b2 = np.broadcast_arrays(a, b)
    return bool(((aa != 0) & (b2 != 0)).any())


def flags_binary(td, od, op):
    """cancellation / creation flags for the outcome key"""
    a = np.asarray(td); b = np.asarray(od)
    try:
        aa, bb = np.broadcast_arrays(a, b)
    except ValueError:
        return 'x'
    if op.lstrip('ri') in ('add', 'sub') or op in ('add', 'sub'):
        base = op[-3:]
        r = aa + bb if base == 'add' else aa - bb
        canc = bool(((aa != 0) & (r == 0)).any()); crea = bool(((aa == 0) & (r != 0)).any())
        return ('c' if canc else '') + ('n' if crea else '')
    if op.endswith('mul'):
        return 'd' if bool(((aa != 0) & (bb == 0)).any()) else ''
    return ''

# ---- enumeration of operands -----------------------------------------------------------------------

def _grid(shape, vals):
    if len(shape) == 1:
        return list(itertools.product(vals, repeat=shape[0]))
    m, n = shape
    rows = list(itertools.product(vals, repeat=n))
    return list(itertools.product(rows, repeat=m))


def others(tier, for_2d_target=False):
    th = tier == 'thorough'
    out = []
    for v in VALS + (2.0,): out.append(('pf', v))
    for v in (0, 1, -1, 2): out.append(('pi', v))
    for v in BOOLS: out.append(('pb', v))
    for v in VALS: out.append(('n0', v))
    for v in (0.0, 0.5): out.append(('nf', v))
    for v in BOOLS: out.append(('nb', v))
    nmax = 3 if th else 2
    for n in range(1, nmax + 1):
        for k in ('l1', 'a1', 'SV'):
            for d in _grid((n,), VALS): out.append((k, d))
        for k in ('l1b', 'a1b', 'SLV'):
            for d in _grid((n,), BOOLS): out.append((k, d))
        if th:
            for d in _grid((n,), (0, 1, -1)): out.append(('a1i', d))
            for d in _grid((n,), VALS3): out.append(('t1', d))
    shapes = [(1, 1), (1, 2), (2, 1), (2, 2)] + ([(1, 3), (2, 3), (3, 1)] if th else [])
    for shp in shapes:
        ne = shp[0] * shp[1]
        if ne <= 2: fv = VALS
        elif ne <= 4: fv = VALS3 if th else VALS2
        else: fv = VALS2
        for k in FLOAT_KINDS_2D:
            for d in _grid(shp, fv): out.append((k, d))
        if ne <= 4 or not for_2d_target:
            for k in ('a2b', 'SAb'):
                for d in _grid(shp, BOOLS): out.append((k, d))
    # ---- shapes that exist (mainly) to be REJECTED: every zero / non-zero pattern, one magnitude (see `representative`).
    # A kernel may take a shortcut for an empty operand or an empty row ahead of its shape check, so the all-zero operand, the all-zero
    # row and every mixed pattern must meet every target (which themselves run over all contents incl. all-zero).
    rowconst = lambda m, n, v: [tuple((x,) * n for x in rows) for rows in itertools.product((0.0, v), repeat=m)]
    rowconst_b = lambda m, n: [tuple((x,) * n for x in rows) for rows in itertools.product(BOOLS, repeat=m)]
    if not th:          # (the thorough tier already holds these shapes with full alphabets)
        for d in _grid((3,), VALS):
            if representative(('a1', d)):
                for k in ('a1', 'SV'): out.append((k, d))
        for d in _grid((3,), BOOLS):
            for k in ('a1b', 'SLV'): out.append((k, d))
        for k in ('a2', 'SA'):
            out += [(k, ((0.0, 0.0, 0.0),)), (k, ((1.0, 1.0, 1.0),))]                                  # 1 x 3
            out += [(k, tuple((x,) for x in col)) for col in itertools.product((0.0, 1.0), repeat=3)]     # 3 x 1
            out += [(k, d) for d in rowconst(2, 3, -1.0)]                                                # 2 x 3
        for k in ('a2b', 'SAb'):
            out += [(k, ((False, False, False),)), (k, ((True, True, True),))]
            out += [(k, tuple((x,) for x in col)) for col in itertools.product(BOOLS, repeat=3)]
    for k in ('a2', 'SA'): out += [(k, d) for d in rowconst(3, 2, -1.0)]                               # 3 x 2 (row-count mismatch with 2-row targets)
    for k in ('a2b', 'SAb'): out += [(k, d) for d in rowconst_b(3, 2)]
    return out


def targets(tk, tier):
    th = tier == 'thorough'
    out = []
    if tk == 'SV':
        for n in range(1, (3 if th else 2) + 1):
            out += [('SV', d) for d in _grid((n,), VALS)]
    elif tk == 'SLV':
        for n in range(1, (3 if th else 2) + 1):
            out += [('SLV', d) for d in _grid((n,), BOOLS)]
    elif tk == 'SA':
        for shp in [(1, 1), (1, 2), (2, 1), (2, 2)] + ([(2, 3), (1, 3)] if th else []):
            ne = shp[0] * shp[1]
            fv = VALS if ne <= 2 else ((VALS3 if th else VALS2) if ne <= 4 else VALS2)
            out += [('SA', d) for d in _grid(shp, fv)]
    elif tk == 'SAb':
        for shp in [(1, 1), (1, 2), (2, 1), (2, 2)] + ([(2, 3), (1, 3)] if th else []):
            out += [('SAb', d) for d in _grid(shp, BOOLS)]
    return out


def rot(lst, seed):
    if not lst: return lst
    k = seed % len(lst)
    return lst[k:] + lst[:k]


def _flat(data):
    for x in data:
        if isinstance(x, tuple): yield from _flat(x)
        else: yield x


def representative(spec):
    """operands kept for shape-INCOMPATIBLE pairings (where NumPy rejects whatever the values are): EVERY zero / non-zero pattern
    (all-zero, all-non-zero, every mixed pattern incl. all-zero rows) with a single magnitude 1 or -1 -- the sparse kernels branch on
    which entries are stored, not on their values"""
    vals = set(_flat(spec[1])) if isinstance(spec[1], tuple) else {spec[1]}
    vals.discard(0)                                  # 0.0 == 0 == False
    return len(vals) == 0 or (len(vals) == 1 and next(iter(vals)) in (1, -1))        # 1.0 == 1 == True


def representative_value(spec):
    """assigned values kept where NumPy rejects the assignment whatever the value holds: constant contents, all-zero or all-non-zero (1 / -1)"""
    vals = set(_flat(spec[1])) if isinstance(spec[1], tuple) else {spec[1]}
    return len(vals) == 1 and next(iter(vals)) in (0, 1, -1)


def compatible(ts, os_):
    try:
        np.broadcast_shapes(tuple(ts), tuple(os_)); return True
    except ValueError:
        return False


class St:
    __slots__ = ('T', 'td', 'tspec', 'nontriv', 'okey', 'extra')

# ---- Layer 1a: binary / reflected / in-place operators ----------------------------------------------

class OpsSystem(System):
    nontrivial_per_config = True
    def __init__(self, tk):
        self.tk = tk
        self.name = f'c09.ops.{tk}'
        self._acts = {}
        self._tier = 'quick'

    def warm(self): sp()
    def depth(self, tier): return 1
    def configs(self, tier, seed):
        self._tier = tier
        return rot(targets(self.tk, tier), seed)

    def describe(self, tier):
        return dict(target_kind=self.tk, operators=sorted(BIN) + sorted(REFL) + sorted(IOP),
                    operands=len(others(tier, self.tk in ('SA', 'SAb'))),
                    pruning='operands whose shape does not broadcast against the target are kept with every zero/non-zero pattern of one magnitude (1 or -1)')

    def build(self, config):
        st = St()
        st.tspec = config
        st.T, st.td = build_operand(config)
        st.nontriv = False; st.okey = None; st.extra = None
        return st

    def _ops_for(self, ok):
        ops = list(BIN) + list(IOP)
        if ok not in SPARSE_KINDS: ops += list(REFL)
        if self.tk in ('SV', 'SA'):
            # & | ^ on a float array is a TypeError in NumPy whatever the operand: always outside the compared domain, not enumerated
            ops = [o for o in ops if o not in LOGICAL]
        return ops

    def actions(self, st):
        ts = st.td.shape
        key = (self._tier, ts)
        if key not in self._acts:
            acts = []
            for o in others(self._tier, self.tk in ('SA', 'SAb')):
                # shapes that do not broadcast against this target: NumPy rejects whatever the values are -> constant contents only
                if not compatible(ts, shape_of(o)) and not representative(o): continue
                for op in self._ops_for(o[0]): acts.append((op, o))
            self._acts[key] = acts
        return self._acts[key]

    def canon(self, st):
        return (st.tspec, dg(st.T), st.okey)

    def step(self, st, a):
        op, ospec = a
        O, od = build_operand(ospec)
        pat = pattern(st.td.shape, shape_of(ospec))
        st.okey = None
        try:
            obs = do_binary(st.T, st.td, self.tk, op, O, od, ospec[0], pat)
        except Rejected as r:
            st.okey = (self.tk, op, ospec[0], pat, r.what)
            raise
        st.nontriv = nontrivial_binary(st.td, od, op)
        st.okey = (self.tk, op, ospec[0], pat, obs, flags_binary(st.td, od, op))
        return obs

    def nontrivial(self, st, a, obs): return st.nontriv
    def outcome(self, st, a, obs): return repr(st.okey if st.okey is not None else (self.tk, a[0], a[1][0], obs))

# ---- Layer 1a': in-place operators whose operand ALIASES the target ------------------------------------------

def alias_operand(T, td, spec):
    """operand derived from the target itself -> (real operand, dense operand evaluated on the ORIGINAL image).
    NumPy semantics: the operand is read before the update (NumPy buffers overlapping operands)."""
    k = spec[0]
    if k == 'self': return T, td.copy()
    if k == 'openslice': return T[:], td.copy()
    if k == 'rowslice': return T[spec[1]:spec[1] + 1], td[spec[1]:spec[1] + 1].copy()
    if k == 'rows': return T[spec[1]:spec[2]], td[spec[1]:spec[2]].copy()
    if k == 'row': return T[spec[1]], td[spec[1]].copy()
    if k == 'negrow': return T[-1], td[-1].copy()
    if k == 'rowlist': return [T[spec[1]]], td[spec[1]:spec[1] + 1].copy()
    if k == 'rowtuple': return (T[spec[1]],), td[spec[1]:spec[1] + 1].copy()
    if k == 'fancy': return T[[spec[1]]], td[[spec[1]]].copy()
    if k == 'mask': 
        m = [i == spec[1] for i in range(len(td))]
        return T[np.array(m)], td[np.array(m)].copy()
    if k == 'col': return T[:, spec[1]:spec[1] + 1], td[:, spec[1]:spec[1] + 1].copy()
    if k == 'colint': return T[:, spec[1]], td[:, spec[1]].copy()
    if k == 'selflist': return [T], td[None].copy() if td.ndim == 1 else td.copy()[None]
    if k == 'half': return T[0:1], td[0:1].copy()            # vectors: a slice (a dense copy in the library)
    raise ValueError(spec)


class AliasSystem(OpsSystem):
    """target op= <operand taken from the target itself>: one-row 2-d slices sa[k:k+1] (every k), row views sa[k], the target itself, multi-row
    slices, a row inside a list / tuple, fancy / mask selections, column slices; every in-place operator; compared with NumPy on a copy of the
    dense image with the operand evaluated BEFORE the update."""
    def __init__(self, tk):
        super().__init__(tk)
        self.name = f'c09.alias.{tk}'
    def describe(self, tier): return dict(target_kind=self.tk)
    def configs(self, tier, seed):
        self._tier = tier
        th = tier == 'thorough'
        tk = self.tk
        if tk == 'SV': return rot([('SV', d) for n in (1, 2, 3) for d in _grid((n,), VALS)], seed)
        if tk == 'SLV': return rot([('SLV', d) for n in (1, 2, 3) for d in _grid((n,), BOOLS)], seed)
        if tk == 'SAb':
            return rot([('SAb', d) for shp in ((2, 2), (3, 2), (1, 2)) for d in _grid(shp, BOOLS)], seed)
        out = [('SA', d) for d in _grid((2, 2), VALS if th else VALS3)] + [('SA', d) for d in _grid((1, 2), VALS)]
        out += [('SA', d) for d in _grid((3, 2), VALS3 if th else VALS2)]
        out += [('SA', ((1.0, 0.5), (0.5, -1.0), (-1.0, 1.0))), ('SA', ((0.5, 0.0), (0.0, 1.0), (1.0, -1.0)))]      # fractions, both tiers
        return rot(out, seed)
    def actions(self, st):
        shp = st.td.shape
        key = shp
        if key not in self._acts:
            if len(shp) == 1:
                specs = [('self',), ('openslice',), ('selflist',), ('half',)]
            else:
                m, n = shp
                specs = [('self',), ('openslice',), ('negrow',)]
                for k in range(m): specs += [('rowslice', k), ('row', k), ('rowlist', k), ('rowtuple', k), ('fancy', k), ('mask', k)]
                for a in range(m):
                    for b in range(a + 2, m + 1): specs.append(('rows', a, b))
                for j in range(n): specs += [('col', j), ('colint', j)]
            ops = list(IOP) if self.tk in ('SLV', 'SAb') else [o for o in IOP if o not in LOGICAL]
            self._acts[key] = [(op, sp_) for sp_ in specs for op in ops]
        return self._acts[key]
    def step(self, st, a):
        op, spec = a
        T, td = st.T, st.td
        st.okey = None
        try:
            O, od = alias_operand(T, td, spec)
        except Exception as e:
            raise Violation('unexpected-exception', f'taking {spec!r} of the target raises {type(e).__name__}: {e}',
                            match=dict(fam='alias', tk=self.tk, okc='alias-' + spec[0], dev=type(e).__name__))
        ok = 'alias-' + spec[0]
        pat = pattern(td.shape, np.shape(od))
        f = IOP[op]; g = BIN[op[1:]]
        match = dict(fam='alias', tk=self.tk, opc=op_class(op), okc=ok, pcat=pattern_cat(pat, 'sparse2' if np.ndim(od) == 2 else 'sparse1'))
        c = Case(match, T, td, O, od, inplace=True, grow_ok=(lambda x, y: g(x, y)), result='self', fine=dict(op=op, spec=spec, pat=pat))
        c.alias = True
        try:
            obs = c.run(lambda x, y: f(x, y), lambda x, y: f(x, y))
        except Rejected as r:
            st.okey = (self.tk, op, ok, pat, r.what); raise
        new = image(T)
        st.nontriv = bool(np.any(new != td)) and spec[0] not in ('fancy', 'mask', 'col', 'colint', 'half')
        st.okey = (self.tk, op, ok, pat, obs, bool(np.any((td != 0) & (new == 0))) if new.shape == td.shape else None)
        return obs

# ---- Layer 1b: unary operators, conversions, reductions, queries ----------------------------------------

def _coords(res):
    """index tuple -> sorted list of coordinate tuples"""
    if not isinstance(res, tuple): raise TypeError(f'expected a tuple of index lists, got {type(res).__name__}')
    cols = [list(map(int, c)) for c in res]
    return sorted(zip(*cols)) if cols else []

def _np_coords(cond):
    return sorted(zip(*[list(map(int, c)) for c in np.nonzero(cond)]))


def unary_actions(tk, tier):
    acts = [('neg',), ('abs',), ('invert',), ('copy',), ('to_array',), ('astype', 'float'), ('astype', 'bool'), ('tolist',),
            ('len',), ('iter',), ('bool',), ('float',), ('int',), ('shape',), ('size',), ('vector_size',), ('ndim',), ('dtype',), ('value',),
            ('to_flat_array',), ('nonzero',), ('nonzero_index',), ('positive_index',), ('negative_index',), ('nonzero_keys',),
            ('nonzero_values',), ('nonzero_items',), ('negative_keys',), ('has_negatives',), ('remove_negatives',), ('clear',),
            ('asarray',), ('repr',)]
    if tk in ('SA', 'SAb'): acts += [('nonzero_rows',), ('negative_rows',)]
    if tk == 'SLV': acts.remove(('clear',))          # SparseLogicalVector offers no clear()
    axes = (None, 0, 1, 2) if tk in ('SA', 'SAb') else (None, 0, 1)
    for name in ('sum', 'mean', 'max', 'min', 'any', 'all'):
        for ax in axes:
            for kd in (False, True):
                acts.append(('red', name, ax, kd))
    return acts


def do_unary(T, td, tk, a):
    S = sp()
    name = a[0]
    match = dict(fam='unary', tk=tk, op=name)
    if name == 'red':
        _, meth, ax, kd = a
        match = dict(fam='reduction', tk=tk, op=meth)
        c = Case(match, T, td, fine=dict(axis=repr(ax), keepdims=kd))
        return c.run(lambda t, _: getattr(t, meth)(axis=ax, keepdims=kd), lambda d, _: getattr(d, meth)(axis=ax, keepdims=kd))
    c = Case(match, T, td)
    if name == 'neg': return c.run(lambda t, _: -t, lambda d, _: -d)
    if name == 'abs': return c.run(lambda t, _: abs(t), lambda d, _: abs(d))
    if name == 'invert': return c.run(lambda t, _: ~t, lambda d, _: ~d)
    if name == 'copy': return c.run(lambda t, _: t.copy(), lambda d, _: d.copy())
    if name == 'to_array': return c.run(lambda t, _: t.to_array(), lambda d, _: d.copy())
    if name == 'value': return c.run(lambda t, _: t.value, lambda d, _: d.copy())
    if name == 'asarray': return c.run(lambda t, _: np.asarray(t), lambda d, _: d.copy())
    if name == 'astype':
        dt = float if a[1] == 'float' else bool
        match['op'] = f'astype-{a[1]}'
        return c.run(lambda t, _: t.astype(dt), lambda d, _: d.astype(dt))
    if name == 'tolist': return c.run(lambda t, _: t.tolist(), lambda d, _: d.tolist(), norm=lambda r: r)
    if name == 'iter':
        return c.run(lambda t, _: [image(i).tolist() for i in t], lambda d, _: [np.asarray(i).tolist() for i in d], norm=lambda r: r)
    if name == 'len': return c.run(lambda t, _: len(t), lambda d, _: len(d), norm=lambda r: r)
    if name == 'bool': return c.run(lambda t, _: bool(t), lambda d, _: bool(d), norm=lambda r: r)
    if name == 'float': return c.run(lambda t, _: float(t), lambda d, _: float(d), norm=lambda r: r)
    if name == 'int': return c.run(lambda t, _: int(t), lambda d, _: int(d), norm=lambda r: r)
    if name == 'shape': return c.run(lambda t, _: t.shape, lambda d, _: d.shape, norm=lambda r: tuple(r))
    if name == 'size': return c.run(lambda t, _: t.size, lambda d, _: d.size, norm=lambda r: r)
    if name == 'ndim': return c.run(lambda t, _: t.ndim, lambda d, _: d.ndim, norm=lambda r: r)
    if name == 'vector_size': return c.run(lambda t, _: t.vector_size, lambda d, _: d.shape[-1], norm=lambda r: r)
    if name == 'dtype': return c.run(lambda t, _: t.dtype is bool, lambda d, _: d.dtype == bool, norm=lambda r: bool(r))
    if name == 'repr': return c.run(lambda t, _: repr(t).replace('sparse', 'array', 1).replace('\n ', '\n'), lambda d, _: repr(d), norm=lambda r: r)
    if name == 'to_flat_array': return c.run(lambda t, _: t.to_flat_array(), lambda d, _: d.ravel().astype(float) if d.ndim == 2 else d.copy())
    if name in ('nonzero', 'nonzero_index', 'positive_index', 'negative_index'):
        cond = {'nonzero': lambda d: d != 0, 'nonzero_index': lambda d: d != 0, 'positive_index': lambda d: d > 0,
                'negative_index': lambda d: d < 0}[name]
        return c.run(lambda t, _: getattr(t, name)(), lambda d, _: _np_coords(cond(d)), norm=_coords)
    if name == 'nonzero_keys':
        return c.run(lambda t, _: t.nonzero_keys(), lambda d, _: sorted(set(map(int, np.nonzero(d)[-1]))), norm=lambda r: sorted(map(int, r)))
    if name == 'negative_keys':
        return c.run(lambda t, _: t.negative_keys(), lambda d, _: sorted(set(map(int, np.nonzero(d < 0)[-1]))), norm=lambda r: sorted(map(int, r)))
    if name == 'nonzero_rows':
        return c.run(lambda t, _: t.nonzero_rows(), lambda d, _: sorted(set(map(int, np.nonzero(d)[0]))), norm=lambda r: sorted(map(int, r)))
    if name == 'negative_rows':
        return c.run(lambda t, _: t.negative_rows(), lambda d, _: sorted(set(map(int, np.nonzero(d < 0)[0]))), norm=lambda r: sorted(map(int, r)))
    if name == 'nonzero_values':
        return c.run(lambda t, _: t.nonzero_values(), lambda d, _: sorted(float(x) for x in d[d != 0]), norm=lambda r: sorted(float(x) for x in r))
    if name == 'nonzero_items':
        def refitems(d, _):
            if d.ndim == 1: return sorted((int(i), float(d[i])) for i in np.nonzero(d)[0])
            return sorted(((int(i), int(j)), float(d[i, j])) for i, j in zip(*np.nonzero(d)))
        def normitems(r):
            out = []
            for k, v in r:
                out.append(((int(k[0]), int(k[1])) if isinstance(k, tuple) else int(k), float(v)))
            return sorted(out)
        return c.run(lambda t, _: t.nonzero_items(), refitems, norm=normitems)
    if name == 'has_negatives':
        return c.run(lambda t, _: t.has_negatives(), lambda d, _: bool((d < 0).any()), norm=lambda r: r if isinstance(r, (bool, np.bool_)) else ('not-a-bool', r))
    if name in ('remove_negatives', 'clear'):
        c = Case(match, T, td, inplace=True, result='any')
        if name == 'clear':
            def ref(d, _):
                d[...] = 0; return d
            return c.run(lambda t, _: t.clear(), ref)
        def ref(d, _):
            if d.dtype != bool: d[d < 0] = 0
            return d
        return c.run(lambda t, _: t.remove_negatives(), ref)
    raise ValueError(a)


class UnarySystem(OpsSystem):
    def __init__(self, tk):
        super().__init__(tk)
        self.name = f'c09.unary.{tk}'
    def describe(self, tier): return dict(target_kind=self.tk, operations=len(unary_actions(self.tk, tier)))
    def configs(self, tier, seed):
        self._tier = tier
        return rot(targets(self.tk, 'thorough'), seed)        # cheap: both tiers use the thorough target set
    def actions(self, st):
        return unary_actions(self.tk, self._tier)
    def step(self, st, a):
        st.okey = None
        try:
            obs = do_unary(st.T, st.td, self.tk, a)
        except Rejected as r:
            st.okey = (self.tk, a, r.what); raise
        d = st.td
        st.nontriv = bool((d != 0).any() and (d == 0).any()) or (d.dtype != bool and bool((d < 0).any()))
        st.okey = (self.tk, a, obs, bool((d != 0).any()), bool((d == 0).any()), bool(d.dtype != bool and (d < 0).any()))
        return obs

# ---- Layer 1c: item access -------------------------------------------------------------------------------

def mk_index(ix):
    """JSON index spec -> (real index, numpy index)"""
    S = sp()
    k = ix[0]
    if k == 'int': return ix[1], ix[1]
    if k == 'npint': return np.int64(ix[1]), np.int64(ix[1])
    if k == 'slice': s = slice(*ix[1]); return s, s
    if k == 'list': return list(ix[1]), list(ix[1])
    if k == 'arr': return np.array(ix[1], int), np.array(ix[1], int)
    if k == 'blist': return [bool(b) for b in ix[1]], [bool(b) for b in ix[1]]
    if k == 'barr': return np.array(ix[1], bool), np.array(ix[1], bool)
    if k == 'bslv':
        return S.SparseLogicalVector.from_set({i for i, b in enumerate(ix[1]) if b}, len(ix[1])), np.array(ix[1], bool)
    if k == 'barr2': return np.array(ix[1], bool), np.array(ix[1], bool)
    if k == 'bsa':
        rows = [S.SparseLogicalVector.from_set({i for i, x in enumerate(r) if x}, len(r)) for r in ix[1]]
        return S.SparseArray.from_rows(rows), np.array(ix[1], bool)
    if k == 'ellipsis': return Ellipsis, Ellipsis
    if k == 'tuple':
        parts = [mk_index(p) for p in ix[1]]
        return tuple(p[0] for p in parts), tuple(p[1] for p in parts)
    raise ValueError(ix)


def index_class(ix, n=None):
    """class of an index form; n = length of the indexed axis (tuple of lengths for a tuple index)"""
    k = ix[0]
    if k in ('int', 'npint'): return k if ix[1] >= 0 else 'neg' + k
    if k == 'slice':
        a, b, *c = ix[1]
        step = c[0] if c else None
        if step is not None and step < 0: return 'slice-negstep'
        if (a is not None and a < 0) or (b is not None and b < 0): return 'slice-neg'
        if isinstance(n, int) and ((a is not None and a > n) or (b is not None and b > n)): return 'slice-over'
        if a is None and b is None and step is None: return 'slice-open'
        if step is not None: return 'slice-step'
        return 'slice'
    if k in ('list', 'arr'):
        if len(ix[1]) == 0: return k + '-empty'
        if any(i < 0 for i in ix[1]): return k + '-neg'
        if len(set(ix[1])) < len(ix[1]): return k + '-rep'
        return k
    if k == 'tuple':
        ns = n if isinstance(n, tuple) else (n,) * len(ix[1])
        return '(' + ','.join(index_class(p, ns[i] if i < len(ns) else None) for i, p in enumerate(ix[1])) + ')'
    return k


def index_fam(ix):
    """family of an index form: int | slice | fancy (list / integer array) | mask (boolean list / array / sparse), per axis"""
    k = ix[0]
    if k == 'tuple': return ','.join(index_fam(p) for p in ix[1])
    if k in ('int', 'npint'): return 'int'
    if k == 'slice': return 'slice'
    if k in ('list', 'arr'): return 'fancy'
    if k in ('barr2', 'bsa'): return 'mask2'
    return 'mask'


def whole_rows(ix, ndim):
    """True when the index selects complete rows (vector: the open slice; array: no column index or an open column slice):
    such an assignment replaces the contents of each selected row (`row[:] = value`)."""
    if ix[0] == 'tuple':
        parts = ix[1]
        if len(parts) == 1: return ndim == 1 and whole_rows(parts[0], 1) or ndim == 2
        last = parts[-1]
        return last[0] == 'slice' and tuple(last[1]) == (None, None)
    if ndim == 2: return ix[0] != 'barr2' and ix[0] != 'bsa'
    return ix[0] == 'slice' and tuple(ix[1]) == (None, None)


def value_class(ishape, vshape):
    """relation between the shape selected by the index and the shape of the assigned value"""
    if vshape == (): return 'scalar'
    vshape = tuple(vshape)
    while len(vshape) > len(ishape) and vshape[0] == 1: vshape = vshape[1:]      # NumPy drops leading length-1 axes of an assigned value
    if tuple(ishape) == tuple(vshape): return 'fit'
    try:
        b = np.broadcast_shapes(tuple(ishape), tuple(vshape))
    except ValueError:
        return 'mismatch'
    return 'broadcast' if b == tuple(ishape) else 'mismatch'


def index_cat(icls):
    """coarse category of an index class (for the known-findings matcher)"""
    if 'neg' in icls: return 'negative'
    if 'over' in icls: return 'slice-over'
    return 'regular'


def vec_indices(n, tier):
    th = tier == 'thorough'
    out = []
    for i in range(n): out.append(('int', i))
    for i in range(1, n + 1): out.append(('int', -i))
    out.append(('npint', 0))
    sl = [(None, None), (0, 1), (1, None), (None, 2), (None, None, 2), (1, 1), (-1, None), (None, -1), (None, None, -1)]
    if th: sl += [(0, n), (1, n), (0, None, 2), (1, None, 2)]
    for s in sl: out.append(('slice', s))
    lists = [()] + [(i,) for i in range(n)] + [(i, j) for i in range(n) for j in range(n)]
    if th and n >= 3: lists += [(0, 1, 2), (2, 0, 1)]
    lists += [(-1,)]
    for l in lists:
        out.append(('list', l)); out.append(('arr', l))
    for b in itertools.product(BOOLS, repeat=n):
        out.append(('blist', b)); out.append(('barr', b)); out.append(('bslv', b))
    out.append(('tuple', (('int', 0),)))
    out.append(('tuple', (('slice', (None, None)),)))
    out.append(('tuple', (('list', (0,)),)))
    out.append(('tuple', (('barr', tuple([True] * n)),)))
    return out


def arr_indices(m, n, tier):
    th = tier == 'thorough'
    out = []
    rows = [('int', i) for i in range(m)] + [('int', -1)] + [('slice', (None, None)), ('slice', (0, 1)), ('slice', (1, None))]
    rows += [('list', (0,)), ('list', tuple(range(m))), ('list', tuple(reversed(range(m)))), ('arr', (0,)), ('arr', tuple(range(m))), ('list', (0, 0))]
    rows += [('blist', b) for b in itertools.product(BOOLS, repeat=m)] + [('barr', b) for b in itertools.product(BOOLS, repeat=m)]
    if th: rows += [('bslv', b) for b in itertools.product(BOOLS, repeat=m)] + [('list', ())]
    cols = [('int', j) for j in range(n)] + [('int', -1)] + [('slice', (None, None)), ('slice', (0, 1)), ('slice', (1, None))]
    cols += [('list', (0,)), ('list', tuple(range(n))), ('arr', tuple(range(n)))]
    cols += [('barr', b) for b in itertools.product(BOOLS, repeat=n)]
    if th: cols += [('blist', b) for b in itertools.product(BOOLS, repeat=n)] + [('list', tuple(reversed(range(n))))]
    out += rows                                   # single (row) index
    for r in rows:
        for c in cols: out.append(('tuple', (r, c)))
    for b in _grid((m, n), BOOLS):
        out.append(('barr2', b))
        if th: out.append(('bsa', b))
    return out


def value_specs(tier, boolean):
    """values assigned by __setitem__"""
    th = tier == 'thorough'
    out = []
    if boolean:
        out += [('pb', True), ('pb', False), ('pi', 1), ('pi', 0), ('nb', True)]
        for n in (1, 2, 3):
            for d in _grid((n,), BOOLS):
                out.append(('a1b', d)); out.append(('l1b', d)); out.append(('SLV', d))
        for shp in ((1, 1), (1, 2), (2, 1), (2, 2)):
            for d in _grid(shp, BOOLS):
                out.append(('a2b', d))
                if th: out.append(('SAb', d))
    else:
        fv = VALS if th else (0.0, 1.0, -0.5) if False else VALS3
        out += [('pf', v) for v in VALS] + [('pi', 1), ('pi', 0), ('pb', True), ('pb', False), ('n0', 0.0), ('n0', 0.5), ('nf', 0.0), ('nf', 0.5)]
        for n in (1, 2, 3):
            vs = fv if n < 3 else VALS2 + (1.0,) if th else VALS2
            for d in _grid((n,), vs):
                out.append(('a1', d)); out.append(('l1', d)); out.append(('SV', d))
        for d in _grid((2,), BOOLS): out.append(('a1b', d)); out.append(('SLV', d))
        for shp in ((1, 1), (1, 2), (2, 1), (2, 2)) + (((2, 3),) if th else ()):
            for d in _grid(shp, VALS2 if shp[0] * shp[1] > 2 else VALS3):
                out.append(('a2', d)); out.append(('l2', d))
                if th or shp[0] * shp[1] <= 2: out.append(('SA', d))
    return out


class IndexSystem(OpsSystem):
    def __init__(self, tk):
        super().__init__(tk)
        self.name = f'c09.index.{tk}'
    def describe(self, tier): return dict(target_kind=self.tk)
    def configs(self, tier, seed):
        self._tier = tier
        if self.tk in ('SA', 'SAb'):
            # item access does not depend on many distinct contents: one dense, one mixed, one zero pattern per shape (+ all in thorough 2x2)
            out = []
            shapes = [(1, 2), (2, 1), (2, 2)] + ([(2, 3)] if tier == 'thorough' else [])
            for shp in shapes:
                if self.tk == 'SA':
                    pats = [tuple(tuple(VALS[(i * shp[1] + j + 1) % 4] for j in range(shp[1])) for i in range(shp[0])),
                            tuple(tuple(-0.5 - i - 2 * j for j in range(shp[1])) for i in range(shp[0])),
                            tuple(tuple(0.0 for j in range(shp[1])) for i in range(shp[0]))]
                    if tier == 'thorough' and shp == (2, 2): pats += [d for d in _grid(shp, VALS2) if d not in pats]
                else:
                    pats = [tuple(tuple(bool((i + j) % 2) for j in range(shp[1])) for i in range(shp[0])),
                            tuple(tuple(True for j in range(shp[1])) for i in range(shp[0])),
                            tuple(tuple(False for j in range(shp[1])) for i in range(shp[0]))]
                    if tier == 'thorough' and shp == (2, 2): pats += [d for d in _grid(shp, BOOLS) if d not in pats]
                out += [(self.tk, p) for p in pats]
            return rot(out, seed)
        return rot(targets(self.tk, tier), seed)

    def actions(self, st):
        shp = st.td.shape
        key = (self._tier, shp)
        if key not in self._acts:
            boolean = self.tk in ('SLV', 'SAb')
            idx = vec_indices(shp[0], self._tier) if len(shp) == 1 else arr_indices(shp[0], shp[1], self._tier)
            vals = value_specs(self._tier, boolean)
            acts = [('get', ix) for ix in idx]
            dummy = np.zeros(shp)
            for ix in idx:
                try: ishape = dummy[mk_index(ix)[1]].shape
                except Exception: ishape = None
                for v in vals:
                    # a value that cannot be broadcast to the selection is rejected by NumPy whatever it holds -> constant contents only
                    if ishape is not None and value_class(ishape, shape_of(v)) == 'mismatch' and not representative_value(v): continue
                    acts.append(('set', ix, v))
            self._acts[key] = acts
        return self._acts[key]

    def step(self, st, a):
        T, td = st.T, st.td
        ri, ni = mk_index(a[1])
        shp = td.shape
        icls = index_class(a[1], shp[0] if (len(shp) == 1 or a[1][0] != 'tuple') else shp)
        icat = index_cat(icls)
        st.okey = None
        try:
            if a[0] == 'get':
                match = dict(fam='getitem', tk=self.tk, ifam=index_fam(a[1]), icat=icat)
                c = Case(match, T, td, check_alias=False, fine=dict(index=icls))
                obs = c.run(lambda t, _: t[ri], lambda d, _: d[ni])
                st.nontriv = bool((td != 0).any() and (td == 0).any())
                st.okey = (self.tk, 'get', icls, obs)
                return obs
            V, vd = build_operand(a[2])
            vshape = shape_of(a[2])
            try: ishape = td[ni].shape
            except Exception: ishape = None
            match = dict(fam='setitem', tk=self.tk, ifam=index_fam(a[1]), icat=icat,
                         vcls=value_class(ishape, vshape) if ishape is not None else 'n/a', vkc=operand_class(a[2][0]),
                         whole=whole_rows(a[1], td.ndim))
            c = Case(match, T, td, V, vd, inplace=True, grow_ok=None, result='any', fine=dict(index=icls, vk=a[2][0], vshape=repr(vshape)))
            def ref(d, v):
                d[ni] = v
                return d
            def real(t, v):
                t[ri] = v
            before = td.copy()
            obs = c.run(real, ref)
            after = image(T)
            st.nontriv = bool(((before != 0) & (after == 0)).any() or ((before == 0) & (after != 0)).any())
            st.okey = (self.tk, 'set', icls, a[2][0], vshape, obs,
                       bool(((before != 0) & (after == 0)).any()), bool(((before == 0) & (after != 0)).any()))
            return obs
        except Rejected as r:
            st.okey = (self.tk, a[0], icls, a[2][0] if len(a) > 2 else None, r.what)
            raise

# ---- Layer 1d: construction ------------------------------------------------------------------------------

CTORS = ('sparse', 'sparse_vector', 'sparse_vector_copy', 'sparse_array', 'sparse_array_copy', 'SparseVector', 'SparseLogicalVector',
         'SparseArray', 'SparseVector_size', 'SparseArray_vs', 'sparse_vs', 'from_flat_array', 'copy_like', 'sparse_equal',
         'SparseVector_dict', 'SparseLogicalVector_set', 'from_size', 'from_shape')

class CtorSystem(System):
    name = 'c09.ctor'
    nontrivial_per_config = True
    def __init__(self): self._tier = 'quick'
    def warm(self): sp()
    def depth(self, tier): return 1
    def configs(self, tier, seed):
        self._tier = tier
        src = [o for o in others(tier) if o[0] not in ('pf', 'pi', 'pb', 'n0', 'nf', 'nb')]
        return rot(src, seed)
    def describe(self, tier): return dict(constructors=list(CTORS))
    def build(self, config):
        st = St(); st.tspec = config
        st.T, st.td = build_operand(config)
        st.nontriv = False; st.okey = None; st.extra = None
        return st
    def canon(self, st): return (st.tspec, dg(st.T), st.okey)
    def actions(self, st):
        return [(c,) for c in CTORS]
    def nontrivial(self, st, a, obs): return st.nontriv
    def outcome(self, st, a, obs): return repr(st.okey)

    def step(self, st, a):
        S = sp()
        name = a[0]
        X, xd = st.T, st.td
        xk = st.tspec[0]
        nd = xd.ndim
        isb = xd.dtype == bool
        match = dict(fam='ctor', op=name, okc=operand_class(xk))
        st.okey = None
        c = Case(match, X, xd, check_alias=True, identity_ok=True)
        same = lambda d, _: d.copy()
        obs = None
        try:
            if name == 'sparse':
                obs = c.run(lambda x, _: S.sparse(x), same)
            elif name == 'sparse_vs':
                if is_sparse(X): raise Rejected('n/a', cut=True)
                obs = c.run(lambda x, _: S.sparse(x, vector_size=xd.shape[-1]), same)
            elif name in ('sparse_vector', 'sparse_vector_copy'):
                if nd != 1: raise Rejected('n/a', cut=True)
                cp = name.endswith('copy')
                c.identity_ok = not cp
                if cp: c.check_alias = True
                obs = c.run(lambda x, _: S.sparse_vector(x, copy=cp), same)
            elif name in ('sparse_array', 'sparse_array_copy'):
                if nd != 2: raise Rejected('n/a', cut=True)
                cp = name.endswith('copy')
                c.identity_ok = not cp
                obs = c.run(lambda x, _: S.sparse_array(x, copy=cp), same)
            elif name == 'SparseVector':
                if nd != 1: raise Rejected('n/a', cut=True)
                c.identity_ok = False
                obs = c.run(lambda x, _: S.SparseVector(x), lambda d, _: d.astype(float))
            elif name == 'SparseVector_size':
                if nd != 1: raise Rejected('n/a', cut=True)
                c.identity_ok = False
                obs = c.run(lambda x, _: S.SparseVector(x, size=len(xd)), lambda d, _: d.astype(float))
            elif name == 'SparseLogicalVector':
                if nd != 1: raise Rejected('n/a', cut=True)
                c.identity_ok = False
                obs = c.run(lambda x, _: S.SparseLogicalVector(x), lambda d, _: d.astype(bool))
            elif name == 'SparseArray':
                if nd != 2: raise Rejected('n/a', cut=True)
                c.identity_ok = False; c.check_alias = False      # rows of a sparse source are documented to be shared (copy=False)
                obs = c.run(lambda x, _: S.SparseArray(x), same)
            elif name == 'SparseArray_vs':
                if nd != 2 or is_sparse(X): raise Rejected('n/a', cut=True)
                obs = c.run(lambda x, _: S.SparseArray(x, vector_size=xd.shape[1]), same)
            elif name == 'SparseVector_dict':
                if nd != 1 or isb: raise Rejected('n/a', cut=True)
                dct = {i: v for i, v in enumerate(xd.tolist())}
                obs = c.run(lambda x, _: S.SparseVector(dct, size=len(xd)), same)
                if dct != {i: v for i, v in enumerate(xd.tolist())}:
                    raise c.viol('operand-modified', 'other', 'constructor changed the dictionary it was given')
            elif name == 'SparseLogicalVector_set':
                if nd != 1 or not isb: raise Rejected('n/a', cut=True)
                s = {i for i, v in enumerate(xd.tolist()) if v}
                obs = c.run(lambda x, _: S.SparseLogicalVector(set(s), size=len(xd)), same)
            elif name == 'from_size':
                if nd != 1: raise Rejected('n/a', cut=True)
                cls = S.SparseLogicalVector if isb else S.SparseVector
                obs = c.run(lambda x, _: cls.from_size(len(xd)), lambda d, _: np.zeros(d.shape, d.dtype))
            elif name == 'from_shape':
                if nd != 2 or isb: raise Rejected('n/a', cut=True)
                obs = c.run(lambda x, _: S.SparseArray.from_shape(xd.shape), lambda d, _: np.zeros(d.shape))
            elif name == 'from_flat_array':
                # target: a zero/ones sparse object of the same shape and kind; source: flat dense array of X
                tgt_d = np.ones(xd.shape, xd.dtype) if not isb else np.ones(xd.shape, bool)
                tk = ('SAb' if isb else 'SA') if nd == 2 else ('SLV' if isb else 'SV')
                Tt, _ = build_operand((tk, tuple(map(tuple, tgt_d.tolist())) if nd == 2 else tuple(tgt_d.tolist())))
                flat = xd.ravel().copy()
                c2 = Case(dict(match, tk=tk), Tt, tgt_d, flat, flat.copy(), inplace=True, grow_ok=None, result='any')
                obs = c2.run(lambda t, f: t.from_flat_array(f), lambda d, f: f.reshape(d.shape).astype(d.dtype))
            elif name == 'copy_like':
                if not is_sparse(X): raise Rejected('n/a', cut=True)
                if xk == 'SLV': raise Rejected('n/a', cut=True)       # SparseLogicalVector has no copy_like
                tgt_d = np.full(xd.shape, True if isb else -0.5)
                Tt, _ = build_operand((xk, tuple(map(tuple, tgt_d.tolist())) if nd == 2 else tuple(tgt_d.tolist())))
                c2 = Case(dict(match, tk=xk), Tt, tgt_d, X, xd, inplace=True, grow_ok=None, result='any')
                obs = c2.run(lambda t, o: t.copy_like(o), lambda d, o: np.asarray(o).astype(d.dtype).copy())
                if containers(Tt) & containers(X):
                    raise c2.viol('result-shares-storage', 'container', 'copy_like left the target sharing storage with the source')
            elif name == 'sparse_equal':
                # X against itself (as its own kind and as a dense array) and against a perturbed copy
                if not is_sparse(X): raise Rejected('n/a', cut=True)
                for other_d in (xd.copy(), np.where(xd != 0, xd, 1).astype(xd.dtype), np.where(xd != 0, xd * 0, xd).astype(xd.dtype),
                                (xd * 2).astype(xd.dtype) if not isb else ~xd):
                    for as_sparse in (False, True):
                        if as_sparse:
                            Ok, _ = build_operand((xk, tuple(map(tuple, other_d.tolist())) if nd == 2 else tuple(other_d.tolist())))
                        else:
                            Ok = other_d.copy()
                        c3 = Case(dict(match, other='sparse' if as_sparse else 'dense'), X, xd, Ok, other_d, check_alias=False)
                        obs = c3.run(lambda x, o: x.sparse_equal(o), lambda d, o: bool(np.array_equal(d, o)), norm=lambda r: bool(r))
            else:
                raise ValueError(name)
        except Rejected as r:
            st.okey = (name, xk, nd, r.what); raise
        st.nontriv = bool((xd != 0).any() and (xd == 0).any())
        st.okey = (name, xk, nd, bool(isb), obs)
        return obs

# ---- Layer 1e: read-only targets ----------------------------------------------------------------------------

def ro_actions(tk, tier):
    acts = []
    if tk in ('SLV', 'SAb'):
        oth = [('pb', True), ('pb', False), ('a1b', (True, False)), ('a1b', (False, False)), ('l1b', (True, True)), ('SLV', (False, True)),
               ('SLV', (True,)), ('a2b', ((True, False), (False, True))), ('SAb', ((True, True), (False, True))), ('SAb', ((True, False),))]
        for op in ('iadd', 'imul', 'iand', 'ior', 'ixor'):
            for o in oth: acts.append(('iop', op, o))
        idx = vec_indices(2, 'quick') if tk == 'SLV' else arr_indices(2, 2, 'quick')
        vals = [('pb', True), ('pb', False), ('a1b', (True, False)), ('a1b', (False,)), ('SLV', (False, True)), ('a2b', ((False, True), (True, False)))]
        for ix in idx:
            for v in vals: acts.append(('set', ix, v))
        acts += [('from_flat_array',), ('copy_like',)] + ([('clear',)] if tk == 'SAb' else [])
        return acts
    oth = [('pf', 1.0), ('pf', 0.0), ('pf', 0.5), ('pi', 2), ('a1', (1.0, -1.0)), ('a1', (0.0, 0.5)), ('l1', (1.0, 1.0)), ('SV', (1.0, 0.0)),
           ('SV', (-1.0, 0.5)), ('SV', (1.0,)), ('a2', ((1.0, 1.0), (0.5, -1.0))), ('SA', ((1.0, 1.0), (0.5, -1.0))), ('a1', (1.0,)),
           ('a2', ((1.0, -1.0),)), ('SA', ((1.0, -1.0),))]
    for op in ('iadd', 'isub', 'imul', 'itruediv'):
        for o in oth: acts.append(('iop', op, o))
    if tk == 'SV':
        idx = vec_indices(2, 'quick')
    else:
        idx = arr_indices(2, 2, 'quick')
    vals = [('pf', 0.0), ('pf', 0.5), ('a1', (0.5, 0.0)), ('a1', (-1.0,)), ('SV', (0.0, 1.0)), ('a2', ((0.0, 0.5), (1.0, 0.0))), ('l1', (0.0, 0.0))]
    for ix in idx:
        for v in vals: acts.append(('set', ix, v))
    acts += [('clear',), ('remove_negatives',), ('from_flat_array',), ('copy_like',)]
    if tk == 'SV': acts += [('mix_from', 0), ('mix_from', 1)]
    return acts


class ReadOnlySystem(System):
    """Every write path against a target that is read-only as a whole or in SOME of its rows (config[2] = one flag per row; a frozen
    vector shared as a row of an array is the same thing).  Oracle, evaluated for every write:
      * the contents of a read-only vector / row never change;
      * a write that raises has modified nothing at all (no earlier row may be written before the rejection);
      * a write that returns normally has produced exactly NumPy's result on the dense image (so it cannot have skipped the
        read-only rows silently) -- together with the first clause this means it did not need to touch a read-only row.
    Operations that NumPy itself cannot evaluate for a non-shape reason are outside the domain and skipped."""
    nontrivial_per_config = True
    def __init__(self, tk):
        self.tk = tk; self.name = f'c09.readonly.{tk}'; self._tier = 'quick'
    def warm(self): sp()
    def depth(self, tier): return 1
    def configs(self, tier, seed):
        self._tier = tier
        if self.tk == 'SV':
            return rot([('SV', d) for d in _grid((2,), VALS)], seed)
        if self.tk in ('SLV', 'SAb'):
            # logical sparse objects can only be made read-only when SparseLogicalVector carries the flag; where it does not
            # (SparseArray.setflags(0) raises AttributeError on logical rows) there is no read-only logical object to examine
            if 'read_only' not in getattr(sp().SparseLogicalVector, '__slots__', ()): return []
            if self.tk == 'SLV': return rot([('SLV', d) for d in _grid((2,), BOOLS)], seed)
            full = [('SAb', d) for d in _grid((2, 2), BOOLS)]
            some = [((True, False), (False, True)), ((True, True), (True, True)), ((False, False), (False, False)), ((False, False), (True, True))]
            out = full + [('SAb', d, f) for f in ((True, False), (False, True)) for d in some]
            if tier == 'thorough':
                d3 = [((True, False), (False, True), (True, True)), ((False, False), (True, True), (False, False))]
                out += [('SAb', d, f) for f in itertools.product(BOOLS, repeat=3) if any(f) and not all(f) for d in d3]
            return rot(out, seed)
        full = [('SA', d) for d in _grid((2, 2), VALS2)] + [('SA', ((1.0, -1.0), (0.5, 0.0)))]
        some = [((1.0, -1.0), (0.5, 0.0)), ((-1.0, -1.0), (-1.0, -1.0)), ((0.0, 0.0), (0.0, 0.0)), ((0.0, 0.0), (1.0, 0.5)), ((-0.5, 1.0), (0.0, 0.0))]
        out = full + [('SA', d, f) for f in ((True, False), (False, True)) for d in some]          # row 0 only / row 1 only
        if tier == 'thorough':
            d3 = [((1.0, -1.0), (0.5, 0.0), (-1.0, 1.0)), ((0.0, 0.0), (1.0, 0.5), (0.0, 0.0))]
            out += [('SA', d, f) for f in itertools.product(BOOLS, repeat=3) if any(f) and not all(f) for d in d3]   # every mixed pattern of 3 rows
        return rot(out, seed)
    def build(self, config):
        st = St(); st.tspec = config
        st.T, st.td = build_operand(config[:2])
        flags = config[2] if len(config) > 2 else None
        if flags is None:
            st.T.setflags(0)
            st.extra = None
        else:
            for row, f in zip(st.T.rows, flags):
                if f: row.setflags(0)
            st.extra = tuple(bool(f) for f in flags)
        st.nontriv = False; st.okey = None
        return st
    def canon(self, st): return (st.tspec, dg(st.T), st.okey)
    def actions(self, st):
        shp = st.td.shape
        if len(shp) == 2 and shp[0] == 3:
            key = ('3rows', self.tk)
            if key not in _RO3: _RO3[key] = ro_actions3(self.tk)
            return _RO3[key]
        return ro_actions(self.tk, self._tier)
    def nontrivial(self, st, a, obs): return st.nontriv
    def outcome(self, st, a, obs): return repr(st.okey)

    def step(self, st, a):
        S = sp()
        T, td = st.T, st.td
        flags = st.extra
        d0 = dg(T)
        ro_rows0 = None if flags is None else [dg(r) for r, f in zip(T.rows, flags) if f]
        kind = a[0]
        opname = a[1] if kind == 'iop' else kind
        match = dict(fam='readonly', tk=self.tk, op=opname, ro='all' if flags is None else 'rows')
        # the same write on a writable dense array: its result (a normal return must reproduce it), a shape rejection (then a
        # rejection is demanded anyway) or outside the domain
        expected = None
        try:
            if kind == 'iop':
                O, od = build_operand(a[2]); match['okc'] = operand_class(a[2][0]); match['op'] = 'iop'
                real = lambda: IOP[a[1]](T, O)
                expected = run_ref(lambda d, o: IOP[a[1]](d, o), td.copy(), od)
            elif kind == 'set':
                ri, ni = mk_index(a[1]); V, vd = build_operand(a[2])
                match['icat'] = index_cat(index_class(a[1], td.shape[0] if (td.ndim == 1 or a[1][0] != 'tuple') else td.shape))
                match['ifam'] = index_fam(a[1])
                def real(): T[ri] = V
                def f(d, v): d[ni] = v; return d
                expected = run_ref(f, td.copy(), vd)
            elif kind == 'clear': real = lambda: T.clear(); expected = np.zeros_like(td)
            elif kind == 'remove_negatives':
                real = lambda: T.remove_negatives(); expected = td.copy()
                if td.dtype != bool: expected[expected < 0] = 0
            elif kind == 'from_flat_array': real = lambda: T.from_flat_array(np.ones(td.size)); expected = np.ones(td.shape, td.dtype)
            elif kind == 'copy_like':
                other = ~td if td.dtype == bool else td + 1
                src, _ = build_operand((self.tk, tuple(map(tuple, other.tolist())) if td.ndim == 2 else tuple(other.tolist())))
                real = lambda: T.copy_like(src); expected = other
            elif kind == 'mix_from':
                src, sd = build_operand(('SV', (1.0, 0.5)))
                real = (lambda: T.mix_from([src])) if a[1] == 0 else (lambda: T.mix_from([src, T]))
                expected = sd.copy() if a[1] == 0 else sd + td
            else: raise ValueError(a)
        except RefOutside as e:
            st.okey = (self.tk, opname, 'outside'); raise Rejected(f'outside-domain:{e}', cut=True)
        except RefShape:
            expected = None
        exc = None
        try: real()
        except Exception as e: exc = e   # noqa
        changed = dg(T) != d0
        ro_changed = changed if flags is None else ([dg(r) for r, f in zip(T.rows, flags) if f] != ro_rows0)
        st.okey = (self.tk, opname, match['ro'], match.get('ifam'), match.get('okc'), type(exc).__name__ if exc else None, changed)
        if ro_changed:
            raise Violation('read-only-modified', f'read-only {"target" if flags is None else "row (flags " + repr(flags) + ")"} changed by {a!r}: {d0!r} -> {dg(T)!r}'
                            + (f' (raised {type(exc).__name__})' if exc else ' (no exception)'),
                            match=dict(match, dev='raised' if exc else 'silent'))
        if exc is not None:
            if changed:
                raise Violation('rejected-but-modified', f'{a!r} raised {type(exc).__name__} after writable rows were already written: {d0!r} -> {dg(T)!r}',
                                match=dict(match, dev=type(exc).__name__))
            st.nontriv = True
            raise Rejected(f'read-only:{type(exc).__name__}', cut=False)
        # returned normally
        p = repr_problems(T)
        if p: raise Violation('representation', f'target after {a!r}: {p[0][1]}', match=dict(match, dev=p[0][0]))
        if expected is None:
            raise Violation('shape-mismatch-not-rejected', f'NumPy rejects {a!r} for its shapes, the sparse write returned normally; target {_short(T)}',
                            match=dict(match, dev='returned'))
        d = compare(image(T), np.asarray(expected).astype(td.dtype))
        if d:
            raise Violation('read-only-partial-write', f'{a!r} returned normally but the target is {image(T).tolist()!r}; the write on a writable array gives '
                            f'{np.asarray(expected).tolist()!r} (flags {flags!r})', match=dict(match, dev=d))
        # a write that does not need to change read-only data (a no-op for these contents, or one that only touches writable rows)
        return ('noop-accepted',) if not changed else ('writable-rows-written',)


_RO3 = {}

def ro_actions3(tk):
    """write paths against a 3 x 2 array with some read-only rows"""
    acts = []
    if tk == 'SAb':
        oth = [('pb', True), ('pb', False), ('a1b', (True, False)), ('SLV', (False, True)), ('SAb', ((True, True), (False, True), (True, False))), ('SAb', ((True, False),))]
        ops = ('iadd', 'imul', 'iand', 'ior', 'ixor')
        vals = [('pb', True), ('pb', False), ('a1b', (True, False)), ('SLV', (False, True))]
    else:
        oth = [('pf', 1.0), ('pf', 0.5), ('pf', 0.0), ('a1', (1.0, -1.0)), ('SV', (-1.0, 0.5)), ('SV', (1.0,)),
               ('a2', ((1.0, 1.0), (0.5, -1.0), (2.0, 0.0))), ('SA', ((1.0, 1.0), (0.5, -1.0), (2.0, 0.0))), ('SA', ((1.0, -1.0),))]
        ops = ('iadd', 'isub', 'imul', 'itruediv')
        vals = [('pf', 0.0), ('pf', 0.5), ('a1', (0.5, 0.0)), ('SV', (0.0, 1.0))]
    for op in ops:
        for o in oth: acts.append(('iop', op, o))
    idx = arr_indices(3, 2, 'quick')
    for ix in idx:
        for v in vals: acts.append(('set', ix, v))
    acts += [('clear',), ('remove_negatives',), ('from_flat_array',), ('copy_like',)]
    return acts

# ---- Layer 2: histories ------------------------------------------------------------------------------------

class HeapSt:
    __slots__ = ('objs', 'mir', 'names', 'nontriv', 'okey', 'lat', 'cfg', 'hist', 'dirty', 'buf')

_MEMO = {}          # (system name, config, history) -> snapshot of a state reached by an accepted transition (per process)
_MEMO_MAX = 150_000

def _snap(st):
    S = sp()
    out = []
    for nm in st.names:
        o = st.objs[nm]
        if o.__class__ is S.SparseVector: r = ('V', o.size, tuple(o.dct.items()), o.read_only)
        elif o.__class__ is S.SparseLogicalVector: r = ('L', o.size, tuple(o.set))
        else: r = ('A', tuple(('V', x.size, tuple(x.dct.items()), x.read_only) if x.__class__ is S.SparseVector else ('L', x.size, tuple(x.set)) for x in o.rows))
        out.append((r, st.mir[nm].copy()))
    return out

def _unsnap_one(r):
    S = sp()
    if r[0] == 'V':
        v = S.SparseVector.from_dict(dict(r[2]), r[1]); v.read_only = r[3]; return v
    if r[0] == 'L': return S.SparseLogicalVector.from_set(set(r[2]), r[1])
    return S.SparseArray.from_rows([_unsnap_one(x) for x in r[1]])


def _on_lattice(arr, den, kmax):
    a = np.asarray(arr, float) * den
    return bool(np.all(a == np.round(a)) and np.all(np.abs(a) <= kmax))


class HeapSystem(System):
    """heap of sparse objects, in-place operations / item assignment between members and constants; the mirror is a dict of dense
    arrays (objects that are rows of A are mirrored through A)."""
    nontrivial_per_config = False
    merge_across_configs = True      # a config only chooses the initial contents; canon() holds every container and the mirror

    def __init__(self, name, n, members, depth_q, depth_t, lattice_q=(4, 16), lattice_t=(16, 64), consts='full', tcap_q=None, tcap_t=None,
                 state_cap=3_000_000, inits=None):
        self.name = name; self.n = n; self.members = members
        self._dq, self._dt = depth_q, depth_t
        self._lq, self._lt = lattice_q, lattice_t
        self.consts = consts
        self._tq, self._tt = tcap_q, tcap_t
        self.state_cap = state_cap
        self._tier = None          # set by configs(); None (plain --replay) uses the thorough lattice, of which the quick one is a subset
        self._acts = {}
        self.inits = inits

    def warm(self): sp()
    def depth(self, tier): return self._dq if tier == 'quick' else self._dt
    def time_cap(self, tier): return self._tq if tier == 'quick' else self._tt
    def describe(self, tier):
        den, kmax = self._lq if tier == 'quick' else self._lt
        return dict(heap=list(self.members), n=self.n, lattice=f'k/{den}, |k|<={kmax}', actions=len(self._actions(tier)))

    def configs(self, tier, seed):
        self._tier = tier
        n = self.n
        if self.inits is not None: return rot(list(self.inits), seed)
        base = [('zero',), ('mixed',)]
        return rot(base, seed)

    def _initial(self, name, config):
        n = self.n
        mixed = config[0] == 'mixed'
        if name == 'v': return ('SV', tuple(([1.0, -1.0, 0.5][:n]) if mixed else [0.0] * n))
        if name == 'w': return ('SV', tuple(([-1.0, 0.0, 1.0][:n]) if mixed else [0.0] * n))
        if name == 'u': return ('SV', ((1.0,) if mixed else (0.0,)))
        if name == 'm': return ('SLV', tuple(([True, False, True][:n]) if mixed else [False] * n))
        if name == 'A': return ('SA', (tuple(([0.5, 1.0, 0.0][:n]) if mixed else [0.0] * n), tuple(([0.0, -1.0, -0.5][:n]) if mixed else [0.0] * n)))
        raise ValueError(name)

    def build(self, config):
        st = HeapSt()
        st.names = list(self.members)
        st.objs = {}; st.mir = {}
        for nm in st.names:
            if nm == 'r': spec = None
            elif config[0] == 'given':
                spec = config[1][st.names.index(nm)]
            else:
                spec = self._initial(nm, config)
            if nm == 'r': continue
            st.objs[nm], st.mir[nm] = build_operand(detuple_spec(spec))
        if 'r' in st.names:          # r IS the first row of A (a view held by the caller, as imol[phase] is a row of imol.data)
            st.objs['r'] = st.objs['A'].rows[0]; st.mir['r'] = st.mir['A'][0]
        st.nontriv = False; st.okey = None
        st.lat = self._lq if self._tier == 'quick' else self._lt
        st.cfg = config; st.hist = ()
        st.dirty = None            # None: check every object (initial state)
        st.buf = {}
        if self.consts == 'buffer':
            # caller-supplied output buffers of to_flat_array, kept across calls (filled with a sentinel that no conversion produces)
            for nm in st.names:
                d = st.mir[nm]
                st.buf[nm] = np.full(d.size, True) if d.dtype == bool else np.full(d.size, 7.0)
        return st

    # -- alphabet
    def _consts(self, tier):
        n = self.n
        if self.consts == 'tiny':
            return [('pf', -1.0), ('pf', 0.5), ('SV', (1.0,) + (0.0,) * (n - 1)), ('a1', (-1.0,) * n)]
        if self.consts == 'buffer': return []
        if self.consts == 'pair':
            return [('pf', -1.0), ('pf', 0.5), ('pf', 2.0), ('pf', 1.0), ('SV', (1.0,) + (0.0,) * (n - 1)), ('a1', (-1.0,) * n),
                    ('a1', (0.0,) * (n - 1) + (2.0,)), ('SV', (-1.0,) * n), ('SV', (0.5,)), ('SV', (0.0,)), ('l1', (2.0, -1.0)[:n])]
        cs = [('pf', 1.0), ('pf', -1.0), ('pf', 0.5), ('pf', 2.0), ('pf', 0.0), ('pf', -0.5)]
        vec = [(1.0,) + (0.0,) * (n - 1), (-1.0,) * n, (0.0,) * (n - 1) + (0.5,), (2.0,) + (-1.0,) * (n - 1), (0.0,) * n]
        if self.consts == 'full':
            vec += [(0.5,) * n, (1.0, -1.0, 1.0)[:n], (-0.5,) + (0.0,) * (n - 1)]
        for d in vec:
            cs.append(('a1', d)); cs.append(('SV', d))
        cs.append(('l1', vec[0]))
        cs.append(('a1', (-1.0,))); cs.append(('SV', (0.5,))); cs.append(('SV', (0.0,)))        # length-1 operands: broadcasting branches
        cs.append(('a1b', (True,) + (False,) * (n - 1)))
        cs.append(('SLV', (False,) * (n - 1) + (True,)))
        if 'A' in self.members:
            cs.append(('a2', (vec[0], vec[1])))
        return cs

    def _actions(self, tier):
        if tier in self._acts: return self._acts[tier]
        n = self.n
        acts = []
        cs = self._consts(tier)
        fl = [m for m in self.members if m in ('v', 'w', 'u', 'A')]
        if self.consts == 'buffer':
            # mutations that create and remove entries / whole rows, and conversion of every member into its reused buffer
            z2 = ((1.0,) * n, (0.0,) * n); z1 = ((0.0,) * n, (1.0,) * n)
            for t in self.members:
                acts.append(('flat', t))
                if t == 'm':
                    acts += [('iop', t, 'iand', ('SLV', (False,) * (n - 1) + (True,))), ('iop', t, 'ior', ('SLV', (True,) + (False,) * (n - 1))),
                             ('set', t, ('int', 0), ('pb', False)), ('set', t, ('int', n - 1), ('pb', True)), ('set', t, ('slice', (None, None)), ('pb', False))]
                elif t == 'A':
                    acts += [('iop', t, 'imul', ('pf', 0.0)), ('iop', t, 'iadd', ('pf', 1.0)), ('iop', t, 'imul', ('a2', z2)), ('iop', t, 'imul', ('a2', z1)),
                             ('iop', t, 'isub', ('heap', 'A')), ('set', t, ('int', 0), ('pf', 0.0)), ('set', t, ('int', 1), ('pf', 0.0)),
                             ('set', t, ('tuple', (('int', 1), ('int', 0))), ('pf', 0.5)), ('set', t, ('tuple', (('int', 0), ('int', n - 1))), ('pf', -1.0)),
                             ('set', t, ('int', 1), ('heap', 'v')), ('call', t, 'clear'), ('call', t, 'remove_negatives')]
                else:
                    acts += [('iop', t, 'imul', ('pf', 0.0)), ('iop', t, 'iadd', ('pf', 1.0)), ('iop', t, 'isub', ('SV', (1.0,) + (0.0,) * (n - 1))),
                             ('set', t, ('int', 0), ('pf', 0.0)), ('set', t, ('int', n - 1), ('pf', 1.0)), ('call', t, 'clear'), ('call', t, 'remove_negatives')]
            self._acts[tier] = acts
            return acts
        if self.consts == 'pair':
            # two interacting vectors, every in-place kernel family (scalar / dense / sparse / length-1 operand, the other heap member and itself)
            for t in self.members:
                for op in ('iadd', 'isub', 'imul', 'itruediv'):
                    for o in self.members: acts.append(('iop', t, op, ('heap', o)))
                    for c in cs: acts.append(('iop', t, op, c))
                o = next(x for x in self.members if x != t)
                acts += [('set', t, ('int', 0), ('pf', 0.0)), ('set', t, ('int', n - 1), ('pf', 1.0)), ('set', t, ('int', 0), ('pf', -0.5)),
                         ('set', t, ('slice', (None, None)), ('heap', o)), ('set', t, ('slice', (None, None)), ('pf', 0.0)),
                         ('set', t, ('barr', (False,) * (n - 1) + (True,)), ('pf', -1.0)), ('set', t, ('list', (0, n - 1)), ('pf', 0.0)),
                         ('call', t, 'remove_negatives'), ('call', t, 'clear'), ('copy_like', t, o),
                         ('mix_from', t, tuple(self.members)), ('mix_from', t, (t, t)), ('mix_from', t, (o, o))]
            self._acts[tier] = acts
            return acts
        if self.consts == 'tiny':
            # small alphabet for the deep search: no division (nothing leaves the NumPy domain), every operand pairing of the heap
            for t in self.members:
                for op in ('iadd', 'isub', 'imul'):
                    for o in self.members:
                        if t != 'A' and o == 'A': continue
                        acts.append(('iop', t, op, ('heap', o)))
                    for c in cs: acts.append(('iop', t, op, c))
                if t == 'A':
                    acts += [('set', t, ('tuple', (('int', 1), ('int', 0))), ('pf', 0.0)), ('set', t, ('int', 0), ('heap', 'v')),
                             ('set', t, ('tuple', (('slice', (None, None)), ('int', n - 1))), ('pf', 1.0))]
                else:
                    partner = next(x for x in ('w', 'v', 'r') if x in self.members and x != t)
                    acts += [('set', t, ('int', 0), ('pf', 0.0)), ('set', t, ('int', n - 1), ('pf', 1.0)),
                             ('set', t, ('slice', (None, None)), ('heap', partner))]
                acts.append(('call', t, 'remove_negatives'))
            self._acts[tier] = acts
            return acts
        for t in self.members:
            ops = ('iadd', 'isub', 'imul', 'itruediv') if t != 'm' else ('iadd', 'imul', 'iand', 'ior', 'ixor')
            for op in ops:
                for o in self.members: acts.append(('iop', t, op, ('heap', o)))
                for c in cs:
                    if t == 'm' and c[0] not in ('a1b', 'SLV', 'pf'): continue
                    if t != 'A' and c[0] == 'a2' and len(c[1]) > 1: continue
                    acts.append(('iop', t, op, c))
            # item assignment
            if t == 'A':
                idx = [('int', 0), ('tuple', (('int', 1), ('int', 0))), ('tuple', (('slice', (None, None)), ('int', n - 1))),
                       ('tuple', (('list', (0, 1)), ('list', (0, n - 1)))), ('barr', (False, True)), ('slice', (None, None)),
                       ('barr2', tuple(tuple(bool((i + j) % 2) for j in range(n)) for i in range(2)))]
            elif t == 'u':
                idx = [('int', 0), ('slice', (None, None))]
            else:
                idx = [('int', 0), ('int', n - 1), ('slice', (None, None)), ('slice', (0, 1)), ('list', (0, n - 1)),
                       ('barr', (True,) + (False,) * (n - 1))]
            if t == 'm': vals = [('pb', True), ('pb', False)]
            else: vals = [('pf', 0.0), ('pf', 1.0), ('pf', -0.5)]
            for ix in idx:
                for v in vals: acts.append(('set', t, ix, v))
            # whole-object / whole-row assignment from heap members of matching length (value shapes NumPy accepts)
            if t == 'm': acts.append(('set', t, ('slice', (None, None)), ('heap', 'm')))
            elif t == 'A':
                for o in fl:
                    if o == 'u': continue
                    if o == 'A': acts.append(('set', t, ('slice', (None, None)), ('heap', o)))
                    else:
                        acts.append(('set', t, ('int', 0), ('heap', o)))
                        acts.append(('set', t, ('slice', (None, None)), ('heap', o)))
            elif t != 'u':
                for o in fl:
                    if o in ('v', 'w'): acts.append(('set', t, ('slice', (None, None)), ('heap', o)))
            if t != 'm':
                acts.append(('call', t, 'remove_negatives'))
                acts.append(('call', t, 'clear'))
            if t in ('v', 'w'):
                for o in ('v', 'w'):
                    if o in self.members: acts.append(('copy_like', t, o))
                acts.append(('mix_from', t, tuple(x for x in ('v', 'w') if x in self.members)))
                acts.append(('mix_from', t, (t, t)))
        self._acts[tier] = acts
        return acts

    def actions(self, st): return self._actions(self._tier or 'thorough')

    def canon(self, st):
        S = sp()
        ids = {}
        out = []
        for nm in st.names:
            o = st.objs[nm]
            out.append((nm, dg(o), tuple(sorted(ids.setdefault(i, len(ids)) for i in ())), tuple(np.asarray(st.mir[nm]).ravel().tolist()), st.mir[nm].shape))
        for nm in sorted(st.buf): out.append(('buf', nm, tuple(st.buf[nm].tolist())))
        return tuple(out)

    def invariants(self, st):
        # the objects that the last step did not target are known to be unchanged (their complete digests are compared in
        # _others_unchanged), so the state oracle only has to re-examine the target (and the object it shares rows with)
        out = []
        for nm in (st.names if st.dirty is None else st.dirty):
            o = st.objs[nm]
            p = repr_problems(o)
            if p:
                out.append(Violation('representation', f'{nm}: {p[0][1]} [{_short(o)}]', match=dict(fam='history', obj=nm, dev=p[0][0])))
                continue
            d = compare(image(o), st.mir[nm])
            if d:
                out.append(Violation('state-image', f'{nm} is {image(o).tolist()!r}, mirror {st.mir[nm].tolist()!r}',
                                     match=dict(fam='history', obj=nm, dev=d)))
        return out

    def nontrivial(self, st, a, obs): return st.nontriv
    def outcome(self, st, a, obs): return repr(st.okey)

    def step(self, st, a):
        # A prefix that this process has already executed (and accepted) is restored from a snapshot of the plain containers
        # (dict items in insertion order, sizes, flags) instead of being re-checked; the transition under examination is always new.
        key = (self.name, st.lat, st.cfg, st.hist + (a,))
        hit = _MEMO.get(key)
        if hit is not None:
            snap, obs, okey, nontriv, bufs = hit
            st.buf = {k: v.copy() for k, v in bufs.items()}
            for nm, (r, mir) in zip(st.names, snap):
                st.objs[nm] = _unsnap_one(r); st.mir[nm] = mir.copy()
            if 'r' in st.names:
                st.objs['r'] = st.objs['A'].rows[0]; st.mir['r'] = st.mir['A'][0]
            st.hist = key[3]; st.okey = okey; st.nontriv = nontriv; st.dirty = []
            return obs
        t = a[1]
        st.dirty = [nm for nm in st.names if nm == t or {nm, t} == {'A', 'r'}]
        obs = self._step(st, a)
        st.hist = key[3]
        if len(_MEMO) > _MEMO_MAX: _MEMO.clear()
        _MEMO[key] = (_snap(st), obs, st.okey, st.nontriv, {k: v.copy() for k, v in st.buf.items()})
        return obs

    def _step(self, st, a):
        S = sp()
        den, kmax = st.lat
        kind = a[0]
        t = a[1]
        T = st.objs[t]; td = st.mir[t]
        tk = kind_of(T)
        others_before = {nm: dg(st.objs[nm]) for nm in st.names if nm != t and {nm, t} != {'A', 'r'}}
        def operand(spec):
            if spec[0] == 'heap':
                return (st.objs[spec[1]], (st.mir[spec[1]] if spec[1] != t else td),
                        f'heap-{kind_of(st.objs[spec[1]])}' + ('-self' if spec[1] == t else '-alias' if {spec[1], t} == {'A', 'r'} else ''))
            O, od = build_operand(spec)
            return O, od, spec[0]
        st.okey = None
        if kind == 'flat':
            # conversion into a caller-supplied buffer that is REUSED across calls: the whole buffer must hold the current dense image
            buf = st.buf[t]; d0 = dg(T); before = buf.copy()
            match = dict(fam='history', tk=tk, opc='to_flat_array')
            try:
                res = T.to_flat_array(buf)
            except Exception as e:
                raise Violation('unexpected-exception', f'{t}.to_flat_array(buffer) raises {type(e).__name__}: {e}', match=dict(match, dev=type(e).__name__))
            self._others_unchanged(st, t, others_before, a)
            if dg(T) != d0:
                raise Violation('operand-modified', f'to_flat_array changed its object: {d0!r} -> {dg(T)!r}', match=dict(match, dev='target'))
            want = td.ravel().astype(buf.dtype)
            if res is not buf:
                raise Violation('buffer-conversion', 'to_flat_array(buffer) did not return the buffer it was given', match=dict(match, dev='not-the-buffer'))
            if not np.array_equal(buf, want):
                stale = bool(np.any((buf != want) & (buf == before)))
                raise Violation('buffer-conversion', f'{t}.to_flat_array(buffer): buffer was {before.tolist()!r}, is now {buf.tolist()!r}, '
                                f'dense image is {want.tolist()!r}', match=dict(match, dev='stale' if stale else 'value'))
            st.nontriv = bool(np.any((before != want) & (want == 0)))       # an entry of the reused buffer had to be reset to zero
            st.okey = (tk, 'flat', bool(np.any(before != want)), st.nontriv)
            return ('ok', 'buffer')
        try:
            if kind == 'iop':
                op = a[2]
                O, od, okn = operand(a[3])
                selfop = a[3] == ('heap', t)
                pat = pattern(td.shape, np.asarray(od).shape)
                obs = do_binary(T, td, tk, op, O, od, okn, pat, fam='history', selfop=selfop)
                new = image(T)
            elif kind == 'set':
                ri, ni = mk_index(a[2])
                V, vd, vkn = operand(a[3])
                match = dict(fam='history', tk=tk, opc='setitem', ifam=index_fam(a[2]), vkc=operand_class(vkn))
                c = Case(match, T, td, V, vd, inplace=True, grow_ok=None, result='any', fine=dict(index=index_class(a[2]), vk=vkn))
                def ref(d, v):
                    d[ni] = v.copy() if isinstance(v, np.ndarray) else v
                    return d
                def real(x, v): x[ri] = v
                obs = c.run(real, ref)
                new = image(T)
            elif kind == 'call':
                match = dict(fam='history', tk=tk, opc=a[2])
                c = Case(match, T, td, inplace=True, result='any')
                if a[2] == 'clear':
                    def ref(d, _): d[...] = 0; return d
                    obs = c.run(lambda x, _: x.clear(), ref)
                else:
                    def ref(d, _): d[d < 0] = 0; return d
                    obs = c.run(lambda x, _: x.remove_negatives(), ref)
                new = image(T)
            elif kind == 'copy_like':
                O, od, okn = operand(('heap', a[2]))
                match = dict(fam='history', tk=tk, opc='copy_like', okc=operand_class(okn))
                c = Case(match, T, td, O, od, inplace=True, result='any')
                obs = c.run(lambda x, y: x.copy_like(y), lambda d, o: np.asarray(o, float).copy())
                if a[2] != t and containers(T) & containers(O):
                    raise c.viol('result-shares-storage', 'container', 'copy_like left the target sharing storage with the source')
                new = image(T)
            elif kind == 'mix_from':
                srcs = [st.objs[x] for x in a[2]]
                sd = [st.mir[x].copy() for x in a[2]]
                match = dict(fam='history', tk=tk, opc='mix_from', okc='+'.join('self' if x == t else 'other' for x in a[2]))
                c = Case(match, T, td, None, None, inplace=True, result='any')
                obs = c.run(lambda x, _: x.mix_from(srcs), lambda d, _: sum(sd[1:], sd[0]) if sd else d * 0)
                new = image(T)
            else:
                raise ValueError(a)
        except Rejected as r:
            st.okey = (tk, a[0], a[2] if kind == 'iop' else None, r.what)
            self._others_unchanged(st, t, others_before, a)
            raise
        self._others_unchanged(st, t, others_before, a)
        if not _on_lattice(new, den, kmax) or new.shape != td.shape and t != 'u':
            st.okey = (tk, a[0], 'left-lattice')
            raise Rejected('left-lattice', cut=True)
        before = td.copy()
        if t == 'r':
            st.mir['A'][0] = new; st.mir['r'] = st.mir['A'][0]
        else:
            st.mir[t] = new.copy()
            if t == 'A' and 'r' in st.names: st.mir['r'] = st.mir['A'][0]
        if new.shape == before.shape:
            canc = bool(((before != 0) & (new == 0)).any()); crea = bool(((before == 0) & (new != 0)).any())
        else:
            canc = crea = True
        st.nontriv = canc or crea
        st.okey = (tk, a[0], a[2] if kind in ('iop', 'call') else None, (a[3][0] if kind in ('iop', 'set') else None), obs, canc, crea)
        return obs

    def _others_unchanged(self, st, t, before, a):
        for nm, d0 in before.items():
            if dg(st.objs[nm]) != d0:
                raise Violation('inplace-changed-bystander', f'{a!r} changed heap object {nm}: {d0!r} -> {dg(st.objs[nm])!r}',
                                match=dict(fam='history', op=a[2] if a[0] == 'iop' else a[0], target=t, bystander=nm))


def detuple_spec(spec):
    return spec


SYSTEMS = [
    OpsSystem('SV'), OpsSystem('SLV'), OpsSystem('SA'), OpsSystem('SAb'),
    AliasSystem('SV'), AliasSystem('SLV'), AliasSystem('SA'), AliasSystem('SAb'),
    UnarySystem('SV'), UnarySystem('SLV'), UnarySystem('SA'), UnarySystem('SAb'),
    IndexSystem('SV'), IndexSystem('SLV'), IndexSystem('SA'), IndexSystem('SAb'),
    CtorSystem(),
    ReadOnlySystem('SV'), ReadOnlySystem('SA'), ReadOnlySystem('SLV'), ReadOnlySystem('SAb'),
    # closure: every history of any length of one vector of size 2 inside the lattice
    HeapSystem('c09.closure.v2', 2, ('v',), None, None, consts='full', tcap_q=60, tcap_t=480),
    # closure over TWO interacting vectors of size 2 (v op= w, w op= v, copy_like, mix_from, whole assignment): all histories of any length
    HeapSystem('c09.closure.vw', 2, ('v', 'w'), None, None, consts='pair', lattice_q=(1, 2), lattice_t=(4, 6), tcap_q=60, tcap_t=240),
    HeapSystem('c09.heap.n2', 2, ('v', 'w', 'u', 'm', 'A'), 2, 3, consts='small', tcap_q=60, tcap_t=200),
    HeapSystem('c09.heap.n3', 3, ('v', 'w', 'm', 'A'), 2, 3, consts='small', tcap_q=60, tcap_t=200),
    # deep search over a small alphabet (no division): depth 3 (quick) / 6 (thorough, or the time cap)
    # conversion into caller-supplied buffers that are reused across calls (to_flat_array(buffer)): convert, mutate, convert again
    HeapSystem('c09.buffer', 2, ('v', 'm', 'A'), 3, 5, consts='buffer', lattice_q=(2, 16), lattice_t=(2, 16), tcap_q=60, tcap_t=180),
    # aliasing inside the heap: r is the first ROW of A (NumPy semantics for overlapping operands: as if the operand were copied first)
    HeapSystem('c09.heap.alias', 2, ('v', 'A', 'r'), 2, 4, consts='tiny', lattice_q=(2, 8), lattice_t=(4, 32), tcap_q=60, tcap_t=180),
    HeapSystem('c09.heap.deep', 2, ('v', 'w', 'A'), 3, 6, consts='tiny', lattice_q=(2, 8), lattice_t=(4, 32), tcap_q=60, tcap_t=150),
]
