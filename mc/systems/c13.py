"""
C13 — copies are independent, links share what they advertise, pickles round-trip.

Universe: three stream slots (two initial streams drawn from a menu of templates over the packages
A = (Water, Ethanol, Methanol) and B = (Ethanol, Water); the third slot receives copies / proxies).
Reference model: *containers* —

    indexer I  -> (flow container F, phase container Ph [single-phase only], phase tuple [multi-phase only])
    stream     -> (kind, package, I, thermal container TP)
    F -> flows by CAS (per phase for multi-phase),  Ph -> phase,  TP -> (T, P)

`copy` makes fresh containers with equal values, `proxy` shares I and TP, `flow_proxy` shares F only,
`link_with(flow, phase, TP)` rebinds exactly the selected containers, `unlink` gives fresh containers with
equal values, a mutation writes into a container, `copy_like` writes the source's values into the target's
containers (or, when the class has to change, gives the target a fresh indexer).

Oracle after EVERY transition and for EVERY stream of the universe: flows (by CAS and phase), phase(s), T and P
read from the real stream equal the model's view of that stream — so a change is visible in another stream
iff the model says they share that container — and the identity (`is`) of the data / phase / thermal objects of
every pair of streams agrees with the model's sharing relation.
Pickle layer: every stream state reached at depth <= 1 and a grid of constructor arguments / reactions /
chemicals / packages are pickled and unpickled; the observable state must be identical.
"""
from __future__ import annotations
import itertools, pickle, copy as _copy
import numpy as np
from mc.engine import System, Violation, Rejected
from mc import fixtures as fx

PROPERTY = 'C13'
RULE = ('BFS over sequences of copy / copy_like / link_with (8 flag sets) / unlink / proxy / flow_proxy / mutation / pickle on a '
        'universe of three real streams; a state is the digest of every stream (class, chemicals, phase container, sparse data, T, P, '
        'memo) with first-visit numbering of every shared object plus the container model; a case is non-trivial when source and '
        'target differed before a copy/copy_like/link, when a mutation hit a container shared by >= 2 streams, when unlink was '
        'applied to a stream that shared something, or when a pickle carried a non-default price / ID / characterization factors. '
        'Pickle grid: one configuration per (object kind x constructor arguments).')
ASSUMPTIONS = [
    'templates: single-phase l/g/s/L, multi-phase (g,l), (l,s), multi-phase with a one-element phase tuple, multi-phase holding one phase, empty streams; packages A and B (same chemicals, other order); only Water/Ethanol carry flow so every cross-package copy is defined',
    'link_with is used inside its documented precondition (same indexer class; a class mismatch must raise RuntimeError and change nothing) and, additionally, same package and same phase tuple',
    'a proxy is modelled as sharing the indexer object (flows and phase) and the thermal condition of its original at creation time; relinking the original later is followed through the shared indexer',
    '"copy_like makes the quantities equal" is read as: every non-empty phase of the source is found in the same phase of the target (other-case label when the exact one is absent), nothing else is left in the target, T and P equal the source\'s; the target may keep additional empty phases',
    'sequences are complete to the stated depth only; flows / T / P come from small alphabets',
    'pickled objects are compared through public observables (flows, phases, T, P, ID, price, characterization factors, stoichiometry, X, reactant, basis, chemical constants and a few property evaluations), not bit-for-bit',
]
TOLERANCES = {'flows': 0.0, 'T_P': 0.0, 'pickled_property_values_rel': 1e-12, 'mass_view_rel': 1e-12, 'volume_view_rel': 1e-10}

_W, _E = 'Water', 'Ethanol'

def swap(p): return p.lower() if p.isupper() else p.upper()

# name -> (kind, package, phases, {phase: {ID: value}}, T, P)       kind: 'S' single, 'M' multi
TEMPLATES = {
    'Sl_A':   ('S', 'A', ('l',), {'l': {_W: 1.0, _E: 2.0}}, 300.0, 101325.0),
    'Sg_A':   ('S', 'A', ('g',), {'g': {_W: 2.0, _E: 0.5}}, 400.0, 150000.0),
    'Ss_A':   ('S', 'A', ('s',), {'s': {_W: 0.5}}, 250.0, 120000.0),
    'SL_A':   ('S', 'A', ('L',), {'L': {_E: 1.5}}, 310.0, 130000.0),
    'Se_A':   ('S', 'A', ('l',), {'l': {}}, 305.0, 110000.0),
    'Sl_B':   ('S', 'B', ('l',), {'l': {_W: 4.0, _E: 0.25}}, 320.0, 200000.0),
    'Sg_B':   ('S', 'B', ('g',), {'g': {_E: 3.0}}, 410.0, 90000.0),
    'Mgl_A':  ('M', 'A', ('g', 'l'), {'g': {_E: 2.0}, 'l': {_W: 1.0, _E: 0.5}}, 350.0, 101000.0),
    'Mgl_B':  ('M', 'B', ('g', 'l'), {'g': {_W: 0.75}, 'l': {_W: 1.0, _E: 3.0}}, 355.0, 102000.0),
    'Mls_A':  ('M', 'A', ('l', 's'), {'l': {_W: 1.25}, 's': {_E: 2.5}}, 270.0, 103000.0),
    'MLl_A':  ('M', 'A', ('L', 'l'), {'L': {_E: 1.0}, 'l': {_W: 2.0}}, 298.0, 104000.0),
    'M1l_A':  ('M', 'A', ('l',), {'l': {_W: 3.0, _E: 1.0}}, 315.0, 105000.0),
    'M1l_B':  ('M', 'B', ('l',), {'l': {_W: 0.5, _E: 1.75}}, 316.0, 106000.0),
    'Mgl1_A': ('M', 'A', ('g', 'l'), {'l': {_W: 1.5, _E: 2.25}}, 330.0, 107000.0),
    'Me_A':   ('M', 'A', ('g', 'l'), {}, 340.0, 108000.0),
    # package C = (Methanol, Water, Ethanol); streams that carry Methanol (absent from package B)
    'Sl_C':   ('S', 'C', ('l',), {'l': {_W: 1.0, _E: 2.0}}, 300.0, 101325.0),
    'Mgl_C':  ('M', 'C', ('g', 'l'), {'g': {_E: 2.0}, 'l': {_W: 1.0, _E: 0.5}}, 350.0, 101000.0),
    'Sl_Am':  ('S', 'A', ('l',), {'l': {_W: 1.0, 'Methanol': 4.0}}, 301.0, 101400.0),
    'Mgl_Cm': ('M', 'C', ('g', 'l'), {'g': {'Methanol': 0.5}, 'l': {_W: 1.0, _E: 0.5}}, 351.0, 101500.0),
}

_TH = {}
_CAS = {}
_CUSTOM = {'C': ('Methanol', 'Water', 'Ethanol')}      # same chemicals as A, Ethanol at an index >= len(B)
def _thermo(pkg):
    if pkg not in _TH:
        _TH[pkg] = fx.custom_thermo(_CUSTOM[pkg]) if pkg in _CUSTOM else fx.thermo(pkg)
        for c in _TH[pkg].chemicals: _CAS[c.ID] = c.CAS
    return _TH[pkg]

def build_template(name):
    tmo = fx.tmo()
    kind, pkg, phases, pf, T, P = TEMPLATES[name]
    th = _thermo(pkg)
    if kind == 'S':
        return tmo.Stream(None, phase=phases[0], T=T, P=P, thermo=th, **{k: v for k, v in pf[phases[0]].items() if v})
    kw = {p: [(k, v) for k, v in d.items() if v] for p, d in pf.items() if d}
    return tmo.MultiStream(None, phases=tuple(phases), T=T, P=P, thermo=th, **kw)


def observe(x):
    """(kind, phases, {phase: {CAS: v}}, T, P) through the public interface"""
    tmo = fx.tmo()
    chems = x.chemicals
    cas = [c.CAS for c in chems]
    def row(arr): return {c: float(v) for c, v in zip(cas, np.asarray(arr, float)) if v}
    if type(x) is tmo.MultiStream:
        phases = tuple(x.phases)
        return ('M', phases, {p: row(x.imol[p].to_array()) for p in phases}, float(x.T), float(x.P))
    if type(x) is tmo.Stream:
        return ('S', (x.phase,), {x.phase: row(x.mol.to_array())}, float(x.T), float(x.P))
    raise Violation('class', f'object is a {type(x).__name__}')

def _molar_volume(chem, phase, T, P):
    """m3/kmol... as the volumetric view defines it: 1000 * V(phase, T, P) evaluated afresh from the chemical"""
    return 1000.0 * float(chem.V(phase, T, P))

def _check_views(x, obs, op, a, role, match0, names, k):
    """mass view == mol * MW, volume view == mol * 1000 V_i(phase, T, P) for the stream's CURRENT data, phase, T, P"""
    kind, phases, rows, T, P = obs
    chems = x.chemicals
    MW = np.asarray(chems.MW, float)
    try:
        mol = np.atleast_2d(np.asarray(x.imol.data.to_array(), float))
        mass = np.atleast_2d(np.asarray(x.imass.data.to_array(), float))
        vol = np.atleast_2d(np.asarray(x.ivol.data.to_array(), float))
    except Exception as e:
        raise Violation('unexpected-exception', f'after {a!r} (streams {names}): reading imass/ivol of stream {k} raised {type(e).__name__}: {e}',
                        match=dict(op=op, exc=type(e).__name__, role=role, stage='read-views', **match0))
    if mass.shape != mol.shape or not np.allclose(mass, mol * MW, rtol=1e-12, atol=0.0):
        raise Violation('view-stale', f'after {a!r} (streams {names}): stream {k} ({role}) imass reads {mass.tolist()} but imol * MW is {(mol * MW).tolist()}',
                        match=dict(op=op, view='mass', role=role, **match0))
    want = np.zeros_like(mol)
    for r, p in enumerate(phases):
        for c, chem in enumerate(chems):
            if mol[r, c]: want[r, c] = mol[r, c] * _molar_volume(chem, p, T, P)
    if vol.shape != mol.shape or not np.allclose(vol, want, rtol=1e-10, atol=0.0):
        raise Violation('view-stale', f'after {a!r} (streams {names}): stream {k} ({role}) ivol reads {vol.tolist()} but mol * V(phase, T, P) is {want.tolist()}',
                        match=dict(op=op, view='vol', role=role, **match0))

def okey(o):
    return (o[0], o[1], tuple((p, tuple(sorted(o[2][p].items()))) for p in o[1]), o[3], o[4])

def place(rows, target):
    out = {q: {} for q in target}; lost = []
    for p, r in rows.items():
        if not r: continue
        q = p if p in out else (swap(p) if swap(p) in out else None)
        if q is None: lost.append(p); continue
        for c, v in r.items(): out[q][c] = out[q].get(c, 0.0) + v
    return out, lost


class Model:
    def __init__(self):
        self.slots = [None, None, None]      # dict(kind, pkg, I, TP, tname)
        self.idx = {}                        # I -> dict(F, Ph, phases)
        self.flows = {}                      # F -> {phase: {cas: v}}
        self.phs = {}                        # Ph -> str
        self.tps = {}                        # TP -> [T, P]
        self.n = 0
    def fresh(self):
        self.n += 1; return self.n
    def add_template(self, k, name):
        kind, pkg, phases, pf, T, P = TEMPLATES[name]
        _thermo(pkg)
        I, F, TP = self.fresh(), self.fresh(), self.fresh()
        self.flows[F] = {p: {_CAS[i]: v for i, v in pf.get(p, {}).items() if v} for p in phases}
        Ph = None
        if kind == 'S':
            Ph = self.fresh(); self.phs[Ph] = phases[0]
            self.flows[F] = {'*': self.flows[F][phases[0]]}
        self.idx[I] = dict(F=F, Ph=Ph, phases=tuple(phases) if kind == 'M' else None)
        self.tps[TP] = [T, P]
        self.slots[k] = dict(kind=kind, pkg=pkg, I=I, TP=TP)
    def view(self, k):
        s = self.slots[k]; ix = self.idx[s['I']]; T, P = self.tps[s['TP']]
        if s['kind'] == 'S':
            p = self.phs[ix['Ph']]
            return ('S', (p,), {p: dict(self.flows[ix['F']]['*'])}, T, P)
        return ('M', ix['phases'], {p: dict(self.flows[ix['F']][p]) for p in ix['phases']}, T, P)
    def live(self): return [k for k in range(3) if self.slots[k] is not None]
    def key(self):
        return (tuple(None if s is None else (s['kind'], s['pkg'], s['I'], s['TP']) for s in self.slots),
                tuple(sorted((i, d['F'], d['Ph'], d['phases']) for i, d in self.idx.items() if any(s and s['I'] == i for s in self.slots))),
                tuple(okey(self.view(k)) for k in self.live()))
    def shares(self, a, b):
        sa, sb = self.slots[a], self.slots[b]; ia, ib = self.idx[sa['I']], self.idx[sb['I']]
        return dict(flow=ia['F'] == ib['F'], phase=(ia['Ph'] is not None and ia['Ph'] == ib['Ph']), TP=sa['TP'] == sb['TP'])
    def shared_any(self, k):
        return any(any(self.shares(k, j).values()) for j in self.live() if j != k)


class St:
    __slots__ = ('X', 'm', 'last', 'nontriv', 'nsteps', 'names', 'held')


def klass(m, k):
    s = m.slots[k]
    if s['kind'] == 'S': return 'S'
    return 'M1' if len(m.idx[s['I']]['phases']) == 1 else 'M'


class C13(System):
    nontrivial_per_config = False
    #: canon() holds the complete concrete state and the whole model; a config only selects the initial objects
    merge_across_configs = True

    def __init__(self, name, templates, depth_q, depth_t, ops=('copy', 'proxy', 'flow_proxy', 'copy_like', 'link', 'unlink', 'mutate'),
                 pairs='ordered', pickle_depth=1, link_flags=None, tcap_q=None, tcap_t=None, copy_like_pairs=None, views=False, pviews=False):
        self.name = name
        self.templates = tuple(templates)
        self._dq, self._dt = depth_q, depth_t
        self.ops = set(ops)
        self.pairs = pairs
        self.pickle_depth = pickle_depth
        self.link_flags = link_flags or list(itertools.product((True, False), repeat=3))
        self._tq, self._tt = tcap_q, tcap_t
        self.copy_like_pairs = copy_like_pairs
        #: observe the mass and volume views of every stream after every transition (they are memoised wrappers around the molar
        #: data, T/P and phase containers, so "shares flows" must hold through them too) and write through the mass view
        self.views = views
        #: action `view` takes and HOLDS x[p] for every phase of a multi-phase stream; after every later transition every held view and
        #: a freshly requested x[p] must read the parent's row, T and P; writes through a held view (vflow, vT) are ordinary mutations
        self.pviews = pviews

    def warm(self):
        fx.tmo(); _thermo('A'); _thermo('B')
        for n in TEMPLATES:
            x = build_template(n)
            for f in (lambda: pickle.loads(pickle.dumps(x)), x.copy, x.proxy, x.flow_proxy):
                try: f()
                except Exception: pass
    def reset_globals(self):
        fx.reset_globals(_thermo('A'), _thermo('B'), _thermo('C'))
        try:
            fx.tmo().Stream.registry.clear()
            fx.tmo().Stream.ticket_numbers.clear()      # process-global autonumbering of IDs
        except Exception: pass
    def depth(self, tier): return self._dq if tier == 'quick' else self._dt
    def time_cap(self, tier): return self._tq if tier == 'quick' else self._tt
    def describe(self, tier):
        return dict(templates=list(self.templates), operations=sorted(self.ops), link_flag_sets=len(self.link_flags), pickle_up_to_depth=self.pickle_depth)

    def configs(self, tier, seed):
        T = self.templates
        cfgs = [(a, b) for a in T for b in T]
        k = seed % len(cfgs)
        return cfgs[k:] + cfgs[:k]

    def build(self, config):
        st = St()
        st.names = config
        st.X = [build_template(config[0]), build_template(config[1]), None]
        st.m = Model()
        st.m.add_template(0, config[0]); st.m.add_template(1, config[1])
        st.last = None; st.nontriv = False; st.nsteps = 0
        st.held = {}
        if self.views:
            # reading the views creates memo entries: do it here so that it is part of every rebuilt state
            for x in st.X[:2]: x.imass.data.to_array(); x.ivol.data.to_array()
        return st

    def canon(self, st):
        ids = {}
        out = []
        for x in st.X:
            if x is None: out.append(None); continue
            d = fx.stream_digest(x, ids)
            data = x._imol.data
            order = tuple(tuple(r.dct) for r in data.rows) if hasattr(data, 'rows') else tuple(data.dct)   # sparse dict INSERTION order
            out.append((d, ids.setdefault(id(x._imol), len(ids)), getattr(x, '_price', None), x._ID, order))
        # the packages' index caches are written by every cross-package copy and read by the next one
        caches = tuple(tuple((repr(k), repr(v)) for k, v in _thermo(pk).chemicals._index_cache.items()) for pk in ('A', 'B', 'C'))
        held = []
        for k in sorted(st.held):
            x = st.X[k]; rows = getattr(x._imol.data, 'rows', None)
            def rowno(o):
                if rows is not None:
                    for i, r in enumerate(rows):
                        if r is o: return i
                return ('detached', fx.sparse_digest(o))
            held.append((k, tuple((p, rowno(v._imol.data), v._thermal_condition is x._thermal_condition,
                                   getattr(x, '_streams', {}).get(p) is v) for p, v in sorted(st.held[k].items()))))
        return (tuple(out), st.m.key(), min(st.nsteps, self.pickle_depth + 1), caches, tuple(held))

    # ---- actions -------------------------------------------------------------------------------------------------
    def actions(self, st):
        m = st.m; acts = []
        live = m.live()
        for j in (0, 1):
            for op in ('copy', 'proxy', 'flow_proxy'):
                if op in self.ops: acts.append((op, 2, j))
            if 'copy_thermo' in self.ops:
                for pk in ('A', 'B', 'C'): acts.append(('copy_thermo', 2, j, pk))
        if 'copy_like' in self.ops:
            for i in live:
                for j in live:
                    if i != j and (self.copy_like_pairs is None or (i, j) in self.copy_like_pairs): acts.append(('copy_like', i, j))
        if 'link' in self.ops:
            for i in live:
                for j in live:
                    if i == j: continue
                    si, sj = m.slots[i], m.slots[j]
                    if si['pkg'] != sj['pkg']: continue
                    if si['kind'] != sj['kind']:
                        acts.append(('link', i, j, True, True, True)); continue     # documented rejection
                    if si['kind'] == 'M' and m.idx[si['I']]['phases'] != m.idx[sj['I']]['phases']: continue
                    for f, p, t in self.link_flags: acts.append(('link', i, j, f, p, t))
        if 'unlink' in self.ops:
            for i in live: acts.append(('unlink', i))
        if self.pviews:
            for i in live:
                if m.slots[i]['kind'] != 'M': continue
                v = m.view(i)
                if i not in st.held: acts.append(('view', i))
                else:
                    hp = [p for p in v[1] if p in st.held[i]]
                    if hp:
                        cur = v[2][hp[-1]].get(_CAS[_W], 0.0)
                        acts.append(('vflow', i, hp[-1], _W, 6.0 if cur != 6.0 else 0.0))
                        acts.append(('vT', i, hp[0], 344.0 if v[3] != 344.0 else 377.0))
        if 'reorder' in self.ops:
            # zero a flow and set it again: same values, but the entry moves to the end of the sparse dict
            for i in live:
                v = m.view(i)
                for p in v[1]:
                    if len(v[2][p]) >= 2: acts.append(('reorder', i, None if m.slots[i]['kind'] == 'S' else p))
        if 'mutate_flow' in self.ops:
            for i in live:
                s = m.slots[i]; v = m.view(i)
                if s['kind'] == 'S':
                    cur = v[2][v[1][0]].get(_CAS[_W], 0.0)
                    acts.append(('flow', i, None, _W, 7.0 if cur != 7.0 else 0.0))
                else:
                    for p in v[1][:2]:
                        cur = v[2][p].get(_CAS[_E], 0.0)
                        acts.append(('flow', i, p, _E, 7.0 if cur != 7.0 else 0.0))
        if 'mutate' in self.ops:
            for i in live:
                s = m.slots[i]; v = m.view(i)
                if s['kind'] == 'S':
                    cur = v[2][v[1][0]].get(_CAS[_W], 0.0)
                    acts.append(('flow', i, None, _W, 7.0 if cur != 7.0 else 0.0))
                    acts.append(('phase', i, 'g' if v[1][0] != 'g' else 'l'))
                else:
                    for p in v[1][:2]:
                        cur = v[2][p].get(_CAS[_E], 0.0)
                        acts.append(('flow', i, p, _E, 7.0 if cur != 7.0 else 0.0))
                if self.views:
                    p0 = None if s['kind'] == 'S' else v[1][-1]
                    cur = v[2][v[1][0] if p0 is None else p0].get(_CAS[_W], 0.0)
                    acts.append(('mflow', i, p0, _W, 5.0 if abs(cur - 5.0) > 1e-9 else 0.0))
                acts.append(('T', i, 333.0 if v[3] != 333.0 else 366.0))
                acts.append(('P', i, 5e5 if v[4] != 5e5 else 6e5))
        if 'pickle' in self.ops and st.nsteps <= self.pickle_depth:
            for i in live: acts.append(('pickle', i))
        return acts

    # ---- comparison of the whole universe with the model -----------------------------------------------------------
    def _compare(self, st, op, a, roles, match0, before_views):
        m = st.m; X = st.X
        for k in m.live():
            try:
                obs = observe(X[k])
            except Violation: raise
            except Exception as e:
                raise Violation('unexpected-exception', f'after {a!r}: reading stream {k} raised {type(e).__name__}: {e}',
                                match=dict(op=op, exc=type(e).__name__, role=roles.get(k, 'bystander'), stage='read', **match0))
            exp = m.view(k)
            if okey(obs) == okey(exp):
                if self.views: _check_views(X[k], obs, op, a, roles.get(k, 'bystander'), match0, st.names, k)
                continue
            what = ('class' if obs[0] != exp[0] else 'phases' if obs[1] != exp[1] else 'T' if obs[3] != exp[3] else
                    'P' if obs[4] != exp[4] else 'flows')
            role = roles.get(k, 'bystander')
            if role == 'bystander' or op in ('flow', 'mflow', 'reorder', 'T', 'P', 'phase'):
                was = before_views.get(k)
                real_changed = was is not None and okey(obs) != okey(was)
                model_changed = was is not None and okey(exp) != okey(was)
                if role != 'target':
                    clause = 'sharing-missing' if (model_changed and not real_changed) else 'unexpected-sharing' if (real_changed and not model_changed) else 'bystander-differs'
                else:
                    clause = 'mutation-lost'
            else:
                clause = {'copy': 'copy-differs', 'proxy': 'proxy-differs', 'flow_proxy': 'flow_proxy-differs', 'copy_like': 'copy_like-differs',
                          'link': 'link-differs', 'unlink': 'unlink-changed-values', 'pickle': 'pickle-differs'}[op]
                if role == 'source': clause = 'source-changed'
            raise Violation(clause, f'after {a!r} (streams {st.names}): stream {k} ({role}) expected {okey(exp)} observed {okey(obs)}',
                            match=dict(op=op, what=what, role=role, **match0), detail=dict(expected=okey(exp), observed=okey(obs)))
        # identity of the shared containers
        live = m.live()
        for i in live:
            for j in live:
                if i >= j: continue
                xi, xj = X[i], X[j]
                sh = m.shares(i, j)
                real = dict(flow=xi._imol.data is xj._imol.data,
                            phase=(hasattr(xi._imol, '_phase') and hasattr(xj._imol, '_phase') and xi._imol._phase is xj._imol._phase),
                            TP=xi._thermal_condition is xj._thermal_condition)
                for w in ('flow', 'phase', 'TP'):
                    if real[w] != sh[w]:
                        raise Violation('alias-mismatch', f'after {a!r} (streams {st.names}): streams {i},{j} share {w}: real={real[w]} model={sh[w]}',
                                        match=dict(op=op, what=w, real=real[w], **match0))
        # held per-phase views (and a freshly requested x[p]) follow their parent
        for k in sorted(st.held):
            if m.slots[k] is None or m.slots[k]['kind'] != 'M':
                del st.held[k]; continue
            x = X[k]; exp = m.view(k)
            st.held[k] = {p: v for p, v in st.held[k].items() if p in exp[1]}
            cas = [c.CAS for c in x.chemicals]
            for p, v in sorted(st.held[k].items()):
                for which, w in (('held', v), ('fetched', None)):
                    try:
                        if w is None: w = x[p]
                        got = {c: float(f) for c, f in zip(cas, np.asarray(w.mol.to_array(), float)) if f}
                        wT, wP, wph = float(w.T), float(w.P), w.phase
                    except Exception as e:
                        raise Violation('unexpected-exception', f'after {a!r} (streams {st.names}): reading the {which} view {p!r} of stream {k} raised {type(e).__name__}: {e}',
                                        match=dict(op=op, exc=type(e).__name__, stage='read-phase-view', **match0))
                    what = 'flows' if got != exp[2][p] else 'T' if wT != exp[3] else 'P' if wP != exp[4] else 'phase' if wph != p else None
                    if what:
                        raise Violation('phase-view-stale', f'after {a!r} (streams {st.names}): the {which} view {p!r} of stream {k} reads {sorted(got.items())} at {wT} K, {wP} Pa; '
                                        f'the parent row is {sorted(exp[2][p].items())} at {exp[3]} K, {exp[4]} Pa',
                                        match=dict(op=op, view=which, what=what, role=roles.get(k, 'bystander'), via_sharer=False, **match0))

    # ---- views held by a stream whose indexer OBJECT is shared with the stream that is being (un)linked ----------------------
    def _sharers_with_views(self, st, i):
        m = st.m
        return [k for k in m.live() if k != i and k in st.held and m.slots[k]['I'] == m.slots[i]['I']]

    def _check_sharer_views(self, st, op, a, sharers, match0):
        """A link / unlink performed on stream i re-points the indexer object it shares with a proxy / its original; views HELD by
        that other stream must follow.  Checked by identity right after the operation (the values may coincide), reported with
        via_sharer=True, so that this door into the defect is distinguishable from a link / unlink on the view's own stream."""
        X = st.X
        for k in sharers:
            x = X[k]
            if not hasattr(x._imol.data, 'rows'): continue
            for p, v in sorted(st.held[k].items()):
                if p not in x._imol._phases: continue
                row = x._imol.data.rows[x._imol._phase_indexer(p)]
                what = 'flows' if v._imol.data is not row else 'TP' if v._thermal_condition is not x._thermal_condition else None
                if what:
                    raise Violation('phase-view-stale', f'after {a!r} (streams {st.names}): stream {k} shares its indexer object with the (un)linked stream {a[1]}; '
                                    f'its held view {p!r} is no longer attached to its current {"row" if what == "flows" else "thermal condition"} '
                                    f'(view reads {dict(v._imol.data.dct)}, row holds {dict(row.dct)})',
                                    match=dict(op=op, view='held', what=what, role='bystander', via_sharer=True, **match0))

    # ---- one transition -----------------------------------------------------------------------------------------------
    def step(self, st, a):
        tmo = fx.tmo()
        m = st.m; X = st.X; op = a[0]
        st.last = a; st.nontriv = False
        before = {k: m.view(k) for k in m.live()}

        def guarded(f, match0, documented=None):
            try:
                return f()
            except Exception as e:
                if documented and isinstance(e, documented): raise
                raise Violation('unexpected-exception', f'{a!r} on streams {st.names} ({ {k: okey(v) for k, v in before.items()} }) raised {type(e).__name__}: {e}',
                                match=dict(op=op, exc=type(e).__name__, stage='call', **match0))

        if op == 'copy_thermo':
            # x = y.copy(thermo=other package): same flows by CAS, phases, T, P on the other package, independent of y;
            # a chemical that carries flow and is absent from the target package must be refused (as HEAD does: UndefinedChemicalAlias)
            _, d, j, pk = a
            sj = m.slots[j]; ij = m.idx[sj['I']]
            th = _thermo(pk)
            have = {c.CAS for c in th.chemicals}
            src = before[j]
            missing = sorted({c for p in src[1] for c in src[2][p]} - have)
            match0 = dict(src=klass(m, j), same_pkg=sj['pkg'] == pk, larger=len(have) > len(_thermo(sj['pkg']).chemicals.IDs), missing=bool(missing))
            tmo_exc = fx.tmo().exceptions.UndefinedChemicalAlias
            try:
                new = X[j].copy(thermo=th)
            except tmo_exc as e:
                if not missing:
                    raise Violation('unexpected-exception', f'{a!r} on streams {st.names}: every chemical with flow is in the target package, yet {type(e).__name__}: {e}',
                                    match=dict(op=op, exc=type(e).__name__, stage='call', **match0))
                self._compare(st, op, a, {j: 'source'}, dict(match0, rejected=True), before)
                raise Rejected('copy_thermo:UndefinedChemicalAlias', cut=False)
            except Exception as e:
                raise Violation('unexpected-exception', f'{a!r} on streams {st.names} raised {type(e).__name__}: {e}', match=dict(op=op, exc=type(e).__name__, stage='call', **match0))
            if missing:
                raise Violation('flow-vanished', f'{a!r} on streams {st.names}: source {okey(src)} carries {missing}, which package {pk} lacks; copy returned {okey(observe(new))}',
                                match=dict(op=op, **match0))
            if new.chemicals is not th.chemicals:
                raise Violation('copy-differs', f'{a!r}: the copy is not on the requested package', match=dict(op=op, what='package', role='target', **match0))
            X[d] = new; st.held.pop(d, None)
            I, TP, F = m.fresh(), m.fresh(), m.fresh()
            m.tps[TP] = list(m.tps[sj['TP']])
            Ph = None
            if ij['Ph'] is not None:
                Ph = m.fresh(); m.phs[Ph] = m.phs[ij['Ph']]
            m.flows[F] = _copy.deepcopy(m.flows[ij['F']])
            m.idx[I] = dict(F=F, Ph=Ph, phases=ij['phases'])
            m.slots[d] = dict(kind=sj['kind'], pkg=pk, I=I, TP=TP)
            self._compare(st, 'copy', a, {d: 'target', j: 'source'}, dict(match0, thermo=True), before)
            st.nontriv = sj['pkg'] != pk
            st.nsteps += 1
            return (op, match0['src'], sj['pkg'] + '>' + pk)

        if op in ('copy', 'proxy', 'flow_proxy'):
            _, d, j = a
            sj = m.slots[j]; ij = m.idx[sj['I']]
            match0 = dict(src=klass(m, j))
            new = guarded(lambda: getattr(X[j], op)(), match0)
            X[d] = new; st.held.pop(d, None)
            if op == 'proxy':
                m.slots[d] = dict(kind=sj['kind'], pkg=sj['pkg'], I=sj['I'], TP=sj['TP'])
            else:
                I, TP = m.fresh(), m.fresh()
                m.tps[TP] = list(m.tps[sj['TP']])
                Ph = None
                if ij['Ph'] is not None:
                    Ph = m.fresh(); m.phs[Ph] = m.phs[ij['Ph']]
                if op == 'copy':
                    F = m.fresh(); m.flows[F] = _copy.deepcopy(m.flows[ij['F']])
                else:
                    F = ij['F']
                m.idx[I] = dict(F=F, Ph=Ph, phases=ij['phases'])
                m.slots[d] = dict(kind=sj['kind'], pkg=sj['pkg'], I=I, TP=TP)
            self._compare(st, op, a, {d: 'target', j: 'source'}, match0, before)
            if type(new) is not type(X[j]):
                raise Violation('copy-differs', f'{op} of a {type(X[j]).__name__} is a {type(new).__name__}', match=dict(op=op, what='class', role='target', **match0))
            st.nontriv = True
            st.nsteps += 1
            return (op, match0['src'])

        if op == 'link':
            _, i, j, f, p, t = a
            si, sj = m.slots[i], m.slots[j]
            # relink: the target already shared flows and T/P (hence its view memo) with some other stream before this call
            relink = any(m.shares(i, k)['flow'] and m.shares(i, k)['TP'] for k in m.live() if k != i and k != j)
            match0 = dict(kind=klass(m, i), flags=f'{int(f)}{int(p)}{int(t)}', relink=relink)
            if si['kind'] != sj['kind']:
                try:
                    X[i].link_with(X[j], f, p, t)
                except RuntimeError:
                    self._compare(st, op, a, {i: 'target', j: 'source'}, dict(match0, rejected=True), before)
                    raise Rejected('link:class-mismatch', cut=False)
                except Exception as e:
                    raise Violation('unexpected-exception', f'{a!r} raised {type(e).__name__}: {e}', match=dict(op=op, exc=type(e).__name__, stage='call', **match0))
                raise Violation('link-accepted-class-mismatch', f'{a!r}: link_with between {si["kind"]} and {sj["kind"]} returned normally', match=dict(op=op))
            differed = okey(before[i]) != okey(before[j])
            sharers = self._sharers_with_views(st, i)
            guarded(lambda: X[i].link_with(X[j], f, p, t), match0)
            self._check_sharer_views(st, op, a, sharers, match0)
            ii, ij = m.idx[si['I']], m.idx[sj['I']]
            if t: si['TP'] = sj['TP']
            if f: ii['F'] = ij['F']
            if p and si['kind'] == 'S': ii['Ph'] = ij['Ph']
            self._compare(st, op, a, {i: 'target', j: 'source'}, match0, before)
            st.nontriv = differed and (f or p or t)
            st.nsteps += 1
            return (op, match0['kind'], match0['flags'])

        if op == 'unlink':
            _, i = a
            si = m.slots[i]; ii = m.idx[si['I']]
            shared = m.shared_any(i)
            proxied = any(k != i and m.slots[k]['I'] == si['I'] for k in m.live())
            match0 = dict(kind=klass(m, i), shares_indexer=proxied)
            sharers = self._sharers_with_views(st, i)
            guarded(lambda: X[i].unlink(), match0)
            self._check_sharer_views(st, op, a, sharers, match0)
            I, F, TP = m.fresh(), m.fresh(), m.fresh()
            m.flows[F] = _copy.deepcopy(m.flows[ii['F']])
            Ph = None
            if ii['Ph'] is not None:
                Ph = m.fresh(); m.phs[Ph] = m.phs[ii['Ph']]
            m.idx[I] = dict(F=F, Ph=Ph, phases=ii['phases'])
            m.tps[TP] = list(m.tps[si['TP']])
            si['I'] = I; si['TP'] = TP
            self._compare(st, op, a, {i: 'target'}, match0, before)
            st.nontriv = shared
            st.nsteps += 1
            return (op, match0['kind'], shared)

        if op == 'view':
            _, i = a
            match0 = dict(kind=klass(m, i))
            phases = m.view(i)[1]
            st.held[i] = guarded(lambda: {p: X[i][p] for p in phases}, match0)
            self._compare(st, op, a, {i: 'target'}, match0, before)
            st.nontriv = True
            st.nsteps += 1
            return (op, match0['kind'])

        if op in ('vflow', 'vT'):
            # write THROUGH a held phase view: must land in the parent and in everything that shares the container
            _, i, p, *rest = a
            si = m.slots[i]; ii = m.idx[si['I']]
            match0 = dict(kind=klass(m, i), via='view', via_sharer=False)
            shared = m.shared_any(i)
            v = st.held[i][p]
            if op == 'vflow':
                ID, val = rest
                guarded(lambda: v.imol.__setitem__(ID, val), match0)
                row = m.flows[ii['F']][p]
                if val: row[_CAS[ID]] = val
                else: row.pop(_CAS[ID], None)
            else:
                guarded(lambda: setattr(v, 'T', rest[0]), match0)
                m.tps[si['TP']][0] = rest[0]
            self._compare(st, 'flow' if op == 'vflow' else 'T', a, {i: 'target'}, match0, before)
            st.nontriv = True
            st.nsteps += 1
            return (op, match0['kind'], shared)

        if op == 'reorder':
            _, i, p = a
            x = X[i]
            match0 = dict(kind=klass(m, i))
            row = x._imol.data if p is None else x._imol.data.rows[x._imol._phase_indexer(p)]
            ID = x.chemicals.IDs[next(iter(row.dct))]
            key = ID if p is None else (p, ID)
            def f():
                val = float(x.imol[key]); x.imol[key] = 0.0; x.imol[key] = val
            guarded(f, match0)
            self._compare(st, op, a, {i: 'target'}, match0, before)
            st.nontriv = True
            st.nsteps += 1
            return (op, match0['kind'])

        if op == 'mflow':
            # write v kmol/hr of water THROUGH THE MASS VIEW (v * MW kg/hr); every stream that shares the flows must read it in mol
            _, i, p, ID, v = a
            si = m.slots[i]; ii = m.idx[si['I']]
            match0 = dict(kind=klass(m, i))
            shared = m.shared_any(i)
            x = X[i]
            MWi = float(x.chemicals[ID].MW)
            key = ID if p is None else (p, ID)
            guarded(lambda: x.imass.__setitem__(key, v * MWi), match0)
            try: got = float(x.imol[key])
            except Exception as e:
                raise Violation('unexpected-exception', f'{a!r}: reading imol raised {type(e).__name__}: {e}', match=dict(op=op, exc=type(e).__name__, stage='read', **match0))
            if abs(got - v) > 1e-12 * max(1.0, abs(v)):
                raise Violation('view-write-lost', f'{a!r} (streams {st.names}): wrote {v} kmol/hr ({v * MWi} kg/hr) through imass, imol reads {got}',
                                match=dict(op=op, view='mass', **match0))
            row = m.flows[ii['F']]['*' if p is None else p]
            if got: row[_CAS[ID]] = got
            else: row.pop(_CAS[ID], None)
            self._compare(st, op, a, {i: 'target'}, match0, before)
            st.nontriv = shared
            st.nsteps += 1
            return (op, match0['kind'], shared)

        if op in ('flow', 'T', 'P', 'phase'):
            i = a[1]
            si = m.slots[i]; ii = m.idx[si['I']]
            match0 = dict(kind=klass(m, i))
            shared = m.shared_any(i)
            if op == 'flow':
                _, _, p, ID, v = a
                if p is None: guarded(lambda: X[i].imol.__setitem__(ID, v), match0)
                else: guarded(lambda: X[i].imol.__setitem__((p, ID), v), match0)
                row = m.flows[ii['F']]['*' if p is None else p]
                if v: row[_CAS[ID]] = v
                else: row.pop(_CAS[ID], None)
            elif op == 'phase':
                guarded(lambda: setattr(X[i], 'phase', a[2]), match0)
                m.phs[ii['Ph']] = a[2]
            else:
                guarded(lambda: setattr(X[i], op, a[2]), match0)
                m.tps[si['TP']][0 if op == 'T' else 1] = a[2]
            self._compare(st, op, a, {i: 'target'}, match0, before)
            st.nontriv = shared
            st.nsteps += 1
            return (op, match0['kind'], shared)

        if op == 'copy_like':
            _, i, j = a
            si, sj = m.slots[i], m.slots[j]
            src = before[j]; tgt = before[i]
            src_ne = [p for p in src[1] if src[2][p]]
            tgt_ne = [p for p in tgt[1] if tgt[2][p]]
            match0 = dict(tgt=klass(m, i), src=klass(m, j), same_pkg=si['pkg'] == sj['pkg'],
                          tgt_lacks_src_phase=any(p not in tgt[1] and swap(p) not in tgt[1] for p in src_ne),
                          src_lacks_tgt_phase=any(p not in src[1] and swap(p) not in src[1] for p in tgt_ne))
            guarded(lambda: X[i].copy_like(X[j]), match0)
            try:
                obs = observe(X[i])
            except Violation: raise
            except Exception as e:
                raise Violation('unexpected-exception', f'after {a!r}: reading the target raised {type(e).__name__}: {e}',
                                match=dict(op=op, exc=type(e).__name__, stage='read', **match0))
            # the target may choose its phase set; the contents must be the source's
            rows, lost = place(src[2], obs[1])
            if obs[0] == 'S' and len(src_ne) == 1 and src[0] == 'S' and obs[1] != src[1]:
                lost = lost or ['phase label']
            exp = (obs[0], obs[1], rows, src[3], src[4])
            if lost or okey(exp) != okey(obs):
                what = ('T' if obs[3] != src[3] else 'P' if obs[4] != src[4] else 'flows')
                if lost: what = 'flows'
                raise Violation('copy_like-differs', f'{a!r} (streams {st.names}): source {okey(src)}; target now {okey(obs)}',
                                match=dict(op=op, what=what, role='target', **match0), detail=dict(source=okey(src), observed=okey(obs), target_before=okey(tgt)))
            # write the result into the model
            ii = m.idx[si['I']]
            m.tps[si['TP']] = [src[3], src[4]]
            if obs[0] == si['kind'] == 'S':
                m.flows[ii['F']]['*'] = dict(rows[obs[1][0]]); m.phs[ii['Ph']] = obs[1][0]
            elif obs[0] == si['kind'] == 'M' and X[i]._imol.data is not None:
                if obs[1] == ii['phases']:
                    m.flows[ii['F']] = {p: dict(rows[p]) for p in obs[1]}
                else:
                    # phases were expanded in place; other indexers that share this flow container are outside the model
                    others = [k for k in m.live() if k != i and m.slots[k]['I'] != si['I'] and m.idx[m.slots[k]['I']]['F'] == ii['F']]
                    if others: raise Rejected('copy_like:expands-phases-of-linked-multistream', cut=True)
                    ii['phases'] = obs[1]; m.flows[ii['F']] = {p: dict(rows[p]) for p in obs[1]}
            else:
                # class changed: the target got a fresh indexer
                I, F = m.fresh(), m.fresh()
                if obs[0] == 'S':
                    Ph = m.fresh(); m.phs[Ph] = obs[1][0]; m.flows[F] = {'*': dict(rows[obs[1][0]])}
                    m.idx[I] = dict(F=F, Ph=Ph, phases=None)
                else:
                    m.flows[F] = {p: dict(rows[p]) for p in obs[1]}
                    m.idx[I] = dict(F=F, Ph=None, phases=obs[1])
                si['I'] = I; si['kind'] = obs[0]
            self._compare(st, op, a, {i: 'target', j: 'source'}, match0, before)
            st.nontriv = okey(src)[1:] != okey(tgt)[1:]
            st.nsteps += 1
            return (op, match0['tgt'], match0['src'], match0['same_pkg'], match0['tgt_lacks_src_phase'], match0['src_lacks_tgt_phase'])

        if op == 'pickle':
            _, i = a
            x = X[i]
            match0 = dict(kind=klass(m, i))
            y = guarded(lambda: pickle.loads(pickle.dumps(x)), match0)
            _check_stream_pickle(x, y, match0)
            st.nontriv = m.shared_any(i) or bool(x._ID) or bool(x.price)
            return (op, match0['kind'])
        raise ValueError(a)

    def invariants(self, st):
        if st.last is None:
            try:
                self._compare(st, 'init', None, {}, {}, {})
            except Violation as v:
                return [v]
        return ()

    def nontrivial(self, st, a, obs): return bool(st.nontriv)
    def outcome(self, st, a, obs): return repr(obs)[:200]


def _check_stream_pickle(x, y, match0):
    ox, oy = observe(x), observe(y)
    if ox[1] != oy[1] or [p for p in ox[1] if ox[2][p]] != [p for p in oy[1] if oy[2][p]]:
        raise Violation('pickle-differs', f'phases: original {okey(ox)} unpickled {okey(oy)}', match=dict(op='pickle', what='phases', **match0))
    if type(y) is not type(x):
        # only reached when the phase tuple and the occupied phases are identical (one-element phase tuple)
        raise Violation('pickle-differs', f'unpickled a {type(y).__name__} from a {type(x).__name__}', match=dict(op='pickle', what='class', **match0))
    if okey(ox) != okey(oy):
        what = 'phases' if ox[1] != oy[1] else 'T' if ox[3] != oy[3] else 'P' if ox[4] != oy[4] else 'flows'
        raise Violation('pickle-differs', f'original {okey(ox)} unpickled {okey(oy)}', match=dict(op='pickle', what=what, **match0))
    for what, gx, gy in (('ID', x.ID, y.ID), ('price', x.price, y.price),
                         ('characterization_factors', dict(x.characterization_factors), dict(y.characterization_factors)),
                         ('chemicals', tuple(c.CAS for c in x.chemicals), tuple(c.CAS for c in y.chemicals))):
        if gx != gy:
            raise Violation('pickle-differs', f'{what}: original {gx!r} unpickled {gy!r}', match=dict(op='pickle', what=what, **match0))


# ---- pickle grid (depth 1): constructor arguments, reactions, chemicals, packages ----------------------------------

class PickleGrid(System):
    name = 'c13.pickle'
    nontrivial_per_config = True

    def warm(self):
        fx.tmo(); _thermo('A'); _thermo('B'); fx.thermo('RXN'); fx.thermo('VLE')
    def reset_globals(self):
        fx.reset_globals()
        try:
            fx.tmo().Stream.registry.clear()
            fx.tmo().Stream.ticket_numbers.clear()      # process-global autonumbering of IDs
        except Exception: pass
    def depth(self, tier): return 1

    def configs(self, tier, seed):
        cfgs = []
        for t in ('Sl_A', 'Sg_A', 'Se_A', 'Sl_B', 'Mgl_A', 'Mgl_B', 'Mls_A', 'M1l_A', 'Mgl1_A', 'Me_A'):
            for price in (0.0, 0.25):
                for cf in (None, (('GWP', 2.0),), (('GWP', 2.0), ('FEC', 0.5))):
                    for ID in (None, '.px1'):
                        for how in ('ctor', 'attr'):
                            if how == 'attr' and cf is None and not price: continue
                            cfgs.append(('stream', t, price, cf, ID, how))
        # the session's default package differs between dump and load (settings.set_thermo is process-global; restored afterwards)
        for t in ('Sl_A', 'Sg_A', 'Mgl_A', 'M1l_A', 'Sl_B', 'Mgl_B'):
            own = TEMPLATES[t][1]
            for other in ('A', 'B', 'VLE'):
                if other == own: continue
                for mode in ('own>other', 'other>own', 'own>none'):
                    cfgs.append(('stream_default', t, other, mode))
        for basis in ('mol', 'wt'):
            for X in (0.0, 0.3, 1.0):
                for rx in ('H2 + 0.5 O2 -> H2O', 'Glucose -> 2 Ethanol + 2 CO2', 'CH4 + 2 O2 -> CO2 + 2 H2O'):
                    cfgs.append(('reaction', rx, X, basis, None))
                cfgs.append(('reaction', 'H2O,l -> H2,g + 0.5 O2,g', X, basis, 'lg'))
            for kind in ('parallel', 'series', 'system'):
                cfgs.append(('rxnset', kind, basis))
        for pkg in ('A', 'VLE', 'RXN'):
            for ID in fx.PACKAGES[pkg]: cfgs.append(('chemical', pkg, ID))
        for pkg in ('A', 'B', 'VLE', 'RXN'):
            cfgs.append(('chemicals', pkg))
            cfgs.append(('thermo', pkg, False)); cfgs.append(('thermo', pkg, True))
        k = seed % len(cfgs)
        return cfgs[k:] + cfgs[:k]

    def build(self, config):
        tmo = fx.tmo()
        st = St(); st.names = config; st.last = None; st.nontriv = False; st.nsteps = 0; st.m = None; st.held = {}
        kind = config[0]
        if kind == 'stream':
            _, t, price, cf, ID, how = config
            k, pkg, phases, pf, T, P = TEMPLATES[t]
            th = _thermo(pkg)
            cfd = None if cf is None else dict(cf)
            kw = dict(T=T, P=P, thermo=th)
            if how == 'ctor': kw.update(price=price, characterization_factors=cfd)
            if k == 'S':
                x = tmo.Stream(ID, phase=phases[0], **kw, **{a: v for a, v in pf[phases[0]].items() if v})
            else:
                x = tmo.MultiStream(ID, phases=tuple(phases), **kw, **{p: [(a, v) for a, v in d.items() if v] for p, d in pf.items() if d})
            if how == 'attr':
                x.price = price
                if cfd:
                    for a, v in cfd.items(): x.characterization_factors[a] = v
            st.X = [x, (price, cfd or {}, '' if ID is None else ID.lstrip('.'))]
        elif kind == 'stream_default':
            x = build_template(config[1]); x.price = 0.25
            st.X = [x]
        elif kind == 'reaction':
            _, rx, X, basis, phases = config
            ch = fx.thermo('RXN').chemicals
            kw = dict(chemicals=ch, basis=basis)
            if phases: kw['phases'] = phases
            reactant = rx.split()[0].split(',')[0]
            st.X = [tmo.Reaction(rx, reactant, X, **kw)]
        elif kind == 'rxnset':
            _, k, basis = config
            ch = fx.thermo('RXN').chemicals
            r1 = tmo.Reaction('Glucose -> 2 Ethanol + 2 CO2', 'Glucose', 0.5, chemicals=ch, basis=basis)
            r2 = tmo.Reaction('Ethanol + O2 -> AceticAcid + H2O', 'Ethanol', 0.25, chemicals=ch, basis=basis)
            r3 = tmo.Reaction('CH4 + 2 O2 -> CO2 + 2 H2O', 'CH4', 0.75, chemicals=ch, basis=basis)
            st.X = [{'parallel': lambda: tmo.ParallelReaction([r1, r3]), 'series': lambda: tmo.SeriesReaction([r1, r2]),
                     'system': lambda: tmo.ReactionSystem(r1, tmo.ParallelReaction([r2, r3]))}[k]()]
        elif kind == 'chemical':
            st.X = [getattr(fx.thermo(config[1]).chemicals, config[2].replace('-', '_')) if False else fx.thermo(config[1]).chemicals[config[2]]]
        elif kind == 'chemicals':
            st.X = [fx.thermo(config[1]).chemicals]
        elif kind == 'thermo':
            st.X = [fx.thermo(config[1], ideal=config[2])]
        return st

    def canon(self, st): return (st.names, st.nsteps)
    def actions(self, st): return [('pickle',)] if st.nsteps == 0 else []

    def step(self, st, a):
        tmo = fx.tmo()
        kind = st.names[0]
        x = st.X[0]
        st.last = a; st.nsteps += 1
        match0 = dict(kind=kind)
        if kind == 'stream_default':
            _, t, other, mode = st.names
            match0 = dict(kind=('M1' if len(TEMPLATES[t][2]) == 1 else 'M') if TEMPLATES[t][0] == 'M' else 'S', default=mode)
            settings = tmo.settings
            had = hasattr(settings, '_thermo'); saved = getattr(settings, '_thermo', None)
            own_th, other_th = x.thermo, fx.thermo(other)
            def setdef(th):
                if th is None:
                    if hasattr(settings, '_thermo'): object.__delattr__(settings, '_thermo')
                else: settings.set_thermo(th)
            first, second = {'own>other': (own_th, other_th), 'other>own': (other_th, own_th), 'own>none': (own_th, None)}[mode]
            try:
                setdef(first)
                blob = pickle.dumps(x)
                setdef(second)
                try:
                    y = pickle.loads(blob)
                except Exception as e:
                    raise Violation('unexpected-exception', f'{st.names!r}: unpickling after the default package changed raised {type(e).__name__}: {e}',
                                    match=dict(op='pickle', exc=type(e).__name__, **match0))
            finally:
                if had: settings._thermo = saved
                elif hasattr(settings, '_thermo'): object.__delattr__(settings, '_thermo')
            _check_stream_pickle(x, y, match0)
            st.nontriv = True
            return ('stream_default', match0['kind'], mode)
        try:
            y = pickle.loads(pickle.dumps(x))
        except Exception as e:
            raise Violation('unexpected-exception', f'pickling {st.names!r} raised {type(e).__name__}: {e}', match=dict(op='pickle', exc=type(e).__name__, **match0))
        def differ(what, gx, gy):
            raise Violation('pickle-differs', f'{st.names!r}: {what}: original {gx!r} unpickled {gy!r}', match=dict(op='pickle', what=what, **match0))
        def close(u, v):
            if u is None or v is None: return u is v
            u = np.asarray(u, float); v = np.asarray(v, float)
            return u.shape == v.shape and bool(np.all(np.abs(u - v) <= 1e-12 * np.maximum(1.0, np.abs(u))))
        if kind == 'stream':
            price, cf, ID = st.X[1]
            _, t, _, _, _, how = st.names
            match0 = dict(kind=('M1' if len(TEMPLATES[t][2]) == 1 else 'M') if TEMPLATES[t][0] == 'M' else 'S', how=how)
            # what was given at construction must be what the original reports ...
            for what, want, got in (('price', price, x.price), ('characterization_factors', cf, dict(x.characterization_factors)), ('ID', ID, x.ID)):
                if want != got:
                    raise Violation('constructor-argument-lost', f'{st.names!r}: {what} given {want!r}, stream reports {got!r}',
                                    match=dict(what=what, **match0))
            _check_stream_pickle(x, y, match0)
            st.nontriv = bool(price or cf or ID)
            return ('stream', match0['kind'], bool(price), bool(cf), bool(ID))
        if kind in ('reaction', 'rxnset'):
            if type(y) is not type(x): differ('class', type(x).__name__, type(y).__name__)
            def norm(v):
                if hasattr(v, 'to_array'): v = v.to_array()
                if isinstance(v, np.ndarray): v = v.tolist()
                if isinstance(v, (list, tuple)): return tuple(norm(i) for i in v)
                if isinstance(v, (float, np.floating, int)) and not isinstance(v, bool): return float(v)
                return v
            for attr in ('X', 'basis', 'phases'):
                gx, gy = norm(getattr(x, attr, None)), norm(getattr(y, attr, None))
                if gx != gy: differ(attr, gx, gy)
            if hasattr(x, 'reactant') and x.reactant != y.reactant: differ('reactant', x.reactant, y.reactant)
            if hasattr(x, 'reactants') and tuple(x.reactants) != tuple(y.reactants): differ('reactants', x.reactants, y.reactants)
            if tuple(x.chemicals.IDs) != tuple(y.chemicals.IDs): differ('chemicals', x.chemicals.IDs, y.chemicals.IDs)
            if hasattr(x, 'stoichiometry'):
                sx = np.asarray(x.stoichiometry.to_array() if hasattr(x.stoichiometry, 'to_array') else x.stoichiometry, float)
                sy = np.asarray(y.stoichiometry.to_array() if hasattr(y.stoichiometry, 'to_array') else y.stoichiometry, float)
                if not close(sx, sy): differ('stoichiometry', sx.tolist(), sy.tolist())
            # same effect on a feed
            IDs = x.chemicals.IDs
            def feed(chems):
                if getattr(x, 'phases', None):
                    s = tmo.MultiStream(None, phases=tuple(x.phases), thermo=tmo.Thermo(chems) if False else fx.thermo('RXN'), l=[('H2O', 10.0)], g=[('H2', 1.0), ('O2', 2.0)])
                else:
                    s = tmo.Stream(None, thermo=fx.thermo('RXN'), H2=5.0, O2=20.0, H2O=1.0, CH4=3.0, CO=2.0, Glucose=4.0, Ethanol=1.5)
                return s
            fa, fb = feed(x.chemicals), feed(y.chemicals)
            try:
                x(fa)
            except Exception as e:
                raise Rejected(f'reaction:{type(e).__name__}', cut=False)
            try:
                y(fb)
            except Exception as e:
                raise Violation('unexpected-exception', f'{st.names!r}: unpickled reaction raised {type(e).__name__}: {e} on a feed the original accepts',
                                match=dict(op='apply-unpickled', exc=type(e).__name__, **match0))
            if okey(observe(fa)) != okey(observe(fb)): differ('effect', okey(observe(fa)), okey(observe(fb)))
            st.nontriv = True
            return (kind, type(x).__name__)
        if kind == 'chemical':
            if type(y) is not type(x): differ('class', type(x).__name__, type(y).__name__)
            for attr in ('ID', 'CAS', 'MW', 'Tb', 'Tm', 'Tc', 'Pc', 'Hf', 'S0', 'Hfus', 'phase_ref', 'locked_state', 'formula', 'aliases', 'N_solutes'):
                gx, gy = getattr(x, attr, None), getattr(y, attr, None)
                if gx != gy and not (isinstance(gx, float) and gx != gx and gy != gy): differ(attr, gx, gy)
            for T in (280.0, 350.0):
                for f, args in (('H', ('l', T, 101325.0)), ('S', ('l', T, 101325.0)), ('Cn', ('l', T, 101325.0)), ('V', ('l', T, 101325.0)), ('Psat', (T,)), ('Hvap', (T,))):
                    fxn = getattr(x, f, None); fyn = getattr(y, f, None)
                    if x.locked_state and f in ('H', 'S', 'Cn', 'V'): args = args[1:]
                    try: vx = fxn(*args)
                    except Exception: continue
                    try: vy = fyn(*args)
                    except Exception as e:
                        raise Violation('unexpected-exception', f'{st.names!r}: {f}{args} raised {type(e).__name__} on the unpickled chemical only', match=dict(op='eval-unpickled', exc=type(e).__name__, **match0))
                    if not close(vx, vy): differ(f, vx, vy)
            st.nontriv = True
            return (kind, bool(x.locked_state))
        if kind == 'chemicals':
            if type(y) is not type(x): differ('class', type(x).__name__, type(y).__name__)
            for attr in ('IDs', 'CASs'):
                if tuple(getattr(x, attr)) != tuple(getattr(y, attr)): differ(attr, getattr(x, attr), getattr(y, attr))
            if not close(x.MW, y.MW): differ('MW', x.MW, y.MW)
            for ID in x.IDs:
                if x.index(ID) != y.index(ID): differ('index', x.index(ID), y.index(ID))
            st.nontriv = True
            return (kind,)
        if kind == 'thermo':
            if type(y) is not type(x): differ('class', type(x).__name__, type(y).__name__)
            if tuple(x.chemicals.IDs) != tuple(y.chemicals.IDs): differ('chemicals', x.chemicals.IDs, y.chemicals.IDs)
            for attr in ('Gamma', 'Phi', 'PCF'):
                if getattr(x, attr) is not getattr(y, attr): differ(attr, getattr(x, attr), getattr(y, attr))
            if type(x.mixture) is not type(y.mixture): differ('mixture', type(x.mixture).__name__, type(y.mixture).__name__)
            n = len(x.chemicals.IDs)
            z = np.arange(1, n + 1, dtype=float)
            for f in ('H', 'Cn'):
                try: vx = getattr(x.mixture, f)('l', z, 320.0, 101325.0)
                except Exception: continue
                vy = getattr(y.mixture, f)('l', z, 320.0, 101325.0)
                if not close(vx, vy): differ('mixture.' + f, vx, vy)
            st.nontriv = True
            return (kind, st.names[2])
        raise ValueError(kind)

    def nontrivial(self, st, a, obs): return bool(st.nontriv)
    def outcome(self, st, a, obs): return repr(obs)[:200]


_ALL = tuple(t for t in TEMPLATES if t not in ('Sl_C', 'Mgl_C', 'Sl_Am', 'Mgl_Cm'))
_CORE = ('Sl_A', 'Sg_A', 'Sl_B', 'Mgl_A', 'M1l_A')
_ALLOPS = ('copy', 'proxy', 'flow_proxy', 'copy_like', 'link', 'unlink', 'mutate', 'pickle')

SYSTEMS = [
    # kind x kind x package matrix of copy / copy_like (target = stream 0, source = stream 1), followed by mutations (independence)
    # cross-package copies after the source's flow dict was refilled in another order (the packages' index caches are state)
    C13('c13.xpkg', ('Sl_A', 'Sl_B', 'Mgl_A', 'Mgl_B'), 3, 5, ops=('copy_like', 'reorder', 'mutate_flow', 'copy'), tcap_t=60),
    # copy(thermo=other package) onto smaller / larger / re-ordered packages, then mutations (independence)
    C13('c13.copythermo', ('Sl_A', 'Mgl_A', 'Sl_B', 'Mgl_B', 'Sl_C', 'Mgl_C', 'Sl_Am', 'Mgl_Cm', 'M1l_A', 'MLl_A'), 2, 3,
        ops=('copy_thermo', 'mutate_flow', 'reorder'), tcap_t=120),
    C13('c13.copylike', _ALL, 2, 3, ops=('copy', 'copy_like', 'mutate', 'reorder'), copy_like_pairs={(0, 1), (1, 0), (2, 0), (2, 1), (0, 2), (1, 2)}, tcap_t=400, pviews=True),
    # links / proxies / unlink / mutation / pickle, all ordered pairs of five templates
    C13('c13.share', _CORE, 2, 3, ops=_ALLOPS, pickle_depth=1, tcap_t=500, views=True, pviews=True),
    # longer histories on a small universe
    C13('c13.share.deep', ('Sl_A', 'Sg_A', 'Mgl_A'), 3, 4, ops=_ALLOPS, pickle_depth=0,
        link_flags=[(True, True, True), (True, False, False), (False, True, False), (False, False, True), (True, False, True)], tcap_t=400, views=True, pviews=True),
    PickleGrid(),
]
