"""
Shared pieces of the reaction properties C05 / C06 / C17: the menu of atomically balanced
stoichiometries over PKG_RXN, builders for the real `Reaction` objects through both parsers
(string / dict) and every route to a weight basis, the feed menus, target builders and the
boring NumPy reference model  n' = n + X * n[r] * nu  (nu normalised to -1 on the reactant).

Nothing here imports thermosteam at import time.
"""
from __future__ import annotations
import numpy as np
from mc import fixtures as fx
from mc.engine import HarnessError

IDS = fx.PACKAGES['RXN']      # ('H2','O2','H2O','CH4','CO','CO2','Ethanol','Glucose','AceticAcid')
N = len(IDS)
POS = {ID: i for i, ID in enumerate(IDS)}

# hard-coded elemental composition (independent of chemicals.formula_array)
ATOMS = {
    'H2': dict(H=2), 'O2': dict(O=2), 'H2O': dict(H=2, O=1), 'CH4': dict(C=1, H=4), 'CO': dict(C=1, O=1),
    'CO2': dict(C=1, O=2), 'Ethanol': dict(C=2, H=6, O=1), 'Glucose': dict(C=6, H=12, O=6),
    'AceticAcid': dict(C=2, H=4, O=2),
}
ELEMENTS = ('C', 'H', 'O')
ATOM_MATRIX = np.array([[ATOMS[ID].get(e, 0) for ID in IDS] for e in ELEMENTS], float)    # (3, N)

# natural phase of each chemical for the phase-tagged variants
NAT_PHASE = {'H2': 'g', 'O2': 'g', 'H2O': 'l', 'CH4': 'g', 'CO': 'g', 'CO2': 'g', 'Ethanol': 'l', 'Glucose': 's',
             'AceticAcid': 'l'}

# balanced molar stoichiometries (name, {ID: nu})
MENU = [
    ('h2comb',   {'H2': -1, 'O2': -0.5, 'H2O': 1}),
    ('ferment',  {'Glucose': -1, 'Ethanol': 2, 'CO2': 2}),
    ('ch4comb',  {'CH4': -1, 'O2': -2, 'CO2': 1, 'H2O': 2}),
    ('cocomb',   {'CO': -1, 'O2': -0.5, 'CO2': 1}),
    ('etox',     {'Ethanol': -1, 'O2': -1, 'AceticAcid': 1, 'H2O': 1}),
    ('wgs',      {'CO': -1, 'H2O': -1, 'CO2': 1, 'H2': 1}),
    ('smr',      {'CH4': -1, 'H2O': -1, 'CO': 1, 'H2': 3}),
    ('gluccomb', {'Glucose': -1, 'O2': -6, 'CO2': 6, 'H2O': 6}),
    ('acet',     {'Glucose': -1, 'AceticAcid': 3}),
    ('etcomb',   {'Ethanol': -1, 'O2': -3, 'CO2': 2, 'H2O': 3}),
    ('sabatier', {'CO2': -0.25, 'H2': -1, 'CH4': 0.25, 'H2O': 0.5}),
    ('partox',   {'CH4': -1, 'O2': -1.5, 'CO': 1, 'H2O': 2}),
    ('etreform', {'Ethanol': -1, 'H2O': -1, 'CO': 2, 'H2': 4}),
    ('elec',     {'H2O': -1, 'H2': 1, 'O2': 0.5}),
    # ---- thorough tier only (index >= MENU_QUICK_N): more fractional / multi-product stoichiometries
    ('glucreform', {'Glucose': -1, 'H2O': -6, 'CO2': 6, 'H2': 12}),
    ('acetcomb',   {'AceticAcid': -1, 'O2': -2, 'CO2': 2, 'H2O': 2}),
    ('dryreform',  {'CH4': -1, 'CO2': -1, 'CO': 2, 'H2': 2}),
    ('acetmeth',   {'AceticAcid': -1, 'CH4': 1, 'CO2': 1}),
    ('ethsyn',     {'CO': -2, 'H2': -4, 'Ethanol': 1, 'H2O': 1}),
    ('halfferm',   {'Glucose': -0.5, 'Ethanol': 1, 'CO2': 1}),
    ('etpartox',   {'Ethanol': -1, 'O2': -2, 'CO': 2, 'H2O': 3}),
    ('ch4mixed',   {'CH4': -1, 'O2': -1.75, 'CO': 0.5, 'CO2': 0.5, 'H2O': 2}),
    ('glucacid',   {'Glucose': -1, 'AceticAcid': 2, 'CO': 2, 'H2': 2}),
    ('etmixed',    {'Ethanol': -1, 'O2': -2.5, 'AceticAcid': 0.25, 'CO2': 1.5, 'H2O': 2.5}),
]
MENU_QUICK_N = 14            # the quick tier enumerates MENU[:MENU_QUICK_N]; the thorough tier the whole menu

def menu_range(tier):
    return range(MENU_QUICK_N if tier == 'quick' else len(MENU))
MENU_INDEX = {name: i for i, (name, _) in enumerate(MENU)}

for _name, _d in MENU:       # the menu itself must be atomically balanced (harness precondition)
    _v = np.zeros(N)
    for _k, _x in _d.items(): _v[POS[_k]] = _x
    if np.abs(ATOM_MATRIX @ _v).max() > 1e-12:
        raise HarnessError(f'HARNESS-ERROR menu reaction {_name} is not atomically balanced')


def nu_vector(ri):
    v = np.zeros(N)
    for k, x in MENU[ri][1].items(): v[POS[k]] = x
    return v

def reactants_of(ri):
    return [k for k, x in MENU[ri][1].items() if x < 0]

def tags_of(ri, tag):
    """phase tag per species of reaction ri for tag variant 'nat' / 'wg' (water as gas); None for phase-less"""
    if tag is None or tag == 'none': return None
    d = {}
    for k in MENU[ri][1]:
        p = NAT_PHASE[k]
        if tag == 'wg' and k == 'H2O': p = 'g'
        elif tag == 'ws' and k == 'H2O': p = 's'              # water as ice
        elif tag == 'gl' and k == 'Glucose': p = 'l'          # dissolved glucose
        elif tag == 'vap' and p == 'l': p = 'g'               # every liquid as vapour
        d[k] = p
    return d

def phases_of(tagmap):
    return tuple(sorted(set(tagmap.values())))

def reset_reaction_globals():
    """process-global state of the reaction package that must not leak between executions"""
    fx.reset_globals()
    import thermosteam.reaction as R
    R.CHECK_FEASIBILITY = True

def feasibility_flag():
    import thermosteam.reaction as R
    return bool(R.CHECK_FEASIBILITY)

# ---- packages -------------------------------------------------------------------------------------

PKG_ORDER = {
    'P': IDS,
    'R': tuple(reversed(IDS)),                                                        # re-ordered
    'X': ('N2', 'Glucose', 'CO2', 'H2', 'AceticAcid', 'H2O', 'CO', 'O2', 'Ethanol', 'CH4'),   # permuted superset
    'B': ('H2O', 'CO2', 'O2', 'H2', 'CO'),                                            # permuted subset
}

def package(key):
    if key == 'P': return fx.thermo('RXN')
    return fx.custom_thermo(PKG_ORDER[key])

_MW = None
def MW():
    global _MW
    if _MW is None:
        _MW = np.array(package('P').chemicals.MW, float)
        for name, d in MENU:
            v = np.zeros(N)
            for k, x in d.items(): v[POS[k]] = x
            if abs((v * _MW).sum()) > 1e-9 * np.abs(v * _MW).sum():
                raise HarnessError(f'HARNESS-ERROR menu reaction {name} is not mass balanced with the package MWs')
    return _MW

# ---- writing a stoichiometry as the library's input forms ------------------------------------------

def _num(x):
    x = float(x)
    return repr(int(x)) if x == int(x) else repr(x)

def as_string(d, tagmap=None):
    left = []; right = []
    for k, x in d.items():
        term = ('' if abs(x) == 1 else _num(abs(x)) + ' ') + k + ((',' + tagmap[k]) if tagmap else '')
        (left if x < 0 else right).append(term)
    return ' + '.join(left) + ' -> ' + ' + '.join(right)

def as_dict(d, tagmap=None):
    if tagmap: return {k: (tagmap[k], float(x)) for k, x in d.items()}
    return {k: float(x) for k, x in d.items()}

ROUTES = ('mol', 'wt-set', 'wt-copy', 'wt-direct')

def make_reaction(ri, reactant, X, form='str', tag=None, route='mol', scale=1.0, pkg='P'):
    """Real Reaction for menu entry ri.
    form  : 'str' | 'dict'   (the two parsers)
    tag   : None | 'nat' | 'wg'
    route : 'mol'       defined by mol
            'wt-set'    defined by mol, then `rxn.basis = 'wt'`
            'wt-copy'   defined by mol, then `rxn.copy(basis='wt')`
            'wt-direct' defined with weight coefficients nu_i*MW_i and basis='wt'
    scale : the written coefficients are multiplied by this (the library re-normalises on the reactant)
    """
    t = fx.tmo()
    chems = package(pkg).chemicals
    d = {k: x * scale for k, x in MENU[ri][1].items()}
    tagmap = tags_of(ri, tag)
    if route == 'wt-direct':
        mw = MW()
        d = {k: x * mw[POS[k]] for k, x in d.items()}
        basis = 'wt'
    else:
        basis = 'mol'
    definition = as_string(d, tagmap) if form == 'str' else as_dict(d, tagmap)
    rxn = build_reaction(definition, reactant, X, chems, basis)
    if route == 'wt-set':
        rxn.basis = 'wt'
    elif route == 'wt-copy':
        rxn = rxn.copy(basis='wt')
    return rxn

def build_reaction(definition, reactant, X, chems, basis='mol', probe=True, **kw):
    """`Reaction(definition, ...)` followed by the TWIN PROBE: further reactions are built from the very same definition (string or
    dict object) in the same execution — one with another reactant, one that is then moved to the other basis in place — and the
    reaction built first must be untouched by that: each reaction built from a definition behaves like a reaction built alone.
    (Anything the library shares between reactions built from equal definitions, e.g. a memoised parse result, shows up here,
    deterministically and inside one execution.)"""
    from mc.engine import Violation
    t = fx.tmo()
    rxn = t.Reaction(definition, reactant=reactant, X=X, chemicals=chems, basis=basis, **kw)
    if not probe or not definition: return rxn
    d0 = rxn_digest(rxn)
    kw2 = {k: v for k, v in kw.items() if k == 'phases'}
    st = rxn._stoichiometry
    neg = sorted({int(idx[-1]) if isinstance(idx, tuple) else int(idx) for idx, v in st.nonzero_items() if v < 0})
    rname = reactant if isinstance(reactant, str) else reactant[-1]
    others = [chems.IDs[j] for j in neg if chems.IDs[j] != rname]
    changed = False
    try:
        # both twins are always built and one verdict is given, so that the outcome does not depend on which of them bites
        if others:
            t.Reaction(definition, reactant=others[0], X=0.5, chemicals=chems, basis=basis, **kw2)
            changed = changed or rxn_digest(rxn) != d0
        tw = t.Reaction(definition, reactant=reactant, X=0.5, chemicals=chems, basis=basis, **kw2)
        tw.basis = 'wt' if basis == 'mol' else 'mol'
        changed = changed or rxn_digest(rxn) != d0
    except Exception as e:
        raise Violation('shared-definition', 'building further reactions from the same definition failed or disturbed the first one',
                        match=dict(form='str' if isinstance(definition, str) else 'dict', tagged=bool(rxn._phases)))
    if changed:
        raise Violation('shared-definition', 'building further Reactions from the same definition (another reactant / basis switched in '
                        'place) changed the stoichiometry of the Reaction built first: the objects share state',
                        match=dict(form='str' if isinstance(definition, str) else 'dict', tagged=bool(rxn._phases)))
    return rxn


def guard_build(cls):
    """class decorator: a Violation raised while BUILDING the initial state (twin probe) is reported as a state violation of the
    initial state (the engine evaluates `invariants` right after `build` and never expands such a configuration)"""
    from mc.engine import Violation
    ob, oi, oc = cls.build, cls.invariants, cls.canon
    class _Broken: pass
    def build(self, config):
        try: return ob(self, config)
        except Violation as v:
            st = _Broken(); st.config = config; st.build_violation = v
            return st
    def invariants(self, st):
        v = getattr(st, 'build_violation', None)
        if v is not None: return [v]
        return oi(self, st)
    def canon(self, st):
        if getattr(st, 'build_violation', None) is not None: return (st.config, 'build-violation')
        return oc(self, st)
    os_, oa = cls.step, cls.actions
    def step(self, st, a):
        v = getattr(st, 'build_violation', None)
        if v is not None: raise Violation(v.clause, v.msg, match=v.match)      # (plain replay keeps stepping after a bad initial state)
        return os_(self, st, a)
    def actions(self, st):
        if getattr(st, 'build_violation', None) is not None: return []
        return oa(self, st)
    cls.build, cls.invariants, cls.canon, cls.step, cls.actions = build, invariants, canon, step, actions
    return cls

def basis_of(route):
    return 'mol' if route == 'mol' else 'wt'

# ---- reference model ------------------------------------------------------------------------------------

class RefRxn:
    """nu normalised to -1 at the reactant slot; arrays are (N,) for phase-less, (P, N) for phase-tagged reactions."""
    __slots__ = ('nu', 'ridx', 'X', 'phases', 'name')
    def __init__(self, ri, reactant, X, tag=None):
        tagmap = tags_of(ri, tag)
        v = MENU[ri][1]
        self.name = MENU[ri][0]
        if tagmap:
            self.phases = phases_of(tagmap)
            nu = np.zeros((len(self.phases), N))
            for k, x in v.items(): nu[self.phases.index(tagmap[k]), POS[k]] = x
            self.ridx = (self.phases.index(tagmap[reactant]), POS[reactant])
        else:
            self.phases = ()
            nu = nu_vector(ri)
            self.ridx = (POS[reactant],)
        self.nu = nu / -nu[self.ridx]
        self.X = float(X)

    def nu_wt(self):
        mw = MW()
        w = self.nu * mw
        return w / -w[self.ridx]

    def extent(self, n, wt=False):
        """change of the material array caused by this reaction acting on composition n"""
        nu = self.nu_wt() if wt else self.nu
        return n[self.ridx] * self.X * nu


def ref_single(r, n, wt=False):
    return n + r.extent(n, wt)

def ref_parallel(rs, n, wt=False):
    d = np.zeros_like(n)
    for r in rs: d = d + r.extent(n, wt)      # every extent from the FEED composition
    return n + d

def ref_series(rs, n, wt=False):
    for r in rs: n = n + r.extent(n, wt)      # running composition
    return n

def ref_apply(tree, n, wt=False):
    """tree: RefRxn | ('P', [RefRxn...]) | ('S', [...]) | ('Y', [tree...])"""
    if isinstance(tree, RefRxn): return ref_single(tree, n, wt)
    kind, items = tree
    if kind == 'P': return ref_parallel(items, n, wt)
    if kind == 'S': return ref_series(items, n, wt)
    if kind == 'Y':
        for sub in items: n = ref_apply(sub, n, wt)
        return n
    raise ValueError(kind)

def mass_of(n):
    return float((np.asarray(n, float) * MW()).sum())

def atoms_of(n):
    n = np.asarray(n, float)
    if n.ndim == 2: n = n.sum(0)
    return ATOM_MATRIX @ n

# ---- digests of the real reaction objects (complete mutable state) --------------------------------------------

def rxn_digest(rxn, pkgs=None):
    """Every mutable field of a Reaction / ReactionItem / ReactionSet / ReactionSystem."""
    t = fx.tmo()
    from thermosteam.reaction import _reaction as R
    if isinstance(rxn, R.ReactionSystem):
        return ('Y', rxn._basis, tuple(rxn._phases), tuple(rxn_digest(i) for i in rxn._reactions))
    st = rxn._stoichiometry
    if isinstance(st, list):
        sd = tuple(_sd(i) for i in st)
    else:
        sd = _sd(st)
    ridx = rxn._reactant_index
    if isinstance(ridx, np.ndarray): ridx = tuple(int(i) for i in ridx)
    elif isinstance(ridx, (list, tuple)): ridx = tuple(tuple(int(k) for k in i) if isinstance(i, (tuple, list)) else int(i) for i in ridx)
    else: ridx = int(ridx)
    X = rxn._X
    Xd = tuple(fx.r12(x) for x in np.atleast_1d(np.asarray(X, float)))
    return (type(rxn).__name__, rxn._basis, tuple(rxn._phases), ridx, Xd, sd, tuple(rxn._chemicals.IDs))

def _sd(v):
    """rounded complete digest of a SparseVector / SparseArray (a stored zero is visible)"""
    rows = getattr(v, 'rows', None)
    if rows is not None:
        return ('A', tuple(_sd(r) for r in rows))
    dct = getattr(v, 'dct', None)
    if dct is not None:
        return ('V', v.size, tuple(sorted((int(k), fx.r12(x)) for k, x in dct.items())))
    return _round(fx.sparse_digest(v))

def _round(d):
    if isinstance(d, tuple): return tuple(_round(i) for i in d)
    if isinstance(d, float): return fx.r12(d)
    return d

def rxn_view(rxn):
    """Observable (stoichiometry as dense array, reactant, X, basis) of a single reaction-like object."""
    st = rxn._stoichiometry
    return dict(nu=np.array(st.to_array(), float), reactant=rxn.reactant, X=float(rxn.X), basis=rxn._basis,
                phases=tuple(rxn._phases))
