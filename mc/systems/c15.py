"""
C15 — liquid-liquid and solid-liquid splits meet their equilibrium and labelling rules.

Bounded exhaustive exploration of the real `Stream.lle` / `Stream.sle` solver objects (one
solver per stream, kept in LLECache / SLECache, remembering `_K, _phi, _T, _z_mol,
_lle_chemicals` resp. `_chemical, _nonzero, _index, _solute_gamma_index, _liquid_mol ...`).

Layers
  c15.lle.grid.pe    depth 1: (composition, scale) x (T, top chemical) on a fresh stream, default method: scale and
                     top-chemical clauses
  c15.lle.act.pe     depth 1: same grid (scale 1, no top chemical), default method: equal-activity clause (kept apart so
                     that a listed finding on it neither cuts nor hides the other clauses)
  c15.lle.grid.de / .shgo   depth 1 on a declared sub-grid, all three clauses
  c15.lle.hist.pe / hist5.pe / hist.uc.pe   depth 3-5: sequences of calls (composition, T, use_cache) on ONE stream; every
                     call is a probe compared with the same call with reuse forbidden, executed on a twin stream rebuilt by
                     replaying the same history (clauses reuse-vs-noreuse, top-chemical)
  c15.lle.fresh.pe   depth 3: same histories, every call compared with a freshly constructed stream (history-vs-fresh)
  c15.lle.hist.de / .shgo   depth 2, both comparisons
  c15.sle.grid       depth 1: (solute, solvents, amounts, ideal) x (T, given | computed solubility)
  c15.sle.hist       depth 3: sequences of (solvent set, T, given | computed) calls on ONE stream
  c15.sle.feed       depth 2: calls on ONE stream with the feed edited in between (solute total up / down, solvent set and amounts)
  c15.lle.hist.nu.de depth 3: histories that contain `update=False` calls
  c15.sle.solutes    depth 2/3: ONE stream whose contents are replaced by another solute (pure or in Methanol) between calls

Reference model: my own evaluation of x_i * gamma_i per phase with `thermo.Gamma` over the whole
package (not the solver's sub-list), my own mass fractions, the feed vector I put in, and
`chemicals.solubility_eutectic` with the package's activity coefficient at the composition the call
left in the liquid.
"""
from __future__ import annotations
import itertools, math
import numpy as np
from mc.engine import System, Violation, Rejected
from mc import fixtures as fx

PROPERTY = 'C15'
RULE = ('LLE: every (method, feed composition, scale, T, top chemical) of the declared grid is solved on a fresh stream; '
        'histories are all sequences over a (composition x T x use_cache) alphabet on one stream, each call compared with '
        'the same call with reuse forbidden on a twin rebuilt through the same history and with a fresh stream.  A case is '
        'non-trivial when the call returned two liquid phases (each carrying more than 1e-8 of the feed); for history '
        'steps additionally when the stream had remembered coefficients from an earlier call.  SLE: every (solute, solvent '
        'set, amounts, ideal/non-ideal package, T, given/computed solubility); histories are sequences of such calls on one '
        'stream with the solvent set changed in between; non-trivial when the solute ended up split between liquid and '
        'solid, or (pure solute) when the melting-point rule applied.')
ASSUMPTIONS = [
    'LLE package (Water, 1-Butanol, Octanol, EthylAcetate, Hexane, Ethanol), Dortmund UNIFAC; feeds: Water plus every subset of '
    '1-4 of the others containing a partially miscible partner, 2-4 amount patterns; T in {285, 300, 320, 355} K; scale in {1e-3, 1, 1e3}; '
    'top chemical: none, every chemical present, one absent chemical; methods: pseudo equilibrium on the full grid, shgo and '
    'differential evolution on a declared sub-grid',
    '"returns two liquid phases" is read as: both phases carry more than 1e-8 of the feed (mol); otherwise the equal-activity and '
    'top-chemical clauses say nothing',
    'history alphabets use temperatures >= 15 K apart and mole fractions that are >= 0.02 apart or exactly equal (families FIX/FIXO hold one '
    'fraction bit-equal while the other two trade); changes '
    'below the cache tolerances (1e-3 K, 1e-5) are not explored',
    'when no top chemical is named the labels l/L may be exchanged between two results that are compared (DESIGN 3b)',
    'documented solver rejections (NoEquilibrium, RuntimeError of a non-converged solve, "no solute available") and numerical failures '
    '(FloatingPointError / ZeroDivisionError raised because thermosteam runs numpy with divide/invalid="raise") are counted as rejected: the '
    'property quantifies over calls that return',
    'SLE: solutes Tetradecanol, AceticAcid, Glucose in 0-3 of (Methanol, Water, Ethanol); T-specified calls only (the quantifier names '
    'T 250-450 K; H-specified calls are not explored); a given solubility for a PURE solute is outside the compared domain (the two '
    'clauses contradict each other there)',
    'SLE computed-solubility clause is evaluated for T < Tm only (the eutectic relation is the solubility of a SOLID; at T >= Tm nothing is demanded of a mixture)',
    'SLE "solubility it computed" is re-evaluated independently: chemicals.solubility_eutectic(T, Tm, Hfus, Cn.l(T), Cn.s(T), gamma) with '
    'gamma of the solute from thermo.Gamma at the liquid composition the call left behind; for the ideal package gamma is the solver\'s documented '
    '`activity_coefficient` attribute (config axis: unset, 2, 5)',
    'between grid points nothing is claimed; third-party numerics (flexsolve, scipy, chemicals) are trusted',
]
TOLERANCES = {
    'two_phase_threshold_fraction_of_feed': 1e-8,
    'equal_activity_rel_pseudo_equilibrium': 1e-4,      # inner loop xtol 1e-9 on ln K, outer 1e-12 -> safety factor
    'equal_activity_lnratio_global_optimisers': 5e-2,   # f_tol = 1e-6 on G/RT per mol feed; see _ACT_TOL_OPT below
    'equal_activity_min_amount_global_optimisers': 1e-3,
    'scale_rel_pseudo_equilibrium': 1e-9,
    'scale_rel_global_optimisers': 1e-3,                # optimisers resolve G/RT to 1e-6 -> phase amounts to ~1e-3 of the feed
    'reuse_vs_noreuse_rel_of_feed_pseudo': 1e-6,
    'reuse_vs_noreuse_rel_of_feed_optimisers': 2e-3,
    'history_vs_fresh_rel_of_feed_pseudo': 1e-6,
    'history_vs_fresh_rel_of_feed_optimisers': 2e-3,
    'top_chemical_mass_fraction_slack': 1e-12,
    'sle_conservation_rel': 1e-12,
    'sle_given_solubility_rel': 1e-9,
    'sle_computed_solubility_rel': 1e-4,                # aitken xtol = 1e-6 on x
}

LLE_IDS = ('Water', '1-Butanol', 'Octanol', 'EthylAcetate', 'Hexane', 'Ethanol')
METHODS = {'pe': 'pseudo equilibrium', 'shgo': 'shgo', 'de': 'differential evolution'}
T_GRID = (285.0, 300.0, 320.0, 355.0)
SCALES = (1.0, 1e-3, 1e3)

_G = {}
_COUNT = {'solve': 0}
_FRESH = {}
_CHECKED = set()


def _load():
    if _G: return _G
    tmo = fx.tmo()
    th = fx.thermo('LLE')
    _G['tmo'] = tmo
    _G['th'] = th
    _G['gamma'] = th.Gamma(th.chemicals.tuple)
    _G['MW'] = np.array([c.MW for c in th.chemicals.tuple], float)
    from thermosteam.equilibrium.lle import LLE
    from thermosteam.exceptions import NoEquilibrium
    _G['NoEquilibrium'] = NoEquilibrium
    # counting wrapper (instrumentation only: tells whether a call re-solved or reused remembered coefficients)
    if not getattr(LLE.solve_lle_liquid_mol, '_c15_counted', False):
        orig = LLE.solve_lle_liquid_mol
        def solve_lle_liquid_mol(self, *a, **k):
            _COUNT['solve'] += 1
            return orig(self, *a, **k)
        solve_lle_liquid_mol._c15_counted = True
        LLE.solve_lle_liquid_mol = solve_lle_liquid_mol
    from thermosteam.equilibrium.sle import SLE
    if not getattr(SLE._solve_x, '_c15_counted', False):
        orig_x = SLE._solve_x
        def _solve_x(self, T):
            x = orig_x(self, T)
            _COUNT['sle_x'] = float(x)
            return x
        _solve_x._c15_counted = True
        SLE._solve_x = _solve_x
        orig_it = SLE._x_iter
        def _x_iter(self, *a, **k):
            _COUNT['sle_iter'] = _COUNT.get('sle_iter', 0) + 1
            return orig_it(self, *a, **k)
        SLE._x_iter = _x_iter
    return _G


# ---------------------------------------------------------------------------------------------
# LLE feed compositions (enumerated, not sampled)

def _subsets():
    out = []
    others = (1, 2, 3, 4, 5)
    for k in (1, 2, 3, 4):
        for sub in itertools.combinations(others, k):
            if any(i in (1, 2, 3, 4) for i in sub):
                out.append(sub)
    return out          # 29 subsets, each together with Water (index 0)

_PATTERNS = {
    'w': (10.0, (5.0, 2.0, 3.0, 1.0)),     # water rich
    'o': (4.0, (10.0, 3.0, 5.0, 2.0)),     # organic rich
    'q': (6.0, (6.0, 6.0, 6.0, 6.0)),      # equimolar
}

def _comp(sub, pat):
    v = [0.0] * 6
    if pat == 'e':                          # ethanol rich (towards complete miscibility)
        v[0] = 1.0
        for i in sub: v[i] = 1.0
        v[5] = 10.0
    else:
        w, o = _PATTERNS[pat]
        v[0] = w
        for k, i in enumerate(sub): v[i] = o[k]
    return tuple(v)

# small feeds (0.5 mol in total) with one DILUTE member at mole fraction 1e-3, 1e-2, 1e-3, 1e-4: at scale 1e-3 its absolute flow is
# 5e-7 ... 5e-8, so any absolute cut-off applied to the raw flows before normalisation breaks proportionality (scale clause)
DILUTE = ((0.3, 0.0, 0.2, 0.0, 0.0, 5e-4), (0.3, 0.0, 0.0, 0.0, 0.2, 5e-3), (0.3, 5e-4, 0.0, 0.2, 0.0, 0.0), (0.2, 0.0, 5e-5, 0.0, 0.3, 0.0))

def lle_comps(tier, seed):
    subs = _subsets()
    full = list(DILUTE)
    for sub in subs:
        for pat in ('w', 'o', 'q'):
            full.append(_comp(sub, pat))
        if 5 in sub: full.append(_comp(sub, 'e'))
    if tier != 'quick': return full
    core = [_comp((2,), 'w'), _comp((1,), 'w'), _comp((4,), 'q'), _comp((3,), 'q'), _comp((2,), 'o'),
            _comp((2, 5), 'w'), _comp((3, 5), 'o'), _comp((1, 5), 'w'), _comp((2, 5), 'e'),
            _comp((1, 4, 5), 'w'), _comp((1, 2, 3, 4), 'w'), DILUTE[0], DILUTE[1]]
    rest = [c for c in full if c not in core]
    k = (seed * 7) % len(rest)
    extra = (rest[k:] + rest[:k])[:7]
    return core + extra

def lle_subgrid(tier, seed):
    """declared sub-grid for the global optimisers: (composition, T) pairs"""
    comps = [_comp((2,), 'w'), _comp((1,), 'w'), _comp((4,), 'q'), _comp((2, 5), 'w'), _comp((3, 5), 'o'),
             _comp((2, 5), 'e'), _comp((1, 4, 5), 'w'), _comp((1, 2, 3, 4), 'w'),
             _comp((3,), 'q'), _comp((2,), 'o'), _comp((1, 5), 'w'), _comp((2, 4, 5), 'o'), DILUTE[0]]
    if tier == 'quick':
        k = seed % 4
        return [comps[0], comps[3], comps[4 + k]]
    return comps


# ---------------------------------------------------------------------------------------------
# LLE helpers

def _arr(row):
    return np.array(row.to_array() if hasattr(row, 'to_array') else row, float)

def _new_lle_stream(method, comp, scale):
    g = _load()
    tmo, th = g['tmo'], g['th']
    flows = {ID: v * scale for ID, v in zip(LLE_IDS, comp) if v}
    s = tmo.Stream(None, thermo=th, **flows)
    lle = s.lle
    lle.method = METHODS[method]
    return s

def _set_feed(s, comp, scale=1.0):
    s.imol['L'] = 0.
    s.imol['l'] = np.array(comp, float) * scale

def _call_lle(s, T, top, uc, ctx):
    """the real operation; returns (l, L, solved)"""
    g = _load()
    n0 = _COUNT['solve']
    try:
        if uc == 'nu':
            # documented option: only asks for (chemicals, K, phi); flows, T, P are not to be updated
            s.lle(T, top_chemical=top, update=False)
        else:
            s.lle(T, top_chemical=top, use_cache=uc)
    except g['NoEquilibrium'] as e:
        raise Rejected('NoEquilibrium', cut=True)
    except RuntimeError as e:
        raise Rejected('RuntimeError:' + str(e)[:40], cut=True)
    except (FloatingPointError, ZeroDivisionError) as e:
        # numerical failure of the solver (the library runs numpy with divide/invalid = 'raise' and itself treats these two
        # types as "no equilibrium" around phase_fraction): the call did not return, the property says nothing; counted
        raise Rejected(type(e).__name__ + ':' + str(e)[:40], cut=True)
    except Violation:
        raise
    except Exception as e:
        raise Violation('unexpected-exception', f'lle(T={T}, top_chemical={top!r}, use_cache={uc}) raised {type(e).__name__}: {e}',
                        match=dict(exc=type(e).__name__, op='lle', **ctx))
    return _arr(s.imol['l']), _arr(s.imol['L']), _COUNT['solve'] > n0

def _activities(mol, T):
    g = _load()
    x = mol / mol.sum()
    return x * g['gamma'](x, T)

def _two_phase(l, L, F):
    return l.sum() > 1e-8 * F and L.sum() > 1e-8 * F

_ACT_TOL_OPT = 5e-2
# Global optimisers stop at f_tol = 1e-6 on G/RT per mole of (normalised) feed.  Near the minimum
# dG ~ 1/2 * sum_i m_i (d ln a_i)^2 with m_i the smaller of the two phase amounts of chemical i (per mole feed), so a
# chemical with m_i >= 1e-3 is resolved to |d ln a_i| <= sqrt(2e-6 / 1e-3) = 4.5e-2.  Chemicals with less than 1e-3 of the
# feed in the leaner phase are below the optimisers' stated resolution and are not compared for those two methods.

def _check_split(feed, l, L, T, method, top, ctx, skip_activity=False):
    """single-call oracles.  The top-chemical clause is evaluated first and the equal-activity clause LAST, so that a listed
    finding on equal activity cannot mask a labelling failure on the same call."""
    g = _load()
    F = feed.sum()
    info = dict(two_phase=False)
    if not _two_phase(l, L, F): return info
    info['two_phase'] = True
    present = feed > 0
    if (l[present] < 0).any() or (L[present] < 0).any() or not np.isfinite(l).all() or not np.isfinite(L).all():
        raise Violation('equal-activity', f'non-finite or negative phase flow l={l.tolist()} L={L.tolist()}',
                        match=dict(method=method, kind='invalid-flow'), detail=dict(ctx), residual=float('inf'))
    if top is not None:
        j = LLE_IDS.index(top)
        if feed[j] > 0:
            MW = g['MW']
            wL = L[j] * MW[j] / (L * MW).sum(); wl = l[j] * MW[j] / (l * MW).sum()
            info['top_checked'] = True
            if wL < wl - 1e-12:
                raise Violation('top-chemical', f'{METHODS[method]}: top_chemical={top} has mass fraction {wL:.6g} in L < {wl:.6g} in l '
                                f'(feed={feed.tolist()}, T={T})', match=dict(method=method), detail=dict(l=l, L=L, **ctx),
                                residual=wl - wL)
    if not skip_activity: _check_activity(feed, l, L, T, method, ctx, info)
    return info

def _check_activity(feed, l, L, T, method, ctx, info=None):
    F = feed.sum()
    if not _two_phase(l, L, F): return
    present = feed > 0
    a_l = _activities(l, T); a_L = _activities(L, T)
    worst = 0.0; which = None; nbad = 0
    tol = 1e-4 if method == 'pe' else _ACT_TOL_OPT
    for i in np.flatnonzero(present):
        if method != 'pe':
            if min(l[i], L[i]) / F < 1e-3: continue
        if a_l[i] <= 0 or a_L[i] <= 0:
            r = float('inf')
        else:
            r = abs(math.log(a_L[i] / a_l[i]))
        if r > tol: nbad += 1
        if r > worst: worst, which = r, i
    if info is not None: info['act_residual'] = worst
    if worst > tol:
        raise Violation('equal-activity',
                        f'{METHODS[method]}: two liquid phases returned but x*gamma of {LLE_IDS[which]} differs by a factor '
                        f'exp({worst:.3g}) between L and l (feed={feed.tolist()}, T={T}); a_l={a_l[present].tolist()} a_L={a_L[present].tolist()}',
                        match=dict(method=method) if method == 'pe' else
                              dict(method=method, worst=LLE_IDS[which], only_one_chemical_off=nbad == 1),
                        detail=dict(l=l, L=L, T=T, feed=feed, **ctx), residual=worst)

def _split_distance(l1, L1, l2, L2, F, allow_swap):
    d = max(np.abs(l1 - l2).max(), np.abs(L1 - L2).max()) / F
    if allow_swap:
        d2 = max(np.abs(l1 - L2).max(), np.abs(L1 - l2).max()) / F
        if d2 < d: return d2, True
    return d, False

def _fresh_lle(method, comp, T, top, scale=1.0):
    key = (method, comp, T, top, scale)
    r = _FRESH.get(key)
    if r is None:
        if len(_FRESH) > 20000: _FRESH.clear()
        s = _new_lle_stream(method, comp, scale)
        try:
            l, L, _ = _call_lle(s, T, top, True, {})
            r = (l, L)
        except Rejected as e:
            r = ('rejected', e.what)
        _FRESH[key] = r
    return r


def _lle_hidden(s):
    lle = s._lle_cache.value
    if lle is None: return None
    K = getattr(lle, '_K', None); z = getattr(lle, '_z_mol', None); chems = getattr(lle, '_lle_chemicals', None)
    return (lle.method, fx.r12(lle.composition_cache_tolerance), fx.r12(lle.temperature_cache_tolerance),
            None if K is None else tuple(fx.r12(x) for x in np.asarray(K, float).ravel()),
            None if getattr(lle, '_phi', None) is None else fx.r12(lle._phi),
            None if getattr(lle, '_T', None) is None else fx.r12(lle._T),
            None if z is None else tuple(fx.r12(x) for x in np.asarray(z, float).ravel()),
            None if chems is None else tuple(c.ID for c in chems))


class LSt:
    __slots__ = ('s', 'config', 'hist', 'info')


# ---------------------------------------------------------------------------------------------
# c15.lle.grid : depth 1

class LLEGrid(System):
    """clauses = 'all' | 'labels+scale' | 'activity'.  For the default method the equal-activity clause is a system of its own
    (same grid, scale 1, no top chemical): a listed finding on it then neither cuts nor hides the scale / top-chemical cases."""
    def __init__(self, name, method, clauses='all'):
        self.name = name
        self.method = method
        self.clauses = clauses

    def warm(self):
        _load()
        # touch the activity model once so that forked workers share the loaded tables
        _fresh_lle('pe', _comp((2,), 'w'), 300.0, None)
        _FRESH.clear()

    def reset_globals(self): fx.reset_globals()
    def depth(self, tier): return 1
    def describe(self, tier): return dict(method=METHODS[self.method], T=list(T_GRID), scales=list(SCALES), clauses=self.clauses)

    def configs(self, tier, seed):
        if self.method == 'pe':
            comps = lle_comps(tier, seed)
            hist = [tuple(float(v) for v in c) for f in HIST_FAMILIES.values() for c in f]
            hist = [c for c in dict.fromkeys(hist) if c not in comps]
            if self.clauses == 'activity': return [(self.method, c, 1.0) for c in comps + hist]
            if tier == 'quick':
                # the scaled feeds are solved at two temperatures only ('q' marks the reduced action set; thorough: all five)
                return ([(self.method, c, 1.0) for c in comps + hist] +
                        [(self.method, c, sc, 'q') for c in comps for sc in SCALES if sc != 1.0])
            return [(self.method, c, sc) for c in comps for sc in SCALES] + [(self.method, c, 1.0) for c in hist]
        pairs = lle_subgrid(tier, seed)
        scales = SCALES if tier != 'quick' else (1.0, 1e3)
        return [(self.method, c, sc) for c in pairs for sc in scales]

    def build(self, config):
        method, comp, scale = config[:3]
        st = LSt()
        st.s = _new_lle_stream(method, comp, scale)
        st.config = config; st.hist = []; st.info = {}
        return st

    def actions(self, st):
        method, comp, scale = st.config[:3]
        present = [ID for ID, v in zip(LLE_IDS, comp) if v]
        absent = [ID for ID, v in zip(LLE_IDS, comp) if not v]
        tops = [None] + present + absent[:1]
        if method == 'pe':
            Ts = tuple(sorted(set(T_GRID + HIST_T)))
            if len(st.config) > 3: Ts = (300.0, 340.0)
            if self.clauses == 'activity': tops = [None]
        else:
            Ts = (300.0, 355.0) if scale == 1.0 else (300.0,)
            if scale != 1.0: tops = [None, present[-1]]
            elif len(tops) > 4: tops = [None, present[0], present[1], present[-1]]
        return [(T, top) for T in Ts for top in tops]

    def step(self, st, a):
        method, comp, scale = st.config[:3]
        T, top = a
        ctx = dict(method=method, first_call=True)
        l, L, solved = _call_lle(st.s, T, top, True, ctx)
        feed = np.array(comp, float) * scale
        info = _check_split(feed, l, L, T, method, top, dict(scale=scale, top=top), skip_activity=True)
        st.info = info
        if scale != 1.0:
            ref = _fresh_lle(method, comp, T, top, 1.0)
            if isinstance(ref[0], str):
                raise Violation('scale', f'scale {scale} returned a split, scale 1 was rejected ({ref[1]})', match=dict(method=method))
            d, _ = _split_distance(l / scale, L / scale, ref[0], ref[1], feed.sum() / scale, False)
            tol = 1e-9 if method == 'pe' else 1e-3
            info['scale_residual'] = d
            if d > tol:
                raise Violation('scale', f'{METHODS[method]}: flows at scale {scale} divided by the scale differ from the scale-1 result by '
                                f'{d:.3g} of the feed (feed={list(comp)}, T={T}, top={top}): l/scale={ (l/scale).tolist()} vs {ref[0].tolist()}',
                                match=dict(method=method, scale=scale), residual=d)
        if self.clauses != 'labels+scale': _check_activity(feed, l, L, T, method, dict(scale=scale, top=top), info)
        st.hist.append(a)
        return ('2ph' if info['two_phase'] else '1ph', round(float(L.sum() / (l.sum() + L.sum())), 3))

    def canon(self, st):
        return (st.config, fx.stream_digest(st.s), _lle_hidden(st.s), tuple(st.hist))

    def nontrivial(self, st, a, obs): return bool(st.info.get('two_phase'))

    def outcome(self, st, a, obs):
        comp = st.config[1]
        if obs[0] == 'rejected': return repr((self.method, obs))
        return repr((self.method, tuple(bool(v) for v in comp), obs[0], a[1] is not None and comp[LLE_IDS.index(a[1])] > 0,
                     round(obs[1], 1)))


# ---------------------------------------------------------------------------------------------
# c15.lle.hist : histories on one stream

HIST_FAMILIES = {
    # same chemical set, every entry moves up and down between the three compositions
    'WOE': ((10.0, 0, 5.0, 0, 0, 2.0), (5.0, 0, 10.0, 0, 0, 1.0), (8.0, 0, 6.0, 0, 0, 4.0)),
    # the chemical set itself changes (remembered coefficients must be dropped)
    'SET': ((10.0, 0, 5.0, 0, 0, 0), (10.0, 0, 5.0, 0, 0, 2.0), (10.0, 5.0, 0, 0, 0, 2.0)),
    'WBH': ((10.0, 2.0, 0, 0, 5.0, 1.0), (4.0, 5.0, 0, 0, 2.0, 2.0), (7.0, 3.0, 0, 0, 8.0, 0.5)),
    'WA': ((10.0, 0, 0, 10.0, 0, 0), (4.0, 0, 0, 12.0, 0, 0), (15.0, 0, 0, 5.0, 0, 0)),
    # ternaries that differ in only SOME mole fractions (all totals are 16, so the shared fractions are bit-equal):
    # 0 -> 1 keeps the Ethanol fraction (1/16) while Water and the alcohol trade, 0 -> 2 keeps the Water fraction (10/16),
    # 1 -> 2 moves every fraction.  A reuse test that looks at "all fractions moved" / "any fraction equal" is exposed here.
    'FIX': ((10.0, 5.0, 0, 0, 0, 1.0), (8.0, 7.0, 0, 0, 0, 1.0), (10.0, 4.0, 0, 0, 0, 2.0)),
    'FIXO': ((10.0, 0, 5.0, 0, 0, 1.0), (8.0, 0, 7.0, 0, 0, 1.0), (10.0, 0, 4.0, 0, 0, 2.0)),
}
FAMILY_TOP = {'WOE': 'Octanol', 'SET': 'Octanol', 'WBH': '1-Butanol', 'WA': 'EthylAcetate', 'FIX': '1-Butanol', 'FIXO': 'Octanol'}
HIST_T = (320.0, 300.0, 340.0)


class LLEHist(System):
    """config = (method, family, top, flags, nC, nT);  action = (composition index, T index, use_cache | 'nu');
    'nu' = the call is made with update=False (history only)"""
    state_cap = 2_000_000

    def __init__(self, name, method, families_q, families_t, depth_q, depth_t, nT=3, nC=3, flags_q=(True,), flags_t=(True, False),
                 tops=(None, 'Octanol'), mode='both', nT_t=None, nC_t=None, tops_q=None):
        # mode 'reuse': top-chemical and reuse-vs-noreuse oracles (twin stream);  'fresh': history-vs-fresh oracle;  'both'.
        # They are separate systems for the default method because a (listed) history-vs-fresh failure cuts the transition and
        # would otherwise leave the deeper reuse comparisons unexplored.
        self.mode = mode
        self.name = name; self.method = method
        self.fq, self.ft = families_q, families_t
        self.dq, self.dt = depth_q, depth_t
        self.nT, self.nC = nT, nC
        self.nT_t, self.nC_t = nT_t or nT, nC_t or nC
        self.flags_q, self.flags_t = flags_q, flags_t
        self.tops = tops
        self.tops_q = tops_q or tops
        self._flags = flags_t

    def warm(self): _load()
    def reset_globals(self): fx.reset_globals()
    def depth(self, tier): return self.dq if tier == 'quick' else self.dt
    def describe(self, tier):
        return dict(method=METHODS[self.method], families=list(self.fq if tier == 'quick' else self.ft), T=list(HIST_T[:self.nT if tier == 'quick' else self.nT_t]),
                    compositions_per_family=self.nC if tier == 'quick' else self.nC_t, mode=self.mode, use_cache_flags_in_history=list(self.flags_q if tier == 'quick' else self.flags_t))

    def configs(self, tier, seed):
        fams = list(self.fq if tier == 'quick' else self.ft)
        k = seed % len(fams)
        fams = fams[k:] + fams[:k]
        flags = self.flags_q if tier == 'quick' else self.flags_t
        out = []
        for f in fams:
            for top in (self.tops_q if tier == 'quick' else self.tops):
                if top is not None: top = FAMILY_TOP[f]
                out.append((self.method, f, top, tuple(flags), self.nC if tier == 'quick' else self.nC_t,
                            self.nT if tier == 'quick' else self.nT_t))
        return out

    def build(self, config):
        method, fam, top, flags, nC, nT = config
        st = LSt()
        st.s = _new_lle_stream(method, HIST_FAMILIES[fam][0], 1.0)
        st.config = config; st.hist = []; st.info = {}
        return st

    def actions(self, st):
        flags, nC, nT = st.config[3], st.config[4], st.config[5]
        return [(ci, ti, uc) for ci in range(nC) for ti in range(nT) for uc in flags]

    def _apply(self, s, config, a):
        method, fam, top = config[:3]
        ci, ti, uc = a
        comp = HIST_FAMILIES[fam][ci]; T = HIST_T[ti]
        _set_feed(s, comp)
        return comp, T

    def _classify(self, hid, comp, T):
        """relation of this call to the previous one, from the remembered fields (classification only)"""
        if hid is None or hid[5] is None: return 'first', 'first'
        Tl = hid[5]; zl = hid[6]; chems = hid[7]
        dT = 'same' if abs(T - Tl) < 1e-9 else ('down' if T < Tl else 'up')
        now = tuple(ID for ID, v in zip(LLE_IDS, comp) if v)
        if chems is None or tuple(chems) != now: return dT, 'chemicals-changed'
        z = np.array([v for v in comp if v], float); z = z / z.sum()
        dz = 'same' if np.abs(z - np.array(zl)).max() < 1e-9 else 'changed'
        return dT, dz

    def step(self, st, a):
        method, fam, top = st.config[:3]
        ci, ti, uc = a
        key = (self.name, st.config, tuple(st.hist) + (a,))
        hid = _lle_hidden(st.s)
        comp, T = self._apply(st.s, st.config, a)
        dT, dz = self._classify(hid, comp, T)
        ctx = dict(method=method, first_call=not st.hist)
        l, L, solved = _call_lle(st.s, T, top, uc, ctx)
        prefix = list(st.hist)
        st.hist.append(a)
        feed = np.array(comp, float); F = feed.sum()
        two = _two_phase(l, L, F)
        st.info = dict(two_phase=two, warm=hid is not None and hid[3] is not None, reused=not solved)
        obs = ('2ph' if two else '1ph', 'reused' if not solved else 'solved', dT, dz)
        if uc == 'nu':
            # an `update=False` call is part of the history only (the property states nothing about what it returns); what it
            # leaves in the solver is judged by the calls that follow
            st.info = dict(two_phase=False, warm=False, reused=not solved)
            return ('update=False', 'reused' if not solved else 'solved', dT, dz)
        if key in _CHECKED: return obs
        after_nu = any(b[2] == 'nu' for b in prefix)
        cls = dict(method=method, use_cache=uc, reused=not solved, dT=dT, dz=dz, top=top is not None, after_update_false=after_nu)
        # equal activity after a history follows from the grid layer (which contains every (composition, T) of the history
        # alphabets on a fresh stream) plus history-vs-fresh; it is not re-raised here because it would cut every history
        _check_split(feed, l, L, T, method, top, dict(history=prefix, call=a), skip_activity=True)
        do_reuse = self.mode in ('both', 'reuse'); do_fresh = self.mode in ('both', 'fresh')
        # labels are constrained only by a named top chemical that is present, and only when two phases are returned
        named = top is not None and feed[LLE_IDS.index(top)] > 0
        def swap_ok_for(r1, r2):
            return (not named) or not (_two_phase(r1[0], r1[1], F) or _two_phase(r2[0], r2[1], F))
        tol_f = 1e-6 if method == 'pe' else 2e-3
        fresh = _fresh_lle(method, tuple(float(v) for v in comp), T, top, 1.0) if do_fresh else None
        if uc and do_reuse:
            # the same call with reuse forbidden, on a twin stream taken through the same history
            tw = self.build(st.config)
            for b in prefix:
                c2, T2 = self._apply(tw.s, st.config, b)
                _call_lle(tw.s, T2, top, b[2], ctx)
            self._apply(tw.s, st.config, a)
            l2, L2, _ = _call_lle(tw.s, T, top, False, ctx)
            d, _ = _split_distance(l, L, l2, L2, F, swap_ok_for((l, L), (l2, L2)))
            tol = 1e-6 if method == 'pe' else 2e-3
            if d > tol:
                raise Violation('reuse-vs-noreuse',
                                f'{METHODS[method]}: after history {prefix} the call (feed={list(comp)}, T={T}, top={top}) with use_cache=True gives '
                                f'l={l.tolist()} L={L.tolist()}, with use_cache=False l={l2.tolist()} L={L2.tolist()} (distance {d:.3g} of the feed); '
                                f'previous call: dT={dT}, composition {dz}, coefficients reused={not solved}',
                                match=dict(method=method, reused=not solved, dT=dT, dz=dz, top=top is not None, after_update_false=after_nu), residual=d)
            if do_fresh and not isinstance(fresh[0], str):
                d2, _ = _split_distance(l2, L2, fresh[0], fresh[1], F, swap_ok_for((l2, L2), fresh))
                if d2 > tol_f:
                    raise Violation('history-vs-fresh',
                                    f'{METHODS[method]}: after history {prefix} the call (feed={list(comp)}, T={T}, top={top}, use_cache=False) gives '
                                    f'l={l2.tolist()} L={L2.tolist()}; a fresh stream gives l={fresh[0].tolist()} L={fresh[1].tolist()} (distance {d2:.3g})',
                                    match=dict(method=method, use_cache=False, reused=False, dT=dT, dz=dz, top=top is not None, after_update_false=after_nu), residual=d2)
        if not do_fresh:
            if len(_CHECKED) > 400000: _CHECKED.clear()
            _CHECKED.add(key)
            return obs
        if isinstance(fresh[0], str):
            raise Violation('history-vs-fresh', f'call returned after history {prefix} but is rejected on a fresh stream ({fresh[1]})', match=cls)
        d3, _ = _split_distance(l, L, fresh[0], fresh[1], F, swap_ok_for((l, L), fresh))
        if d3 > tol_f:
            raise Violation('history-vs-fresh',
                            f'{METHODS[method]}: after history {prefix} the call (feed={list(comp)}, T={T}, top={top}, use_cache={uc}) gives '
                            f'l={l.tolist()} L={L.tolist()}; a fresh stream gives l={fresh[0].tolist()} L={fresh[1].tolist()} (distance {d3:.3g}); '
                            f'previous call: dT={dT}, composition {dz}, coefficients reused={not solved}',
                            match=cls, residual=d3)
        if method != 'pe': _check_activity(feed, l, L, T, method, dict(history=prefix, call=a))
        if len(_CHECKED) > 400000: _CHECKED.clear()
        _CHECKED.add(key)
        return obs

    def canon(self, st):
        # the configuration (method, family, top chemical, alphabet) decides the future as much as the stream does
        return (st.config, fx.stream_digest(st.s), _lle_hidden(st.s))

    def nontrivial(self, st, a, obs):
        return bool(st.info.get('two_phase')) and bool(st.info.get('warm'))

    def outcome(self, st, a, obs):
        return repr((self.method, st.config[1], st.config[2] is not None, a[2], obs))


# ---------------------------------------------------------------------------------------------
# SLE

SOLVENTS = ('Methanol', 'Water', 'Ethanol')
SOLUTES = ('Tetradecanol', 'AceticAcid', 'Glucose')
SLE_T = {  # per solute: grid placed around Tm (Tetradecanol 312.65, AceticAcid 289.85, Glucose 419.15), inside 250-450 K
    'Tetradecanol': (250.0, 285.0, 300.0, 310.0, 312.65, 315.0, 330.0, 400.0, 450.0),
    'AceticAcid': (250.0, 270.0, 285.0, 289.85, 292.0, 300.0, 350.0, 450.0),
    'Glucose': (250.0, 300.0, 350.0, 400.0, 419.15, 425.0, 450.0),
}
SLE_GIVEN = (0.0, 0.05, 0.5, 0.95)
SOLV_SETS = ((), (0,), (1,), (2,), (0, 1), (0, 2), (1, 2), (0, 1, 2))
SOLV_AMT = {'a': (10.0, 4.0, 6.0), 'b': (1.0, 0.5, 2.0)}


def _sle_thermo(solute, ideal):
    return fx.custom_thermo(SOLVENTS + (solute,), ideal=ideal)

class SSt:
    __slots__ = ('s', 'config', 'hist', 'info', 'th', 'calls')


def _sle_hidden(s):
    sle = s._sle_cache.value
    if sle is None: return None
    def ga(n, d=None):
        try: return getattr(sle, n)
        except AttributeError: return '<unset>'
    idx = ga('_index')
    if isinstance(idx, slice): idx = 'slice'
    elif idx != '<unset>': idx = tuple(idx)
    nz = ga('_nonzero')
    ch = ga('_chemical')
    gm = ga('_gamma')
    return (idx, None if nz in (None, '<unset>') else tuple(sorted(nz)), None if ch in (None, '<unset>') else ch.ID,
            ga('_solute_index'), ga('_solute_gamma_index'),
            None if gm == '<unset>' else (type(gm).__name__, tuple(c.ID for c in getattr(gm, 'chemicals', ()))),
            hasattr(sle, '_liquid_mol'), ga('activity_coefficient'))


def _sle_call(st, solute, T, given):
    """real call + every SLE oracle of the property"""
    from chemicals import solubility_eutectic
    s = st.s
    th = st.th
    ch = th.chemicals
    j = ch.IDs.index(solute)
    l0 = _arr(s.imol['l']); s0 = _arr(s.imol['s'])
    tot = l0[j] + s0[j]
    solvents_l = l0.sum() - l0[j]
    others_present = (l0 + s0).sum() - tot > 0
    mode = 'given' if given is not None else 'computed'
    ctx = dict(mode=mode, pure=not others_present, after_computed_call=st.calls['computed'] > 0, after_given_call=st.calls['given'] > 0)
    if st.config[3] > 1: ctx['activity_coefficient'] = float(st.config[3])     # ideal package with the solver attribute set
    earlier = dict(st.calls)
    _COUNT['sle_x'] = None; _COUNT['sle_iter'] = 0
    sle0 = s._sle_cache.value
    # classification only: the solver object enters the call with the whole-package slice a given-solubility call left in `_index`
    # ... and would reuse it (the remembered set of present chemicals was not invalidated)
    ctx['index_left_by_given_call'] = bool(sle0 is not None and isinstance(getattr(sle0, '_index', None), slice)
                                           and getattr(sle0, '_nonzero', None) is not None)
    try:
        if given is None: s.sle(solute, T=T)
        else: s.sle(solute, T=T, solubility=given)
    except RuntimeError as e:
        raise Rejected('RuntimeError:' + str(e)[:30], cut=True)
    except Exception as e:
        raise Violation('unexpected-exception',
                        f'sle({solute!r}, T={T}, solubility={given}) raised {type(e).__name__}: {e} (liquid={l0.tolist()}, solid={s0.tolist()}, '
                        f'earlier calls on this stream: {earlier})', match=dict(exc=type(e).__name__, op='sle', **ctx))
    st.calls[mode] += 1
    l1 = _arr(s.imol['l']); s1 = _arr(s.imol['s'])
    mk = dict(ctx)
    # (e) only the named solute moves
    mask = np.ones(len(l0), bool); mask[j] = False
    if not (np.array_equal(l0[mask], l1[mask]) and np.array_equal(s0[mask], s1[mask])):
        raise Violation('other-chemical-moved', f'sle({solute}, T={T}, solubility={given}) changed a chemical other than the solute: '
                        f'liquid {l0.tolist()} -> {l1.tolist()}, solid {s0.tolist()} -> {s1.tolist()}', match=mk)
    if not np.isfinite([l1[j], s1[j]]).all():
        raise Violation('solute-not-conserved', f'non-finite solute flows l={l1[j]} s={s1[j]}', match=mk, residual=float('inf'))
    if abs((l1[j] + s1[j]) - tot) > 1e-12 * tot:
        raise Violation('solute-not-conserved', f'sle({solute}, T={T}, solubility={given}): solute total {tot} -> {l1[j] + s1[j]}', match=mk,
                        residual=abs((l1[j] + s1[j]) - tot) / tot)
    # (f) not more than is present
    if l1[j] > tot * (1 + 1e-12) or s1[j] < -1e-12 * tot or l1[j] < -1e-12 * tot:
        raise Violation('more-than-present', f'sle({solute}, T={T}, solubility={given}): liquid solute {l1[j]}, solid solute {s1[j]}, present {tot}',
                        match=mk, residual=max(l1[j] - tot, -s1[j], -l1[j]) / tot)
    info = dict(split=bool(l1[j] > 0 and s1[j] > 0), pure=not others_present)
    c = ch.tuple[j]
    if not others_present:
        # (g) pure solute: melting point rule  (given solubility for a pure solute is outside the compared domain)
        if given is None:
            if T > c.Tm and not (l1[j] == tot and s1[j] == 0):
                raise Violation('pure-above-Tm', f'pure {solute} at T={T} > Tm={c.Tm}: liquid {l1[j]}, solid {s1[j]}', match=mk)
            if T < c.Tm and not (s1[j] == tot and l1[j] == 0):
                raise Violation('pure-below-Tm', f'pure {solute} at T={T} < Tm={c.Tm}: liquid {l1[j]}, solid {s1[j]}', match=mk)
            info['rule'] = 'above' if T > c.Tm else ('below' if T < c.Tm else 'at')
        return info
    # (f) not more than the solubility allows
    liq_total = l1.sum()
    if l1[j] > 0 and liq_total > 0 and (given is not None or T < c.Tm):
        # a computed (eutectic) solubility is defined below the melting point only; at T >= Tm nothing is demanded of a mixture
        x = l1[j] / liq_total
        if given is not None:
            if x > given * (1 + 1e-9) + 1e-15:
                raise Violation('over-dissolved-given', f'sle({solute}, T={T}, solubility={given}): liquid mole fraction of the solute is {x:.9g} '
                                f'(liquid={l1.tolist()}, solid={s1.tolist()})', match=mk, residual=x - given)
        else:
            if st.config[3]:
                # ideal package: the documented `activity_coefficient` attribute of the solver (1 when not set) IS the solute's gamma
                gam = float(st.config[3])
            else:
                present = (l1 + s1) > 0        # the chemicals the call had in view
                xs = np.where(present, l1, 0.0); xs = xs / xs.sum()
                gam = float(th.Gamma(ch.tuple)(xs, T)[j])
            S = solubility_eutectic(T, c.Tm, c.Hfus, c.Cn.l(T), c.Cn.s(T), gam)
            info['S'] = S
            own = _COUNT.get('sle_x')
            # literal reading: not more than the number the solver itself came up with
            if own is not None and x > own * (1 + 1e-9) + 1e-15:
                raise Violation('over-dissolved-own', f'sle({solute}, T={T}): liquid mole fraction of the solute {x:.9g} exceeds the solubility '
                                f'{own:.9g} returned by the solver (liquid={l1.tolist()}, solid={s1.tolist()})', match=mk, residual=x / own - 1)
            if x > S * (1 + 1e-4) + 1e-9:
                # does the number the solver returned satisfy the solubility equation at the composition it left behind?
                consistent = own is not None and abs(own - S) <= 1e-4 * S + 1e-9
                raise Violation('over-dissolved-computed',
                                f'sle({solute}, T={T}): liquid mole fraction of the solute is {x:.9g} but the eutectic solubility at that liquid '
                                f'composition is {S:.9g} (gamma={gam:.6g}; solubility returned by the solver: {own}; liquid={l1.tolist()}, '
                                f'solid={s1.tolist()}; earlier calls {earlier})',
                                match=dict(mk, solute=solute, solver_value_satisfies_equation=bool(consistent),
                                           # flx.aitken(maxiter=100, checkiter=False) evaluates the map twice per iteration
                                           iteration_exhausted=bool(_COUNT.get('sle_iter', 0) >= 100)),
                                residual=x / S - 1 if S > 0 else float('inf'))
    return info


class SLEBase(System):
    def warm(self):
        _load()
        for sol in SOLUTES:
            for ideal in (False, True): _sle_thermo(sol, ideal)
    def reset_globals(self): fx.reset_globals()

    def _build(self, config, solvset, amt, solute_amt, solid_frac):
        solute, ideal = config[0], config[3]
        tmo = fx.tmo()
        th = _sle_thermo(solute, bool(ideal))
        flows = {SOLVENTS[i]: SOLV_AMT[amt][i] for i in solvset}
        flows[solute] = solute_amt
        s = tmo.Stream(None, thermo=th, **flows)
        sle = s.sle
        # config field `ideal`: 0 = Dortmund package; 1 = ideal package, attribute left unset; 2, 5 = ideal package with
        # `stream.sle.activity_coefficient` set to that value
        if ideal and ideal > 1: sle.activity_coefficient = float(ideal)
        if solid_frac:
            s.imol['s', solute] = solute_amt * solid_frac
            s.imol['l', solute] = solute_amt * (1 - solid_frac)
        st = SSt()
        st.s = s; st.th = th; st.config = config; st.hist = []; st.info = {}
        st.calls = dict(computed=0, given=0)
        return st

    def canon(self, st):
        # the configuration carries the ideal / non-ideal package, which the stream digest does not show
        return (st.config, fx.stream_digest(st.s), _sle_hidden(st.s))

    def nontrivial(self, st, a, obs):
        return bool(st.info.get('split')) or st.info.get('rule') in ('above', 'below')


class SLEGrid(SLEBase):
    """config = (solute, solvent set, amount pattern, ideal, solute amount, initial solid fraction); action = (T, given | None)"""
    name = 'c15.sle.grid'
    def depth(self, tier): return 1
    def configs(self, tier, seed):
        out = []
        amts = ('a', 'b')
        for sol in SOLUTES:
            for ideal in (0, 1, 2, 5):
                for ss in SOLV_SETS:
                    for amt in (amts if ss else ('a',)):
                        for sa in ((1.0, 30.0) if tier != 'quick' else (30.0,) if amt == 'a' else (1.0,)):
                            for sf in ((0.0, 1.0, 0.5) if tier != 'quick' else (0.0, 1.0)):
                                out.append((sol, ss, amt, ideal, sa, sf))
        k = seed % len(out)
        return out[k:] + out[:k]
    def build(self, config):
        sol, ss, amt, ideal, sa, sf = config
        return self._build(config, ss, amt, sa, sf)
    def actions(self, st):
        sol = st.config[0]
        acts = [(T, None) for T in SLE_T[sol]]
        if st.config[1]:
            acts += [(T, x) for T in SLE_T[sol][1::3] for x in SLE_GIVEN]
        return acts
    def step(self, st, a):
        T, given = a
        st.info = _sle_call(st, st.config[0], T, given)
        st.hist.append(a)
        return self._obs(st)
    def _obs(self, st):
        i = st.info
        return ('pure:' + str(i.get('rule')) if i.get('pure') else ('split' if i.get('split') else 'one-phase'))
    def outcome(self, st, a, obs):
        return repr((st.config[0], st.config[3], bool(st.config[1]), a[1] is None, obs))


class SLEHist(SLEBase):
    """config = (solute, start solvent set, amount pattern, ideal); action = (solvent set index, T, given | None):
    the solvent amounts are set (solute left where the previous call put it), then sle is called."""
    name = 'c15.sle.hist'
    def depth(self, tier): return 3
    def describe(self, tier): return dict(solvent_sets=[list(x) for x in self._sets(tier)], T='below/above Tm per solute', given=list(self._given(tier)))
    def _sets(self, tier): return ((), (0,), (0, 1)) if tier == 'quick' else ((), (0,), (1,), (0, 1, 2))
    def _given(self, tier): return (0.2,) if tier == 'quick' else (0.05, 0.6)
    def _Ts(self, sol, tier):
        Tm = dict(Tetradecanol=312.65, AceticAcid=289.85, Glucose=419.15)[sol]
        return (Tm - 12.0, Tm + 10.0) if tier == 'quick' else (Tm - 30.0, Tm - 5.0, Tm + 10.0)
    def configs(self, tier, seed):
        out = []
        for sol in SOLUTES:
            for ideal in (0, 1, 2, 5):
                out.append((sol, (0,), 'a', ideal, tier))
        k = seed % len(out)
        return out[k:] + out[:k]
    def build(self, config):
        return self._build(config, config[1], config[2], 30.0 if config[0] != 'Glucose' else 3.0, 0.0)
    def actions(self, st):
        sol, _, _, _, tier = st.config
        sets = self._sets(tier)
        acts = []
        for si in range(len(sets)):
            for T in self._Ts(sol, tier):
                acts.append((si, T, None))
                if sets[si]:
                    for x in self._given(tier): acts.append((si, T, x))
        return acts
    def step(self, st, a):
        sol, _, amt, _, tier = st.config
        si, T, given = a
        ss = self._sets(tier)[si]
        s = st.s
        for i, ID in enumerate(SOLVENTS):
            s.imol['l', ID] = SOLV_AMT[amt][i] if i in ss else 0.0
        st.info = _sle_call(st, sol, T, given)
        st.hist.append(a)
        i = st.info
        return ('pure:' + str(i.get('rule')) if i.get('pure') else ('split' if i.get('split') else 'one-phase'))
    def outcome(self, st, a, obs):
        return repr((st.config[0], st.config[3], a[0], a[2] is None, obs, _sle_hidden(st.s)[:3]))


class SLEFeed(SLEBase):
    """Histories in which the FEED is edited between calls: action = (solvent set index, amount pattern, solute total, T, given | None).
    The solvent amounts and the solute total are set (solute all in the liquid), then sle is called.  The solute total moves up and
    down between calls while the set of chemicals present may stay the same."""
    name = 'c15.sle.feed'
    def depth(self, tier): return 2
    def _sets(self, tier): return ((), (0,), (0, 1)) if tier == 'quick' else ((), (0,), (1,), (0, 1), (0, 1, 2))
    def _pats(self, tier): return ('a',) if tier == 'quick' else ('a', 'b')
    def _amts(self, tier): return (30.0, 5.0) if tier == 'quick' else (30.0, 5.0, 60.0)
    def _given(self, tier): return (0.2,) if tier == 'quick' else (0.05, 0.6)
    def _Ts(self, sol, tier):
        Tm = dict(Tetradecanol=312.65, AceticAcid=289.85, Glucose=419.15)[sol]
        return (Tm - 12.0, Tm + 10.0) if tier == 'quick' else (Tm - 30.0, Tm - 5.0, Tm + 10.0)
    def describe(self, tier):
        return dict(solvent_sets=[list(x) for x in self._sets(tier)], solvent_patterns=list(self._pats(tier)),
                    solute_totals=list(self._amts(tier)), given=list(self._given(tier)))
    def configs(self, tier, seed):
        out = [(sol, (0,), 'a', ideal, tier) for sol in SOLUTES for ideal in (0, 1, 2, 5)]
        k = seed % len(out)
        return out[k:] + out[:k]
    def build(self, config):
        return self._build(config, config[1], config[2], 30.0, 0.0)
    def actions(self, st):
        sol, _, _, _, tier = st.config
        sets = self._sets(tier)
        acts = []
        for si in range(len(sets)):
            for pat in (self._pats(tier) if sets[si] else ('a',)):
                for amt in self._amts(tier):
                    for T in self._Ts(sol, tier):
                        acts.append((si, pat, amt, T, None))
                        if sets[si]:
                            for x in self._given(tier): acts.append((si, pat, amt, T, x))
        return acts
    def step(self, st, a):
        sol, _, _, _, tier = st.config
        si, pat, amt, T, given = a
        ss = self._sets(tier)[si]
        s = st.s
        for i, ID in enumerate(SOLVENTS):
            s.imol['l', ID] = SOLV_AMT[pat][i] if i in ss else 0.0
        s.imol['s', sol] = 0.0
        s.imol['l', sol] = amt
        st.info = _sle_call(st, sol, T, given)
        st.hist.append(a)
        i = st.info
        return ('pure:' + str(i.get('rule')) if i.get('pure') else ('split' if i.get('split') else 'one-phase'))
    def outcome(self, st, a, obs):
        return repr((st.config[0], st.config[3], a[0], a[2], a[4] is None, obs))


PURE_PKG = ('Methanol', 'Dodecanol', 'Tetradecanol', 'Hexadecanol')      # Tm 297.15, 312.65, 322.65 K
PURE_T = (290.0, 305.0, 317.0, 330.0)                                      # below all / between / between / above all

class SLESolutes(SLEBase):
    """ONE stream whose contents are REPLACED between calls by another solute (pure, or with Methanol): action =
    (solute index, with solvent, T, solute initially solid).  The melting rule / the solubility bound must hold on every call for the
    solute named in THAT call.  config = (pkg name, (), 'a', ideal, tier)."""
    name = 'c15.sle.solutes'
    def warm(self):
        _load()
        for ideal in (False, True): fx.custom_thermo(PURE_PKG, ideal=ideal)
    def depth(self, tier): return 2 if tier == 'quick' else 3
    def describe(self, tier): return dict(package=list(PURE_PKG), T=list(PURE_T), solutes=list(PURE_PKG[1:]))
    def configs(self, tier, seed):
        return [('alcohols', (), 'a', ideal, tier) for ideal in (0, 1)]
    def build(self, config):
        tmo = fx.tmo()
        th = fx.custom_thermo(PURE_PKG, ideal=bool(config[3]))
        s = tmo.Stream(None, thermo=th, Tetradecanol=5.0)
        s.sle
        st = SSt()
        st.s = s; st.th = th; st.config = config; st.hist = []; st.info = {}
        st.calls = dict(computed=0, given=0)
        return st
    def actions(self, st):
        tier = st.config[4]
        solid0 = (0,) if tier == 'quick' else (0, 1)
        return [(j, solv, T, sd) for j in (1, 2, 3) for solv in (0, 1) for T in PURE_T for sd in solid0]
    def step(self, st, a):
        j, solv, T, sd = a
        s = st.s
        n = len(PURE_PKG)
        s.imol['l'] = np.zeros(n); s.imol['s'] = np.zeros(n)
        if solv: s.imol['l', 'Methanol'] = 10.0
        s.imol['s' if sd else 'l', PURE_PKG[j]] = 5.0
        st.info = _sle_call(st, PURE_PKG[j], T, None)
        st.hist.append(a)
        i = st.info
        return ('pure:' + str(i.get('rule')) if i.get('pure') else ('split' if i.get('split') else 'one-phase'))
    def outcome(self, st, a, obs):
        return repr((st.config[3], a[0], a[1], obs, _sle_hidden(st.s)[2]))


SYSTEMS = [
    LLEGrid('c15.lle.grid.pe', 'pe', 'labels+scale'),
    LLEGrid('c15.lle.act.pe', 'pe', 'activity'),
    LLEGrid('c15.lle.grid.de', 'de'),
    LLEGrid('c15.lle.grid.shgo', 'shgo'),
    # A: 3 compositions x 3 T, reuse allowed in the history; quick = depth-3 slice of one configuration
    LLEHist('c15.lle.hist.pe', 'pe', ('WOE',), ('WOE', 'SET', 'WBH', 'FIX'), 3, 4, flags_q=(True,), flags_t=(True,), mode='reuse', tops_q=('Octanol',)),
    # B: 1-4 earlier calls + probe (the property's longest history) over 2 compositions x 3 T on one family
    LLEHist('c15.lle.hist5.pe', 'pe', ('WOE',), ('WOE', 'FIX'), 4, 5, nC=2, flags_q=(True,), flags_t=(True,), mode='reuse', tops_q=('Octanol',)),
    # C: histories that mix calls with and without reuse, and families whose chemical set changes
    LLEHist('c15.lle.hist.uc.pe', 'pe', ('SET',), ('WOE', 'SET', 'WBH', 'WA', 'FIX', 'FIXO'), 3, 3, nT=2, nT_t=3, flags_q=(True, False), flags_t=(True, False), mode='reuse', tops_q=('Octanol',)),
    LLEHist('c15.lle.fresh.pe', 'pe', ('WOE', 'SET'), ('WOE', 'SET', 'WBH', 'WA', 'FIX', 'FIXO'), 3, 3, flags_q=(True,), mode='fresh'),
    # optimiser methods (they alone can show a reuse defect while the default method never updates K): quick uses the cheap binary WA
    # and the first two compositions of FIX (same Ethanol fraction, Water/1-Butanol trade)
    LLEHist('c15.lle.hist.de', 'de', ('WA', 'FIX'), ('WOE', 'WA', 'FIX', 'FIXO', 'SET'), 2, 2, nT=2, nC=2, nT_t=3, nC_t=3, flags_q=(True,), flags_t=(True,),
            tops_q=(None,)),
    # histories that contain `update=False` calls
    LLEHist('c15.lle.hist.nu.de', 'de', ('WA',), ('WA', 'WOE'), 3, 4, nT=2, nC=1, flags_q=(True, 'nu'), flags_t=(True, 'nu'),
            tops=(None, 'Octanol'), tops_q=(None,)),
    LLEHist('c15.lle.hist.shgo', 'shgo', ('WOE',), ('WOE', 'FIX'), 2, 2, nT=2, nC=1, nT_t=2, nC_t=2, flags_q=(True,), flags_t=(True,), tops=(None,)),
    SLEGrid(),
    SLEHist(),
    SLEFeed(),
    SLESolutes(),
]
