"""
C18 — flowsheet connections stay mutually consistent under every rewiring operation.

Explicit-state search over the real `thermosteam.network` objects: three units
(F: fixed 2-in/1-out, VI: variable inlets, VO: variable outlets), up to five
`AbstractStream`s, placeholders as they arise.  Every rewiring operation of the property
is an action, enabled only inside the preconditions the property states (evaluated on
the current, consistent, connection state).  The state oracle is evaluated after every
transition (also when the operation raised).
"""
from __future__ import annotations
import itertools
from mc.engine import System, Violation, Rejected

PROPERTY = 'C18'
RULE = ('BFS over sequences of rewiring operations on real AbstractUnit/AbstractStream objects; a state is the tuple of port '
        'lists (by stream id / placeholder) and every stream\'s (source, sink); two histories are merged iff these tuples '
        '(including placeholder identity and dangling pointers) are equal.  A transition is non-trivial when it changed the '
        'canonical connection state.')
ASSUMPTIONS = [
    'universe: units F(2 fixed ins,1 fixed out), VI(variable ins,1 out), VO(1 in, variable outs); variable lists capped (transitions beyond the cap are not generated)',
    'operations are used inside the preconditions stated by the property; exceptions raised by an operation are recorded and the state oracle is still evaluated afterwards',
    'the "randomly to length ~50 over larger universes" sentence of the quantifier is sampling and is not claimed',
]

_tmo = None
_classes = None

def _load():
    global _tmo, _classes
    if _tmo is None:
        import thermosteam as tmo
        _tmo = tmo
        tmo.settings.set_thermo([], cache=None) if False else tmo.settings.set_thermo([])
        class F(tmo.AbstractUnit):
            _N_ins = 2; _N_outs = 1
        class VI(tmo.AbstractUnit):
            _N_ins = 2; _N_outs = 1; _ins_size_is_fixed = False
        class VO(tmo.AbstractUnit):
            _N_ins = 1; _N_outs = 2; _outs_size_is_fixed = False
        class G(tmo.AbstractUnit):
            _N_ins = 1; _N_outs = 1
        class VJ(tmo.AbstractUnit):
            _N_ins = 2; _N_outs = 2; _ins_size_is_fixed = False; _outs_size_is_fixed = False
        _classes = dict(F=F, VI=VI, VO=VO, G=G, VJ=VJ)
    return _tmo


class St:
    __slots__ = ('units', 'streams', 'snap', 'names', 'cap', 'last_changed', 'thermo', 'seen_placeholders')


class C18(System):
    nontrivial_per_config = False
    merge_across_configs = True   # a config only selects the initial wiring; canon() is the complete connection state

    def __init__(self, name, unit_names, n_streams, cap, depth_q, depth_t, snapshots=False, wirings=None, pipes=True, construct=False,
                 state_cap=2_500_000, tcap_q=None, tcap_t=None):
        self.name = name
        self.unit_names = unit_names
        self.n_streams = n_streams
        self.cap = cap
        self._dq, self._dt = depth_q, depth_t
        self.snapshots = snapshots
        self.pipes = pipes
        self.construct = construct
        self.wirings = wirings
        self.state_cap = state_cap
        self._tq, self._tt = tcap_q, tcap_t

    def warm(self): _load()
    def depth(self, tier): return self._dq if tier == 'quick' else self._dt
    def time_cap(self, tier): return self._tq if tier == 'quick' else self._tt
    def describe(self, tier):
        return dict(units=list(self.unit_names), streams=self.n_streams, variable_list_cap=self.cap,
                    snapshots=self.snapshots)

    # ---- configurations: construct-time wirings -------------------------------------
    def configs(self, tier, seed):
        if self.wirings is not None: return list(self.wirings)
        n = self.n_streams
        U = self.unit_names
        cfgs = [('empty',)]
        # every unit constructed with explicit streams / defaults ( ins=None -> placeholders, outs=() -> fresh )
        cfgs.append(('chain',))       # s0 -> U0 -> s1 -> U1 -> s2 -> U2 ...
        cfgs.append(('fresh',))       # units built with ins=() and outs=() (fresh anonymous streams)
        cfgs.append(('shared',))      # same stream given to two units at construction (redock at construct time)
        if self.construct:
            # construct-time wiring: every unit built (in order) from explicit stream lists, including streams that are
            # already docked at a unit built earlier (redock at construction) -- all combinations that fit the port counts
            sizes = dict(F=(2, 1, True, True), VI=(2, 1, False, True), VO=(1, 2, True, False), G=(1, 1, True, True), VJ=(2, 2, False, False))
            opts_in = [(), (0,), (1,), (0, 1), (1, 0), (None, 0)]
            opts_out = [(), (1,), (2 % n,), (1, 2 % n), (0,), (None, 1)]
            per_unit = []
            for nm in U:
                ni, no, fi, fo = sizes[nm]
                ok = []
                for i in opts_in:
                    if fi and len(i) > ni: continue
                    for o in opts_out:
                        if fo and len(o) > no: continue
                        if len(set(o)) < len(o) or len(set(i)) < len(i): continue
                        ok.append((i, o))
                per_unit.append(ok)
            for combo in itertools.product(*per_unit):
                cfgs.append(('wired', tuple(combo)))
            # the SAME list / tuple object handed to several constructors, and the caller editing its list afterwards:
            # a unit must own its port lists (seeded change C18-constructor-adopts-callers-list)
            for container in ('list', 'tuple'):
                for ids in ((0, 1), (1,), (0, 1, 2)):
                    for after in ('none', 'append', 'clear', 'reverse'):
                        if container == 'tuple' and after != 'none': continue
                        cfgs.append(('samelist', container, ids, after))
        k = seed % len(cfgs)
        return cfgs[k:] + cfgs[:k]

    def build(self, config):
        tmo = _load()
        st = St()
        st.cap = self.cap
        st.names = list(self.unit_names)
        S = [tmo.AbstractStream(None) for i in range(self.n_streams)]
        st.streams = S
        kind = config[0]
        units = []
        with tmo.network.IgnoreDockingWarnings():
            if kind == 'empty':
                for nm in st.names:
                    units.append(_classes[nm](None, ins=None, outs=None))
            elif kind == 'fresh':
                for nm in st.names:
                    units.append(_classes[nm](None, ins=(), outs=()))
            elif kind == 'chain':
                j = 0
                for nm in st.names:
                    a = S[j % len(S)]; b = S[(j + 1) % len(S)]
                    units.append(_classes[nm](None, ins=[a], outs=[b]))
                    j += 1
            elif kind == 'shared':
                for nm in st.names:
                    units.append(_classes[nm](None, ins=[S[0]], outs=[S[1 % len(S)]]))
            elif kind == 'samelist':
                _, container, ids, after = config
                fixed_in = dict(F=2, VI=None, VO=1, G=1, VJ=None)
                fixed_out = dict(F=1, VI=1, VO=None, G=1, VJ=None)
                Lin = [S[k % len(S)] for k in ids]; Lout = [S[(k + 2) % len(S)] for k in ids]
                if container == 'tuple': Lin, Lout = tuple(Lin), tuple(Lout)
                for nm in st.names:
                    ni, no = fixed_in[nm], fixed_out[nm]
                    # only hand the shared container to lists that can take its length (fixed lists are given a fresh prefix)
                    ins = Lin if ni is None else list(Lin[:ni])
                    outs = Lout if no is None else list(Lout[:no])
                    units.append(_classes[nm](None, ins=ins, outs=outs))
                if container == 'list':
                    for L in (Lin, Lout):
                        if after == 'append': L.append(S[-1])
                        elif after == 'clear': L.clear()
                        elif after == 'reverse': L.reverse()
            elif kind == 'wired':
                # ('wired', ((ins ids...), (outs ids...)) per unit)
                for nm, (i, o) in zip(st.names, config[1]):
                    units.append(_classes[nm](None, ins=[S[k] if k is not None else None for k in i] or None,
                                              outs=[S[k] if k is not None else None for k in o] or None))
            else:
                raise ValueError(config)
        st.units = units
        st.snap = None
        st.last_changed = True
        st.seen_placeholders = []
        self._track(st)
        return st

    def _track(self, st):
        """remember every placeholder / anonymous stream that ever sat in a port: a displaced one must not keep claiming the unit"""
        known = st.seen_placeholders
        for u in st.units:
            for lst in (u._ins, u._outs):
                for x in lst._streams:
                    if not any(x is s for s in st.streams) and not any(x is k for k in known):
                        known.append(x)

    # ---- reading the connection state -------------------------------------------------
    def _tok(self, st, x, pmap):
        if x is None: return ('none',)
        for i, s in enumerate(st.streams):
            if x is s: return ('s', i)
        tmo = _tmo
        if isinstance(x, tmo.AbstractMissingStream):
            n = pmap.setdefault(id(x), len(pmap))
            return ('p', n, self._u(st, x._source), self._u(st, x._sink))
        if isinstance(x, tmo.AbstractStream):
            n = pmap.setdefault(id(x), len(pmap))
            return ('a', n, self._u(st, x._source), self._u(st, x._sink))  # anonymous real stream
        return ('?', type(x).__name__)

    def _u(self, st, u):
        if u is None: return None
        for i, v in enumerate(st.units):
            if u is v: return i
        return 'foreign'

    def canon(self, st):
        pmap = {}
        units = tuple((tuple(self._tok(st, x, pmap) for x in u._ins._streams),
                       tuple(self._tok(st, x, pmap) for x in u._outs._streams)) for u in st.units)
        streams = tuple((self._u(st, s._source), self._u(st, s._sink)) for s in st.streams)
        snap = None
        if st.snap is not None:
            c = st.snap
            snap = (self._u(st, c.source), c.source_index, self._tok(st, c.stream, pmap), c.sink_index, self._u(st, c.sink))
        displaced = tuple(sorted((self._tok(st, x, pmap)[0], repr(self._u(st, x._source)), repr(self._u(st, x._sink)))
                                 for x in st.seen_placeholders if id(x) not in pmap))
        displaced = tuple(d for d in displaced if d[1] != 'None' or d[2] != 'None')
        return (units, streams, snap, displaced)

    # ---- state oracle -----------------------------------------------------------------------
    def invariants(self, st):
        tmo = _tmo
        out = []
        all_streams = list(st.streams)
        seen_ports = {}
        for ui, u in enumerate(st.units):
            for side, lst, attr in (('ins', u._ins, '_sink'), ('outs', u._outs, '_source')):
                fixed = lst._fixed_size
                cls = type(u)
                size = cls._N_ins if side == 'ins' else cls._N_outs
                if fixed and len(lst._streams) != size:
                    out.append(Violation('fixed-size', f'{st.names[ui]}.{side} has {len(lst._streams)} ports, fixed size is {size}',
                                         match=dict(side=side)))
                for pi, x in enumerate(lst._streams):
                    if isinstance(x, tmo.AbstractMissingStream):
                        if bool(x):
                            out.append(Violation('placeholder-truthy', 'placeholder is truthy'))
                        if getattr(x, attr) is not u:
                            out.append(Violation('placeholder-pointer',
                                f'placeholder in {st.names[ui]}.{side}[{pi}] has {attr[1:]}={self._u(st, getattr(x, attr))!r}',
                                match=dict(side=side)))
                    elif isinstance(x, tmo.AbstractStream):
                        if getattr(x, attr) is not u:
                            out.append(Violation('listed-but-not-docked',
                                f'stream {self._tok(st, x, {})} is in {st.names[ui]}.{side}[{pi}] but its {attr[1:]} is '
                                f'{self._u(st, getattr(x, attr))!r}', match=dict(side=side)))
                    else:
                        out.append(Violation('foreign-object', f'{type(x).__name__} in {st.names[ui]}.{side}[{pi}]'))
                    key = (id(x), side)
                    if key in seen_ports:
                        out.append(Violation('two-ports', f'{self._tok(st, x, {})} occupies {seen_ports[key]} and {(st.names[ui], side, pi)}',
                                             match=dict(side=side, placeholder=isinstance(x, tmo.AbstractMissingStream))))
                    else:
                        seen_ports[key] = (st.names[ui], side, pi)
                    if x not in all_streams and isinstance(x, tmo.AbstractStream): all_streams.append(x)
        # docked => listed   (for every real stream we know about, the streams found in ports, and every placeholder
        # that ever sat in a port: once displaced it must not keep naming the unit)
        for x in all_streams + [k for k in st.seen_placeholders if not any(k is y for y in all_streams)]:
            for attr, side in (('_sink', 'ins'), ('_source', 'outs')):
                u = getattr(x, attr)
                if u is None: continue
                if self._u(st, u) == 'foreign' or self._u(st, u) is None: continue
                lst = u._ins if side == 'ins' else u._outs
                if not any(y is x for y in lst._streams):
                    out.append(Violation('docked-but-not-listed',
                        f'stream {self._tok(st, x, {})} has {attr[1:]}={st.names[self._u(st, u)]} but is not in its {side}',
                        match=dict(side=side)))
        return out

    # ---- actions ----------------------------------------------------------------------------
    def _in_list(self, lst, s):
        return any(y is s for y in lst._streams)

    def _docked_side(self, st, s, side):
        """is s docked on that side of any unit (pointer or membership)"""
        if (s._sink if side == 'ins' else s._source) is not None: return True
        for u in st.units:
            if self._in_list(u._ins if side == 'ins' else u._outs, s): return True
        return False

    def actions(self, st):
        acts = []
        S = st.streams; U = st.units
        nS = len(S)
        for ui, u in enumerate(U):
            for side in ('ins', 'outs'):
                lst = u._ins if side == 'ins' else u._outs
                n = len(lst._streams); fixed = lst._fixed_size
                members = [si for si in range(nS) if self._in_list(lst, S[si])]
                free = [si for si in range(nS) if si not in members]
                # item assignment (incl. moving a stream docked elsewhere), assignment of None
                for i in range(n):
                    for si in free: acts.append(('set', ui, side, i, si))
                    acts.append(('set', ui, side, i, None))
                    # the same port addressed from the end (wave 7: a negative index resolved against the nominal port
                    # count instead of the current length went unnoticed — only non-negative indices were offered)
                    for si in free: acts.append(('set', ui, side, i - n, si))
                    acts.append(('set', ui, side, i - n, None))
                if not fixed and n < st.cap:
                    for si in free: acts.append(('set', ui, side, n, si))   # documented append-by-index path
                # append / insert: stream not docked on that side of any unit
                if not fixed and n < st.cap:
                    for si in range(nS):
                        if not self._docked_side(st, S[si], side):
                            acts.append(('append', ui, side, si))
                            for idx in range(0, n + 1): acts.append(('insert', ui, side, idx, si))
                # pop / remove / replace
                for i in range(n):
                    if fixed or n > 0: acts.append(('pop', ui, side, i))
                if n > 0: acts.append(('pop', ui, side, -1))
                for si in members:
                    acts.append(('remove', ui, side, si))
                    for sj in free: acts.append(('replace', ui, side, si, sj))
                # slices
                size = n
                for sl in ((None, None), (0, 1), (1, None)):
                    a, b = sl
                    lo = 0 if a is None else min(a, n); hi = n if b is None else min(b, n)
                    removed = [k for k in range(lo, hi)]
                    kept_members = [si for si in members if not any(lst._streams[k] is S[si] for k in removed)]
                    cands = [si for si in range(nS) if si not in kept_members]
                    for m in (0, 1, 2):
                        newlen = n - (hi - lo) + m
                        if fixed and newlen > n: continue
                        if not fixed and newlen > st.cap: continue
                        for combo in itertools.permutations(cands, m):
                            acts.append(('setslice', ui, side, a, b, combo))
                # placeholder operations
                for i, x in enumerate(lst._streams):
                    if isinstance(x, _tmo.AbstractMissingStream):
                        for which in ('source', 'sink', 'both'):
                            acts.append(('pdisc', ui, side, i, which))
        for si in range(nS):
            for which in ('source', 'sink', 'both'):
                acts.append(('sdisc', si, which))
            for ui, u in enumerate(U):
                if not self.pipes: break
                for i in range(len(u._ins._streams)):
                    if not self._in_list(u._ins, S[si]): acts.append(('pipe_s_i_U', si, i, ui))
                for i in range(len(u._outs._streams)):
                    if not self._in_list(u._outs, S[si]): acts.append(('pipe_U_i_s', ui, i, si))
                # s-U and U-s : one-element slice assignment of the whole list
                if not self._in_list(u._ins, S[si]) : acts.append(('pipe_s_U', si, ui))
                if not self._in_list(u._outs, S[si]): acts.append(('pipe_U_s', ui, si))
        for ui, u in enumerate(U):
            for vi, v in enumerate(U):
                if ui == vi: continue
                # U1-U2: v.ins[:] = u.outs ; precondition: does not supply more streams than a fixed list holds
                nout = len(u._outs._streams)
                if (v._ins._fixed_size and nout <= len(v._ins._streams)) or (not v._ins._fixed_size and nout <= st.cap):
                    acts.append(('pipe_U_U', ui, vi))
                nin_u, nin_v = len(u._ins._streams), len(v._ins._streams)
                nout_u, nout_v = len(u._outs._streams), len(v._outs._streams)
                def fits(dst, nsrc):
                    return nsrc <= (len(dst._streams) if dst._fixed_size else st.cap)
                if fits(u._ins, nin_v) and fits(u._outs, nout_v): acts.append(('take', ui, vi))
                if fits(v._ins, nin_u) and fits(v._outs, nout_u): acts.append(('replace_with', ui, vi))
            acts.append(('replace_with', ui, None))
            # unit.disconnect
            for je in (False, True):
                acts.append(('udisc', ui, None, None, je))
            for i in range(len(u._ins._streams)):
                acts.append(('udisc', ui, ('i', i), (), False))
                x = u._ins._streams[i]
                for si in range(nS):
                    if x is S[si]: acts.append(('udisc', ui, ('s', si), (), False))
            for i in range(len(u._outs._streams)):
                acts.append(('udisc', ui, (), ('i', i), False))
                x = u._outs._streams[i]
                for si in range(nS):
                    if x is S[si]: acts.append(('udisc', ui, (), ('s', si), False))
            # unit.insert(stream, inlet, outlet) into a line (stream with source and sink, both other units)
            for si in range(nS):
                s = S[si]
                if s._source is None or s._sink is None: continue
                if s._source is u or s._sink is u: continue
                if self._u(st, s._source) in (None, 'foreign') or self._u(st, s._sink) in (None, 'foreign'): continue
                # default form: allowed when the unit has a single fixed outlet or variable outlets (and symmetric for inlets)
                outs_ok = (not u._outs._fixed_size and len(u._outs._streams) < st.cap and not self._docked_elsewhere(st, s, 'outs')) \
                          or (u._outs._fixed_size and type(u)._N_outs == 1)
                if outs_ok and s._source is not s._sink:
                    added = not u._outs._fixed_size
                    ins_ok = ((u._ins._fixed_size or added) and type(u)._N_ins == 1) or \
                             (not (u._ins._fixed_size or added) and len(u._ins._streams) < st.cap)
                    # streams that the operation assigns to a port must not already be in that port list
                    if u._outs._fixed_size and self._in_list(s._sink._ins, u._outs._streams[0]): ins_ok = False
                    if (u._ins._fixed_size or added) and self._in_list(s._source._outs, u._ins._streams[0]): ins_ok = False
                    if ins_ok: acts.append(('uinsert', ui, si, None, None))
                for i in range(len(u._ins._streams)):
                    for o in range(len(u._outs._streams)):
                        xi, xo = u._ins._streams[i], u._outs._streams[o]
                        if isinstance(xi, _tmo.AbstractStream) and isinstance(xo, _tmo.AbstractStream) \
                           and xi is not s and xo is not s and xi is not xo \
                           and xi._source is None and xo._sink is None and s._source is not s._sink:
                            acts.append(('uinsert', ui, si, i, o))
                            acts.append(('uinsert_s', ui, si, i, o))
        if self.snapshots:
            if st.snap is None:
                for si in range(nS): acts.append(('snapshot', si))
            elif self._reconnect_ok(st):
                acts.append(('reconnect',))
        return acts

    def _reconnect_ok(self, st):
        """Connection.reconnect assigns the snapshot's stream to source.outs[i] / sink.ins[j]: inside the property's
        preconditions only while the stream is not sitting at ANOTHER index of that same port list."""
        c = st.snap
        for unit, idx, side in ((c.source, c.source_index, '_outs'), (c.sink, c.sink_index, '_ins')):
            if unit is None or self._u(st, unit) in (None, 'foreign'): continue
            lst = getattr(unit, side)._streams
            if idx is None or idx < 0: return False
            if idx > len(lst) or (idx == len(lst) and getattr(unit, side)._fixed_size): return False
            for k, x in enumerate(lst):
                if x is c.stream and k != idx: return False
        return True

    def _docked_elsewhere(self, st, s, side):
        return False

    # ---- executing one operation on the real objects --------------------------------------------
    def step(self, st, a):
        tmo = _tmo
        S = st.streams; U = st.units
        before = self.canon(st)
        op = a[0]
        try:
            with tmo.network.IgnoreDockingWarnings():
                if op == 'set':
                    _, ui, side, i, si = a
                    getattr(U[ui], side)[i] = (S[si] if si is not None else None)
                elif op == 'append':
                    _, ui, side, si = a
                    getattr(U[ui], side).append(S[si])
                elif op == 'insert':
                    _, ui, side, idx, si = a
                    getattr(U[ui], side).insert(idx, S[si])
                elif op == 'pop':
                    _, ui, side, i = a
                    getattr(U[ui], side).pop(i)
                elif op == 'remove':
                    _, ui, side, si = a
                    getattr(U[ui], side).remove(S[si])
                elif op == 'replace':
                    _, ui, side, si, sj = a
                    getattr(U[ui], side).replace(S[si], S[sj])
                elif op == 'setslice':
                    _, ui, side, lo, hi, combo = a
                    getattr(U[ui], side)[lo:hi] = tuple(S[k] for k in combo)
                elif op == 'pdisc':
                    _, ui, side, i, which = a
                    p = getattr(U[ui], side)[i]
                    {'source': p.disconnect_source, 'sink': p.disconnect_sink, 'both': p.disconnect}[which]()
                elif op == 'sdisc':
                    _, si, which = a
                    p = S[si]
                    {'source': p.disconnect_source, 'sink': p.disconnect_sink, 'both': p.disconnect}[which]()
                elif op == 'pipe_s_i_U':
                    _, si, i, ui = a
                    S[si] - i - U[ui]
                elif op == 'pipe_U_i_s':
                    _, ui, i, si = a
                    U[ui] ** i ** S[si]
                elif op == 'pipe_s_U':
                    _, si, ui = a
                    S[si] - U[ui]
                elif op == 'pipe_U_s':
                    _, ui, si = a
                    U[ui] - S[si]
                elif op == 'pipe_U_U':
                    _, ui, vi = a
                    U[ui] - U[vi]
                elif op == 'take':
                    _, ui, vi = a
                    U[ui].take_place_of(U[vi])
                elif op == 'replace_with':
                    _, ui, vi = a
                    U[ui].replace_with(U[vi] if vi is not None else None)
                elif op == 'udisc':
                    _, ui, inl, outl, je = a
                    def conv(x):
                        if x is None: return None
                        if x == (): return []
                        k, v = x
                        return [v] if k == 'i' else [S[v]]
                    U[ui].disconnect(inlets=conv(inl), outlets=conv(outl), join_ends=je)
                elif op == 'uinsert':
                    _, ui, si, i, o = a
                    U[ui].insert(S[si], inlet=i, outlet=o)
                elif op == 'uinsert_s':
                    _, ui, si, i, o = a
                    U[ui].insert(S[si], inlet=U[ui]._ins._streams[i], outlet=U[ui]._outs._streams[o])
                elif op == 'snapshot':
                    st.snap = S[a[1]].get_connection()
                elif op == 'reconnect':
                    c = st.snap; st.snap = None
                    c.reconnect()
                else:
                    raise ValueError(a)
        except Exception as e:
            self._track(st)
            st.last_changed = self.canon(st) != before
            # the state oracle is evaluated by the engine on the state the failed operation left behind
            raise Rejected(f'{op}:{type(e).__name__}', cut=False)
        self._track(st)
        after = self.canon(st)
        st.last_changed = after != before
        return ('ok', st.last_changed)

    def nontrivial(self, st, a, obs):
        return st.last_changed

    def outcome(self, st, a, obs):
        return repr((a[0], obs, self.canon(st)[0]))[:400]


SYSTEMS = [
    # full closure (frontier runs empty => ALL histories of ANY length over this alphabet)
    C18('c18.closure.F-G', ('F', 'G'), 3, 3, None, None, pipes=False),
    C18('c18.closure.VI-G', ('VI', 'G'), 2, 3, None, None, pipes=False),
    C18('c18.closure.VO-G', ('VO', 'G'), 2, 3, None, None, pipes=False),
    # two-unit universes, 3 streams, variable lists capped at 3: BFS towards closure (thorough), depth 3 (quick)
    C18('c18.pair.F-VI', ('F', 'VI'), 3, 3, 3, None, pipes=False, state_cap=1_500_000, tcap_t=200),
    C18('c18.pair.F-VO', ('F', 'VO'), 3, 3, 3, None, pipes=False, state_cap=1_500_000, tcap_t=200),
    C18('c18.pair.VI-VO', ('VI', 'VO'), 3, 3, 3, None, pipes=False, state_cap=1_500_000, tcap_t=200),
    # construct-time wirings (incl. streams already docked at a unit built earlier) x every operation once
    C18('c18.construct.F-VI', ('F', 'VI'), 3, 3, 1, 2, construct=True),
    C18('c18.construct.VO-VI', ('VO', 'VI'), 3, 3, 1, 2, construct=True),
    C18('c18.construct.VI-VO-F', ('VI', 'VO', 'F'), 3, 3, 0, 1, construct=True),
    C18('c18.construct.VI-VJ', ('VI', 'VJ'), 4, 3, 1, 1, construct=True),
    C18('c18.construct.VJ-VO', ('VJ', 'VO'), 4, 3, 1, 1, construct=True),
    # the universe of the property: three units, five streams, depth-bounded, all operations incl. pipe notation
    # and Connection.reconnect of an earlier snapshot
    C18('c18.depth.F-VI-VO', ('F', 'VI', 'VO'), 5, 4, 2, 3, snapshots=True),
    # a larger universe (four units, six streams), all operations once (quick) / twice (thorough)
    C18('c18.depth.F-VI-VO-G', ('F', 'VI', 'VO', 'G'), 6, 4, 1, 2, snapshots=True),
]
