"""
C14 — every derived stream property reflects the current state, never a stale one.

Explicit-state search over a REAL stream `s` (single liquid, single gas, multi-phase built directly, multi-phase obtained by
conversion) and, as they are created by actions, a proxy `p = s.proxy()`, a second stream `k` linked with `s`, and a phase
view `v = s['g']` / `s['l']`.  The memo (`_property_cache`, `_property_cache_key`, also of every phase view held in `_streams`) is part
of the canonical state.  Actions are property reads on any of those objects and mutations through every public mutator; the
mutation alphabet contains pairs that restore an earlier value (T: A -> B -> A, a flow 1 -> 3 -> 1, scale 2 / 0.5), mutations
that change only the total, only the composition, only the phase split, only WHICH phase holds a given content (whole-row
move / swap on a stream with an empty phase), and mutations made through the proxy, the linked
stream or the phase view instead of the stream itself.

Transition oracle on every read: the value equals the value read from a FRESHLY CREATED stream with the same flows, phase(s),
T and P (same code path => rtol 1e-12); `None` and exceptions must agree as well.
"""
from __future__ import annotations
import numpy as np
from mc.engine import System, Violation, Rejected
from mc import fixtures as fx

PROPERTY = 'C14'
RULE = ('BFS over interleavings of property reads and mutations on a real stream and its proxy / linked stream / phase view; a state is '
        'the complete digest of all objects (flows incl. stored zeros, phase containers, T/P, aliasing graph, memo dict contents AND the '
        'memo key incl. its composition copy, memo of every phase view); histories merge iff digests are equal.  A read is non-trivial '
        'when it met a non-empty memo (served from it or had to invalidate it).')
ASSUMPTIONS = [
    'package A = (Water, Ethanol, Methanol); package change to the re-ordered superset (Ethanol, Methanol, Water, Propanol) and to AX = the same compiled chemicals with IdealMixture(include_excess_energies=True); copies c = s.copy() / s.copy(thermo=AX)',
    'value alphabet: T in {298.15, 350} (gas: {400, 450}), P in {101325, 5e5}, Water flow in {1, 3}, scale in {2, 0.5}; auxiliary inlet (Water 0.375, Methanol 1, 330 K)',
    'properties read: H S C Cn V rho mu kappa sigma epsilon Hvap Cp alpha nu Pr MW F_vol h; history-building reads are H, h, V, Hvap, sigma (one per memo '
    'name class: flow / per-mole, phase-keyed / phase-free) plus a probe that reads all 18 in a fixed order',
    'the quantifier\'s "length up to ~40" is covered to the stated depth only; the reduced-alphabet system goes deeper',
    'on trees where proxy() of a directly constructed MultiStream raises AttributeError (no `equations` attribute) the call is recorded as rejected',
    'the (private) package reset is not applied while a proxy of the stream exists, and no proxy is created after a package reset (a proxy keeps its own package reference)',
    'which containers linking shares is not judged here (C13); the fresh twin is built from what the object itself reports',
]
TOLERANCES = {'read_rtol': 1e-12}
RTOL = 1e-12

ALL_PROPS = ('H', 'S', 'C', 'Cn', 'V', 'rho', 'mu', 'kappa', 'sigma', 'epsilon', 'Hvap', 'Cp', 'alpha', 'nu', 'Pr', 'MW', 'F_vol', 'h',
             'vol_sum')      # vol_sum = sum of the per-chemical volumetric flows (the view C11 judges entry by entry)
HIST_READS = ('H', 'h', 'V', 'Hvap', 'sigma')
MEMO_NAME = {'H': 'H', 'h': 'H', 'S': 'S', 'C': 'Cn', 'Cn': 'Cn', 'V': 'V', 'mu': 'mu', 'kappa': 'kappa', 'sigma': 'sigma',
             'epsilon': 'epsilon', 'Hvap': 'Hvap', 'F_vol': 'V', 'rho': 'V', 'Cp': 'Cn', 'alpha': 'kappa', 'nu': 'mu', 'Pr': 'Cn'}
A2_IDS = ('Ethanol', 'Methanol', 'Water', 'Propanol')


_AX = {}

def thermo_AX():
    """Package on the SAME compiled chemicals as A but with another mixture model (excess energies included): a package change that
    leaves chemical order, flows, composition keys and T/P untouched, so only an explicit memo reset can notice it."""
    A = fx.thermo('A')
    t = _AX.get(id(A))
    if t is None or t[0] is not A:
        tmo = fx.tmo()
        AX = tmo.Thermo(A.chemicals, mixture=tmo.IdealMixture.from_chemicals(A.chemicals, include_excess_energies=True))
        t = _AX[id(A)] = (A, AX)
    return t[1]


def thermo_PR():
    """Peng-Robinson EOS package on the same compiled chemicals; its solver scratch `mixture._free_energy_args` is hidden state shared by
    every stream of the package: owned here (emptied at build, part of `canon`, emptied around every reference evaluation)."""
    A = fx.thermo('A')
    t = _AX.get(('PR', id(A)))
    if t is None or t[0] is not A:
        tmo = fx.tmo()
        t = _AX[('PR', id(A))] = (A, tmo.Thermo(A.chemicals, mixture=tmo.PRMixture.from_chemicals(A.chemicals)))
    return t[1]


def _mixture_containers(thermo):
    """Every mutable container that can carry state between evaluations of this package's mixture: the instance scratch
    `_free_energy_args` and every dict that lives on the mixture's classes (e.g. the class-level `cache` of EOS objects of an EOSMixture)."""
    m = thermo.mixture
    out = []
    fea = getattr(m, '_free_energy_args', None)
    if isinstance(fea, dict): out.append(('_free_energy_args', fea))
    for cls in type(m).__mro__:
        if cls is object: continue
        for k, v in vars(cls).items():
            if isinstance(v, dict) and not k.startswith('__'): out.append((f'{cls.__name__}.{k}', v))
    return out


class clean_scratch:
    """The reference twin must be a CLEAN evaluation of the concrete state, not of whatever earlier evaluations left in the mixture object
    or on its classes: all owned containers are emptied for the evaluation and put back afterwards."""
    def __init__(self, thermo): self.cs = _mixture_containers(thermo)
    def __enter__(self):
        self.saved = [dict(d) for _, d in self.cs]
        for _, d in self.cs: d.clear()
    def __exit__(self, *a):
        for (_, d), old in zip(self.cs, self.saved):
            d.clear(); d.update(old)


def _key_digest(k):
    if isinstance(k, (tuple, list, frozenset, set)):
        items = [_key_digest(i) for i in k]
        return tuple(sorted(items, key=repr)) if isinstance(k, (frozenset, set)) else tuple(items)
    return getattr(k, 'ID', None) or (k if isinstance(k, (str, int, float, bool, type(None))) else type(k).__name__)


def _fea_digest(thermo):
    fea = getattr(thermo.mixture, '_free_energy_args', None)
    if not fea: return ()
    out = []
    for ph, val in sorted(fea.items(), key=lambda kv: str(kv[0])):
        try:
            eos, eos_mol, kw = val
            out.append((str(ph), fx.r12(eos_mol), fx.r12(getattr(eos, 'T', 0.0) or 0.0), fx.r12(getattr(eos, 'P', 0.0) or 0.0),
                        tuple(fx.r12(z) for z in (getattr(eos, 'zs', None) or ()))))
        except Exception:
            out.append((str(ph), repr(type(val))))
    return tuple(out)


class St:
    __slots__ = ('s', 'p', 'k', 'v', 'c', 'aux', 'thermos', 'cfg', 'TA', 'TB', 'PA', 'PB', 'last')


def _is_multi(x):
    return isinstance(x, fx.tmo().MultiStream)


def _truth(x):
    imol = x._imol
    tc = x._thermal_condition
    if _is_multi(x):
        return ('M', tuple(imol._phases), [np.array(r.to_array(), float) for r in imol.data.rows], tc._T, tc._P, x._thermo)
    return ('S', imol._phase._phase, np.array(imol.data.to_array(), float), tc._T, tc._P, x._thermo)


def _fresh(x):
    """A freshly created stream with the same flows, phase(s), T and P."""
    tmo = fx.tmo()
    t = _truth(x)
    if t[0] == 'M':
        _, phases, rows, T, P, th = t
        f = tmo.MultiStream(None, T=T, P=P, phases=phases, thermo=th)
        assert tuple(f._imol._phases) == tuple(phases)
        for i, r in enumerate(rows):
            row = f._imol.data.rows[i]
            for j, val in enumerate(r):
                if val: row[j] = float(val)
        return f
    _, phase, row, T, P, th = t
    return tmo.Stream(None, flow=row, phase=phase, T=T, P=P, thermo=th)


def _read(x, q):
    try:
        v = float(x.vol.sum()) if q == 'vol_sum' else getattr(x, q)
    except Exception as e:
        return ('exc', type(e).__name__)
    if v is None: return ('none',)
    return ('val', float(v))


def _same(a, b):
    if a[0] != b[0]: return False
    if a[0] == 'val':
        x, y = a[1], b[1]
        if x == y: return True
        if x != x or y != y: return x != x and y != y
        return abs(x - y) <= RTOL * max(abs(x), abs(y))
    return a == b


def _resid(a, b):
    if a[0] == 'val' and b[0] == 'val':
        d = max(abs(a[1]), abs(b[1]), 1e-300)
        return abs(a[1] - b[1]) / d
    return None


def _dict_digest(d):
    if isinstance(d, dict): return tuple(sorted((int(k), fx.r12(v)) for k, v in d.items()))
    if isinstance(d, (list, tuple)): return tuple(_dict_digest(i) for i in d)
    return fx._val(d)


def _memo_digest(x, alias):
    cache = getattr(x, '_property_cache', None)
    key = getattr(x, '_property_cache_key', None)
    kd = None
    if key is not None:
        lit, comp = key
        kd = (fx._val(lit), _dict_digest(comp))
    return (None if cache is None else (alias(cache), tuple(sorted((str(k), fx._val(v)) for k, v in cache.items()))), kd)


class C14(System):
    nontrivial_per_config = False

    def __init__(self, name, alphabet, depth_q, depth_t, kinds, extras, warm=(False, True), only=None, tcap_q=None, tcap_t=None):
        self.name = name
        self.alphabet = alphabet          # 'full' | 'deep'
        self._dq, self._dt = depth_q, depth_t
        self.kinds, self.extras, self.warms = kinds, extras, warm
        self._tq, self._tt = tcap_q, tcap_t
        self.only = only

    def warm(self):
        fx.tmo(); fx.thermo('A'); fx.custom_thermo(A2_IDS); thermo_AX(); thermo_PR()
    def reset_globals(self): fx.reset_globals()
    def depth(self, tier): return self._dq if tier == 'quick' else self._dt
    def time_cap(self, tier): return self._tq if tier == 'quick' else self._tt
    def describe(self, tier):
        return dict(alphabet=self.alphabet, kinds=list(self.kinds), extras=list(self.extras), warm=list(self.warms))

    def configs(self, tier, seed):
        cfgs = [(k, e, w) for k in self.kinds for e in self.extras for w in self.warms
                if not (e == 'view' and k in ('l', 'l1', 'g', 'gX', 'gP'))]
        if self.only is not None: cfgs = [c for c in cfgs if c in self.only]
        n = seed % len(cfgs)
        return cfgs[n:] + cfgs[:n]

    # ---- build ------------------------------------------------------------------------------------------
    def build(self, config):
        tmo = fx.tmo()
        kind, extra, warm = config
        A = fx.thermo('A'); A2 = fx.custom_thermo(A2_IDS)
        st = St(); st.cfg = config; st.thermos = (A, A2, thermo_AX())
        st.p = st.k = st.v = st.c = None
        st.last = None
        st.PA, st.PB = 101325.0, 5e5
        for th in (thermo_PR(),):
            for _, d in _mixture_containers(th): d.clear()
        if kind == 'l':
            st.TA, st.TB = 298.15, 350.0
            s = tmo.Stream(None, Water=1.0, Ethanol=2.5, phase='l', T=st.TA, thermo=A)
        elif kind == 'l1':
            # total flow EXACTLY 1 kmol/hr (flows given as mole fractions)
            st.TA, st.TB = 298.15, 350.0
            s = tmo.Stream(None, Water=0.25, Ethanol=0.75, phase='l', T=st.TA, thermo=A)
        elif kind == 'g':
            st.TA, st.TB = 400.0, 450.0
            s = tmo.Stream(None, Water=1.0, Ethanol=2.5, phase='g', T=st.TA, thermo=A)
        elif kind in ('gX', 'gP'):
            # gas streams that START on a package whose enthalpy / entropy depend on pressure: AX (excess energies) or Peng-Robinson
            st.TA, st.TB = 450.0, 500.0
            st.PB = 2e5
            s = tmo.Stream(None, Water=1.0, Ethanol=2.5, phase='g', T=st.TA, thermo=thermo_AX() if kind == 'gX' else thermo_PR())
        elif kind == 'm':
            st.TA, st.TB = 350.0, 360.0
            s = tmo.MultiStream(None, T=st.TA, phases=('g', 'l'), l=[('Water', 1.0), ('Ethanol', 0.5)], g=[('Ethanol', 2.0)], thermo=A)
        elif kind == 'm1':
            # multi-phase stream with an EMPTY phase: everything is liquid
            st.TA, st.TB = 350.0, 360.0
            s = tmo.MultiStream(None, T=st.TA, phases=('g', 'l'), l=[('Water', 1.0), ('Ethanol', 2.5)], thermo=A)
        elif kind == 'mc':
            st.TA, st.TB = 350.0, 360.0
            s = tmo.Stream(None, Water=1.0, Ethanol=0.5, phase='l', T=st.TA, thermo=A)
            s.phases = ('g', 'l')
            s.imol['g', 'Ethanol'] = 2.0
        else:
            raise ValueError(kind)
        st.s = s
        st.aux = tmo.Stream(None, Water=0.375, Methanol=1.0, phase='l', T=330.0, thermo=A)
        if warm:
            # the memo is populated before the satellites are created (shortens the histories that expose a stale memo)
            s.sigma; s.H          # the phase-keyed read comes last, so that 'H' stays memoised
        if extra == 'proxy':
            try: st.p = s.proxy()
            except AttributeError: st.p = None       # trees in which a directly constructed MultiStream cannot be proxied
        elif extra == 'link':
            st.k = self._new_k(st)
            st.k.link_with(s)
        elif extra == 'view':
            st.v = s['l'] if kind == 'm1' else s['g']      # a view of a non-empty phase; gas, where the mixture models differ most
        if warm and st.v is not None: st.v.vol.sum(); st.v.H
        return st

    def _new_k(self, st):
        tmo = fx.tmo()
        if _is_multi(st.s):
            return tmo.MultiStream(None, phases=tuple(st.s._imol._phases), thermo=st.s._thermo)
        return tmo.Stream(None, thermo=st.s._thermo)

    # ---- canonical state -----------------------------------------------------------------------------------
    def canon(self, st):
        ids = {}
        def alias(o): return ids.setdefault(id(o), len(ids))
        out = []
        for nm in ('s', 'p', 'k', 'v', 'c'):
            x = getattr(st, nm)
            if x is None:
                out.append(None); continue
            d = fx.stream_digest(x, ids)
            views = ()
            if _is_multi(x) and hasattr(x, '_streams'):
                views = tuple((ph, alias(vw), alias(vw._imol.data), _memo_digest(vw, alias)) for ph, vw in sorted(x._streams.items()))
            out.append((d, _memo_digest(x, alias), views, alias(x._thermo)))
        out.append(_fea_digest(thermo_PR()))
        out.append(tuple((n, tuple(sorted((repr(_key_digest(k)) for k in d)))) for n, d in _mixture_containers(thermo_PR()) if n != '_free_energy_args'))
        return tuple(out)

    # ---- actions ---------------------------------------------------------------------------------------------
    def _objs(self, st):
        return [(nm, getattr(st, nm)) for nm in ('s', 'p', 'k', 'v', 'c') if getattr(st, nm) is not None]

    def actions(self, st):
        s = st.s
        multi = _is_multi(s)
        acts = []
        objs = self._objs(st)
        deep = self.alphabet == 'deep'
        # reads
        for nm, x in objs:
            if deep:
                acts += [('r', nm, 'H'), ('r', nm, 'V')]
            else:
                for q in HIST_READS: acts.append(('r', nm, q))
                acts.append(('probe', nm))
        # mutations of s
        TA, TB = st.TA, st.TB
        wkey = ('l', 'Water') if multi else 'Water'
        acts += [('T', 's', TA), ('T', 's', TB)]
        acts += [('flow', 's', 1.0), ('flow', 's', 3.0)]
        acts += [('scale', 2.0), ('scale', 0.5)]
        # documented context managers: the stream is put into a temporary state, a property is read INSIDE, the state is restored
        if deep: acts.append(('temp', 'T', 'H'))
        else:
            acts += [('temp', 'T', 'H'), ('temp', 'flow', 'H'), ('temp', 'P', 'V')]
            if not multi: acts.append(('temp', 'phase', 'H'))
        if not multi and (not deep or st.cfg[0] == 'l1'):
            # composition-only edits between states whose total is exactly 1 kmol/hr
            acts += [('comp', 0.25), ('comp', 0.75)]
            if not deep: acts.append(('comp', 0.0))
        if not multi: acts.append(('phase', 'g' if s.phase != 'g' else 'l'))
        else:
            acts.append(('shift', 0.5))        # move half of the liquid water to the gas phase: only the phase split changes
            if 'l' in s._imol._phases and 'g' in s._imol._phases:
                # relocate the ENTIRE content of one phase row to the other / exchange two rows: T, P and the per-row compositions
                # are kept, only WHICH phase holds them changes
                acts += [('move', 'l', 'g', 'imol'), ('move', 'g', 'l', 'imol'), ('swap',)]
                if not deep and hasattr(s, '_streams'):
                    for src, dst in (('l', 'g'), ('g', 'l')):
                        if not s._imol.data.rows[s._imol._phases.index(dst)].any(): acts.append(('move', src, dst, 'view'))
        if deep:
            if st.p is None: acts.append(('mkproxy',))
            if st.p is not None: acts += [('T', 'p', TA), ('T', 'p', TB)]
            if st.k is not None: acts += [('T', 'k', TA), ('T', 'k', TB)]
            if st.v is not None: acts += [('flow', 'v', 1.0), ('flow', 'v', 3.0)]
            return acts
        acts += [('P', 's', st.PB), ('P', 's', st.PA)]
        acts.append(('addmol', 1.0))
        if st.cfg[0] in ('gX', 'gP') and not multi:
            acts += [('reorder', 'Water'), ('reorder', 'Ethanol')]      # zero a flow and set it again: same flows, other order of the flow dict
            acts += [('setS', 'A'), ('setS', 'B')]        # entropy specification: S := the clean entropy of this composition at TA / TB
        if not multi and s.phase != st.aux.phase and s.chemicals is st.aux.chemicals and st.aux._thermal_condition is not s._thermal_condition:
            acts.append(('from_streams',))               # MultiStream.from_streams([aux, s]) re-points s to aux's thermal condition
        acts.append(('F_mol', 7.0))
        acts.append(('set_flow', 2.0, 'kg/hr', 'Methanol'))
        acts += [('mix', False), ('mix', True)]
        acts.append(('copy_like',))
        acts.append(('copy_flow',))
        acts.append(('empty',))
        if st.p is None and (s._thermo is st.thermos[0] or s._thermo is st.thermos[1]): acts.append(('reset_thermo',))
        if st.p is None and (s._thermo is st.thermos[0] or s._thermo is st.thermos[2]):
            acts.append(('reset_thermo', 'X'))      # same chemicals, other mixture model
        if st.c is None and s._thermo is st.thermos[0]:
            acts += [('mkcopy', None), ('mkcopy', 'X')]     # a proxy keeps its own `_thermo`: package reset of the original with a live proxy is outside the property
        if multi:
            acts.append(('to_single', 'l'))
            if tuple(s._imol._phases) == ('g', 'l'): acts.append(('phases', 'gls'))      # phase-set change that keeps the stream multi-phase
        else: acts.append(('phases', 'gl'))
        if st.p is None and s._thermo is st.thermos[0]: acts.append(('mkproxy',))
        if st.k is None: acts += [('mklink', True, True, True), ('mklink', True, True, False), ('mklink', False, True, True), ('mklink', True, False, True)]
        else: acts += [('unlink', 's'), ('unlink', 'k')]
        if st.v is None and multi and hasattr(s, '_streams'):
            for ph in ('l', 'g'):
                if ph in s._imol._phases: acts.append(('mkview', ph))
        for nm in ('p', 'k', 'v'):
            x = getattr(st, nm)
            if x is None: continue
            acts += [('T', nm, TA), ('T', nm, TB)]
            acts += [('flow', nm, 1.0), ('flow', nm, 3.0)]
        return acts

    # ---- one transition -----------------------------------------------------------------------------------------
    def _check_read(self, st, nm, q, first=True):
        x = getattr(st, nm)
        cache = x._property_cache
        pre = set(cache)
        name = MEMO_NAME.get(q)
        with clean_scratch(x._thermo):
            exp = _read(_fresh(x), q)
        got = _read(x, q)
        post = set(cache)
        if name in pre and pre <= post: how = 'hit'
        elif pre and not pre <= post: how = 'invalidate'
        elif pre: how = 'extend'
        else: how = 'miss'
        if not _same(got, exp):
            t = _truth(x)
            raise Violation('stale-read', f'{nm}.{q} = {got!r} but a fresh stream with the same flows/phase/T/P gives {exp!r} '
                            f'(object {nm}: {t[0]} phases {t[1]!r} flows {[np.asarray(r).tolist() for r in (t[2] if t[0] == "M" else [t[2]])]} T={t[3]} P={t[4]}; memo was {how})',
                            match=dict(obj=nm, kind='multi' if t[0] == 'M' else 'single', memo=how, shared_memo=self._shared_memo(st, x)),
                            detail=dict(prop=q, got=got, expected=exp, satellites=self._sat(st)), residual=_resid(got, exp))
        return how, got[0]

    def _shared_memo(self, st, x):
        """the memo dict of x is the same object as the memo dict of another live object of the universe"""
        for nm, y in self._objs(st):
            if y is not x and getattr(y, '_property_cache', None) is x._property_cache: return True
        return False

    def _sat(self, st):
        return ''.join(c for c, x in (('p', st.p), ('k', st.k), ('v', st.v), ('c', st.c)) if x is not None)

    def step(self, st, a):
        tmo = fx.tmo()
        op = a[0]
        s = st.s
        st.last = None
        if op == 'r':
            _, nm, q = a
            how, kind = self._check_read(st, nm, q)
            st.last = how
            return ('r', q, how, kind)
        if op == 'temp':
            _, what, q = a
            if what == 'phase':
                try: ctx = s.temporary_phase('g' if s.phase != 'g' else 'l')
                except Exception as e: raise Rejected(f'temporary_phase:{type(e).__name__}', cut=True)
            else:
                if what == 'T': kw = dict(T=st.TB if s.T != st.TB else st.TA)
                elif what == 'P': kw = dict(P=st.PB if s.P != st.PB else st.PA)
                else:
                    t = _truth(s)
                    kw = dict(flow=2.0 * (np.array(t[2]) if t[0] == 'M' else t[2]))
                ctx = s.temporary(**kw)
            try:
                entered = ctx.__enter__()
            except Exception as e:
                raise Rejected(f'temporary_{what}:{type(e).__name__}', cut=True)
            try:
                how, kind = self._check_read(st, 's', q)
            finally:
                ctx.__exit__(None, None, None)
            st.last = how
            return ('temp', what, q, how, kind)
        if op == 'probe':
            _, nm = a
            hows = []
            for q in ALL_PROPS:
                how, kind = self._check_read(st, nm, q)
                hows.append(how[0])
            st.last = 'hit' if 'h' in hows else ('invalidate' if 'i' in hows else 'miss')
            return ('probe', ''.join(hows))
        try:
            res = self._mutate(st, a)
        except (Violation, Rejected):
            raise
        except Exception as e:
            # the property is about READS; a mutator that refuses (or fails on) its arguments is recorded, counted and cut
            doc = self._documented(st, a, e) or f'{op}:{type(e).__name__}'
            raise Rejected(doc, cut=True)
        return (op, res)

    def _documented(self, st, a, e):
        tmo = fx.tmo()
        op = a[0]
        msg = str(e)
        if isinstance(e, AttributeError) and 'undefined composition' in msg: return f'{op}:undefined-composition'
        if op == 'mkproxy' and isinstance(e, AttributeError) and 'equations' in msg: return 'mkproxy:no-equations-attribute'
        if isinstance(e, RuntimeError) and ('link' in msg or 'phase is locked' in msg): return f'{op}:RuntimeError'
        if isinstance(e, tmo.exceptions.UndefinedPhase): return f'{op}:UndefinedPhase'
        if isinstance(e, tmo.exceptions.InfeasibleRegion): return f'{op}:InfeasibleRegion'
        if op == 'mix' and isinstance(e, (RuntimeError, ValueError)): return f'mix:{type(e).__name__}'      # temperature solve did not converge
        return None

    def _mutate(self, st, a):
        tmo = fx.tmo()
        op = a[0]
        s = st.s
        multi = _is_multi(s)
        if op == 'T':
            getattr(st, a[1]).T = a[2]; return 'ok'
        if op == 'P':
            getattr(st, a[1]).P = a[2]; return 'ok'
        if op == 'flow':
            x = getattr(st, a[1])
            key = ('l', 'Water') if _is_multi(x) else 'Water'
            x.imol[key] = a[2]; return 'ok'
        if op == 'comp':
            s.empty()
            if a[1]: s.imol['Water'] = a[1]
            if 1.0 - a[1]: s.imol['Ethanol'] = 1.0 - a[1]
            return 'ok'
        if op == 'scale':
            s.scale(a[1]); return 'ok'
        if op == 'phase':
            s.phase = a[1]; return 'ok'
        if op == 'shift':
            tot = float(s.imol['l', 'Water']) + float(s.imol['g', 'Water'])
            l_new = float(s.imol['l', 'Water']) * a[1]
            s.imol['l', 'Water'] = l_new
            s.imol['g', 'Water'] = tot - l_new
            return 'ok'
        if op == 'move':
            _, src, dst, via = a
            IDs = tuple(s.chemicals.IDs)
            if via == 'view':
                s[dst].copy_flow(s[src], remove=True)
            else:
                vals = np.asarray(s.imol[src, IDs], float) + np.asarray(s.imol[dst, IDs], float)
                s.imol[dst, IDs] = vals
                s.imol[src, IDs] = 0.
            return 'ok'
        if op == 'swap':
            IDs = tuple(s.chemicals.IDs)
            lq = np.array(s.imol['l', IDs], float); gs = np.array(s.imol['g', IDs], float)
            s.imol['l', IDs] = gs
            s.imol['g', IDs] = lq
            return 'ok'
        if op == 'reorder':
            v = float(s.imol[a[1]])
            s.imol[a[1]] = 0.
            if v: s.imol[a[1]] = v
            return 'ok'
        if op == 'setS':
            T = st.TA if a[1] == 'A' else st.TB
            with clean_scratch(s._thermo):
                t = _truth(s)
                twin = tmo.Stream(None, flow=t[2], phase=t[1], T=T, P=t[4], thermo=s._thermo)
                target = twin.S
            s.S = target
            return 'ok'
        if op == 'from_streams':
            tmo.MultiStream.from_streams([st.aux, s])
            return 'ok'
        if op == 'addmol':
            if multi:
                s.imol['l', 'Ethanol'] += a[1]
            else:
                i = s.chemicals.IDs.index('Ethanol')
                s.mol[i] += a[1]
            return 'ok'
        if op == 'F_mol':
            s.F_mol = a[1]; return 'ok'
        if op == 'set_flow':
            _, x, u, nm = a
            s.set_flow(x, u, ('l', nm) if multi else nm); return 'ok'
        if op == 'mix':
            s.mix_from([s, st.aux], energy_balance=a[1]); return 'ok'
        if op == 'copy_like':
            s.copy_like(st.aux); return 'ok'
        if op == 'copy_flow':
            if multi: s.copy_flow(st.aux, 'l')
            else: s.copy_flow(st.aux)
            return 'ok'
        if op == 'empty':
            s.empty(); return 'ok'
        if op == 'reset_thermo':
            A, A2, AX = st.thermos
            if len(a) > 1: s._reset_thermo(AX if s._thermo is A else A)
            else: s._reset_thermo(A2 if s._thermo is A else A)
            return 'ok'
        if op == 'mkcopy':
            st.c = s.copy() if a[1] is None else s.copy(thermo=st.thermos[2])
            return 'ok'
        if op == 'phases':
            s.phases = tuple(a[1]); return 'ok'
        if op == 'to_single':
            s.phase = a[1]
            st.v = None if st.v is None else st.v      # the view object is kept: reading it afterwards is part of the space
            return 'ok'
        if op == 'mkproxy':
            st.p = s.proxy(); return 'ok'
        if op == 'mklink':
            _, fl, ph, tp = a
            k = self._new_k(st)
            k.link_with(s, flow=fl, phase=ph, TP=tp)
            st.k = k
            return 'ok'
        if op == 'unlink':
            (s if a[1] == 's' else st.k).unlink(); return 'ok'
        if op == 'mkview':
            st.v = s[a[1]]; return 'ok'
        raise ValueError(a)

    # ---- evidence ----------------------------------------------------------------------------------------------------
    def nontrivial(self, st, a, obs):
        return a[0] in ('r', 'probe', 'temp') and st.last in ('hit', 'invalidate')

    def outcome(self, st, a, obs):
        return repr((a[0], a[1] if a[0] in ('r', 'probe', 'T', 'flow') else None, obs, type(st.s).__name__, self._sat(st)))[:300]


_CORE = (('l', 'none', False), ('l1', 'none', False), ('g', 'none', False), ('gX', 'none', False), ('gP', 'none', False), ('m', 'none', False), ('mc', 'none', False), ('m1', 'none', False),
         ('l', 'proxy', True), ('m', 'proxy', True), ('l', 'link', True), ('mc', 'link', True), ('m', 'view', True))
_DEEP = (('l', 'none', False), ('l1', 'none', False), ('l', 'proxy', False), ('l', 'link', False), ('m', 'none', False), ('m', 'proxy', False),
         ('m', 'link', False), ('m', 'view', False), ('m1', 'none', False), ('m1', 'view', False))
SYSTEMS = [
    # every mutator x every read (x every satellite) from all cold and warm starts; the thorough tier runs depth 3 from ALL starts, which
    # contains the quick space of c14.full below
    C14('c14.wide', 'full', 2, 3, ('l', 'l1', 'g', 'gX', 'gP', 'm', 'mc', 'm1'), ('none', 'proxy', 'link', 'view'), tcap_t=900),
    # quick: the same alphabet one level deeper from the core starts (in the thorough tier this space is part of c14.wide, so only depth 2 is repeated)
    C14('c14.full', 'full', 3, 2, ('l', 'l1', 'g', 'gX', 'gP', 'm', 'mc', 'm1'), ('none', 'proxy', 'link', 'view'), only=_CORE, tcap_q=150),
    # reduced alphabet (restoring mutations, whole-phase moves, reads through every object), deep histories
    C14('c14.deep', 'deep', 4, 5, ('l', 'l1', 'm', 'm1'), ('none', 'proxy', 'link', 'view'), warm=(False,), only=_DEEP, tcap_q=120, tcap_t=600),
]
