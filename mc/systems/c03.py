"""
C03 -- phase equilibrium never creates, destroys or makes negative any material.

Bounded exhaustive exploration of ``stream.vle(...) / lle(...) / sle(...) / vlle(...)`` on real streams (the solver
objects live in the stream's ``_vle_cache / _lle_cache / _sle_cache`` and keep warm-start fields between calls).

Layers
------
c03.vle.grid    depth 1: composition (every non-empty subset of PKG_VLE) x magnitude pattern x initial distribution
                x every VLE specification pair x value grid.  quick = every case that deviates from one of the base
                points in at most two coordinates; thorough = the full Cartesian product.
c03.lle.grid    depth 1: lle(T[,P][,top_chemical][,use_cache=False]) and vlle(T,P) on a package with partially miscible pairs.
c03.sle.grid    depth 1: sle(solute, T[, solubility]).
c03.hist        depth 2/3: sequences of calls (vle with all pair kinds, lle, sle) on ONE stream; canonical state =
                complete stream digest + every warm-start field of the three cached solvers.

Oracle on every call that returns normally: per-chemical sum over phases unchanged; every entry >= -1e-12 total and
finite; after a vapour-liquid call gas-locked chemicals are entirely in g and liquid/solid-locked ones are absent from g.
"""
from __future__ import annotations
import itertools
import numpy as np
from mc.engine import Violation, Rejected
from mc import fixtures as fx
from mc.systems import _vle_common as vc
from mc.systems._vle_common import FlashSystem, ndev, Grid, subsets, n_volatile

PROPERTY = 'C03'
RULE = ('Depth-1 systems enumerate (package, present chemicals, magnitude pattern, initial phase distribution) x (call kind, '
        'specification pair, value 1, value 2); quick = all cases within two coordinate deviations of a base point, thorough = '
        'full product.  History systems run BFS over call sequences on one stream; two histories are merged iff the stream digest '
        '(flows incl. stored zeros, phases, T, P, memo) and every remembered field of the cached VLE/LLE/SLE objects agree to 12 '
        'digits.  A case is non-trivial when the call returned normally with material in at least two phases; distinct outcomes = '
        '(call, pair, L/V/LV branch, phases populated, #volatile, light?, heavy?).  Calls that raise a documented exception are '
        'counted as rejected, by kind.')
ASSUMPTIONS = [
    'packages: VLE=(Water,Ethanol,Propanol,N2[g-locked],Glucose[s-locked]); SALT=(Water,Ethanol,Propanol,NaCl[l-locked, N_solutes=2],N2[g-locked]); OVLE=(N2[g],Water,Glucose[s],Ethanol,Propanol) -- the chemicals of VLE with the locked members listed first / in the middle; LL=(Water,1-Butanol,Octanol,EthylAcetate,Hexane,Ethanol); '
    'SLE=(Water,Methanol,Ethanol,Tetradecanol,Glucose); HIS=(Water,Ethanol,Octanol,Tetradecanol,N2[g],Glucose[s])',
    'value grids: T {250,300,350,400,500} K, P {1e4,101325,1e6,5e6} Pa, V {0,0.02,0.5,0.98,1}, H and S at fractions '
    '{-0.1,0,0.3,0.7,1,1.1} between the all-liquid value at the bubble point and the all-vapour value at the dew point '
    '(own reference bubble/dew), x / y {0.05,0.3,0.5,0.7,0.95} for binaries; nothing is claimed between grid points',
    'flows: every present chemical 1 kmol/hr, or one chemical at 1e-3 / 1e3, or all at 1e-3 / 1e3',
    'initial distributions: all l, all g, half/half, alternating, (L,l,s) without gas phase, single-phase Stream l / g',
    'calls that raise InfeasibleRegion / NoEquilibrium / NotImplementedError / RuntimeError / ValueError / FloatingPointError / '
    'ZeroDivisionError / AssertionError are outside the quantifier ("returns normally") and counted as rejected; the state after a '
    'rejected call is not explored further',
    'the phase-lock sentence is checked after vle(...) calls only (the statement says "after a vapour-liquid calculation"), for '
    'the material that is in the g / l phases the calculation pools',
    'VLE method shgo is explored on a reduced grid (c03.method.grid); LLE methods other than the default pseudo equilibrium are not explored',
    'the interning caches of thermosteam.equilibrium (BubblePoint/DewPoint/activity-coefficient objects) are cleared before every execution',
    'entropy-specified calls are not enumerated for mixtures containing a chemical whose entropy cannot be evaluated / is not the integral of Cn/T '
    '(vc.entropy_model_ok: Tetradecanol and unlocked Glucose raise TypeError because Chemical.Sfus is None -- a C07 matter, _chemical.py:1542)',
]
TOLERANCES = {'conservation_rtol_per_chemical': 1e-9, 'conservation_atol_rel_total': 1e-12, 'negativity_rel_total': 1e-12,
              'lock_rel_total': 1e-12, 'digest_significant_digits': 12}

# ----------------------------------------------------------------------------------------------------------------
# oracle

def oracle(system, st, action, before, obs):
    st.extra['last_kind'] = action[0]
    if action[0] in ('refill', 'pkg', 'edit', 'scale'): return       # the user changes the material; nothing is claimed about that step
    if action[0] == 'vle' and action[1] in ('TPl', 'TPg'): return     # reactive flash: totals change by design; only the LATER plain calls are judged
    s = st.s
    after = vc.dense_by_phase(s)
    n = len(s.chemicals.IDs)   # a phase dict may be empty (all material destroyed): the sums must stay arrays
    tb = sum(before['flows'].values(), np.zeros(n)); ta = sum(after.values(), np.zeros(n))
    total = float(tb.sum())
    kind = action[0]
    extra = any(a.any() for p, a in before['flows'].items() if p not in ('g', 'l'))
    m = dict(call=f'{kind}:{action[1]}', nvol=obs['nvol'], light=obs['light'], heavy=obs['heavy'], extra_phases=extra)
    IDs = s.chemicals.IDs
    for p, a in after.items():
        if not np.isfinite(a).all():
            raise Violation('non-finite-flow', f'{action!r} on {st.config!r}: phase {p} = {a.tolist()}', match=m)
    worst = 0.; wi = None
    for i in range(len(tb)):
        err = abs(ta[i] - tb[i]); tol = 1e-9 * abs(tb[i]) + 1e-12 * total
        if not err <= tol:
            r = err / max(abs(tb[i]), 1e-300) if tb[i] else err / max(total, 1e-300)
            if r >= worst: worst, wi = r, i
    if wi is not None:
        raise Violation('conservation', f'{action!r} on {st.config!r}: total of {IDs[wi]} was {tb[wi]!r}, is {ta[wi]!r} '
                        f'(branch {obs["branch"]}, T={obs["T"]}, P={obs["P"]})',
                        match=dict(m, branch=obs['branch']), residual=worst,
                        detail=dict(before={p: a.tolist() for p, a in before['flows'].items()},
                                    after={p: a.tolist() for p, a in after.items()}))
    for p, a in after.items():
        neg = a < -1e-12 * total
        if neg.any():
            i = int(np.argmin(a))
            raise Violation('negative-flow', f'{action!r} on {st.config!r}: {IDs[i]} in phase {p} = {a[i]!r}',
                            match=dict(m, branch=obs['branch'], phase=p), residual=float(-a[i] / total),
                            detail=dict(after={q: b.tolist() for q, b in after.items()}))
    if kind == 'vle':
        ch = s.chemicals
        pooled_before = before['flows'].get('g', 0.) + before['flows'].get('l', 0.)
        for i in ch._light_indices:
            if np.ndim(pooled_before) == 0: continue
            outside = float(after.get('l', np.zeros(ch.size))[i])
            if abs(outside) > 1e-12 * total:
                raise Violation('gas-locked-not-in-gas', f'{action!r} on {st.config!r}: {IDs[i]} (locked g) has {outside!r} in l',
                                match=m, detail=dict(after={q: b.tolist() for q, b in after.items()}))
        for i in ch._heavy_indices:
            ing = float(after.get('g', np.zeros(ch.size))[i])
            if abs(ing) > 1e-12 * total:
                raise Violation('condensed-locked-in-gas', f'{action!r} on {st.config!r}: {IDs[i]} (locked {ch.tuple[i].locked_state}) has {ing!r} in g',
                                match=m, detail=dict(after={q: b.tolist() for q, b in after.items()}))

# ----------------------------------------------------------------------------------------------------------------
# alphabets

T_VALS = (250., 300., 350., 400., 500.)
P_VALS = (1e4, 101325., 1e6, 5e6)
V_VALS = (0., 0.02, 0.5, 0.98, 1.)
F_VALS = (-0.1, 0., 0.3, 0.7, 1., 1.1)
X_VALS = (0.05, 0.3, 0.5, 0.7, 0.95)
VALS = {'T': T_VALS, 'P': P_VALS, 'V': V_VALS, 'H': F_VALS, 'S': F_VALS, 'x': X_VALS, 'y': X_VALS}
BASEV = {'T': 350., 'P': 101325., 'V': 0.5, 'H': 0.3, 'S': 0.3, 'x': 0.5, 'y': 0.5}
PAIRS = ('TP', 'TV', 'PV', 'PH', 'PS', 'TH', 'TS', 'Tx', 'Px', 'Ty', 'Py')

def vle_calls(binary):
    out = []
    for pair in PAIRS:
        if pair[1] in 'xy' and not binary: continue
        for v1 in VALS[pair[0]]:
            for v2 in VALS[pair[1]]:
                out.append(('vle', pair, v1, v2))
    return out

def vle_call_coords(a):
    return (a[1], a[2] == BASEV[a[1][0]], a[3] == BASEV[a[1][1]])

# ---- VLE grid -----------------------------------------------------------------------------------------------------

VLE_IDS = vc.package_ids('VLE')
VLE_GRID = Grid(
    'VLE', subsets(VLE_IDS), ('one', 'lo0', 'hi0'), ('one', 'lo0', 'hi0', 'lo-1', 'hi-1'),
    ('l', 'g', 'half', 'alt', 'Ls', 'Sl', 'Sg'),
    lambda cfg: vle_calls(n_volatile(cfg[0], cfg[1]) == 2), vle_call_coords,
    bases=[(('Water', 'Ethanol', 'N2', 'Glucose'), 'one', 'l', ('TP', True, True)),
           (('Water', 'Ethanol', 'Propanol'), 'lo0', 'half', ('PV', True, True)),
           (('Ethanol', 'Propanol'), 'hi0', 'Sl', ('PH', True, True))],
    seed_bases=[(('Water', 'N2'), 'one', 'g', ('TV', True, True)),
                (('Water', 'Ethanol', 'Propanol', 'N2', 'Glucose'), 'one', 'alt', ('PS', True, True)),
                (('Water',), 'one', 'Ls', ('TH', True, True)),
                (('Water', 'Propanol', 'Glucose'), 'hi0', 'half', ('TS', True, True))])

# ---- same chemicals, other package ORDER: locked gas first, locked solid in the middle, volatile chemicals after them ----------------
OVLE_IDS = vc.package_ids('OVLE')
OVLE_GRID = Grid(
    'OVLE', subsets(OVLE_IDS), ('one', 'lo0', 'hi0'), ('one', 'lo0', 'hi0'),
    ('l', 'half', 'Ls', 'Sl', 'g'),
    lambda cfg: vle_calls(n_volatile(cfg[0], cfg[1]) == 2), vle_call_coords,
    bases=[(('N2', 'Water', 'Glucose', 'Ethanol'), 'one', 'l', ('TP', True, True)),
           (('Water', 'Ethanol', 'Propanol'), 'lo0', 'half', ('PV', True, True)),
           (('Ethanol', 'Propanol'), 'hi0', 'Sl', ('PH', True, True))],
    seed_bases=[(('N2', 'Water'), 'one', 'g', ('TV', True, True)), (('N2', 'Water', 'Glucose', 'Ethanol', 'Propanol'), 'one', 'Ls', ('PS', True, True))])

# ---- VLE grid with a dissociating liquid-locked solute (N_solutes = 2) ---------------------------------------------------------------

SALT_IDS = vc.package_ids('SALT')
SALT_GRID = Grid(
    'SALT', [c for c in subsets(SALT_IDS) if 'NaCl' in c and any(x in c for x in ('Water', 'Ethanol', 'Propanol'))],
    ('one', 'big0', 'lo0'), ('one', 'big0', 'big1', 'lo0'),
    ('l', 'half', 'Sl', 'g'),
    lambda cfg: vle_calls(n_volatile(cfg[0], cfg[1]) == 2), vle_call_coords,
    bases=[(('Water', 'Ethanol', 'NaCl'), 'big0', 'l', ('PV', True, True)),
           (('Water', 'Ethanol', 'NaCl'), 'big0', 'Sl', ('TV', True, True)),
           (('Water', 'Ethanol', 'Propanol', 'NaCl', 'N2'), 'one', 'half', ('TP', True, True))],
    seed_bases=[(('Ethanol', 'Propanol', 'NaCl'), 'lo0', 'l', ('PH', True, True)), (('Water', 'NaCl'), 'one', 'l', ('PS', True, True))])

# ---- LLE / VLLE grid --------------------------------------------------------------------------------------------------

LL_IDS = vc.package_ids('LL')
LLE_T = (250., 300., 350., 400., 500.)

def lle_calls(cfg):
    comp = cfg[1]
    out = [('lle', 'T', T, None) for T in LLE_T]
    out += [('lle', 'TP', T, P) for T in (300., 350.) for P in (1e4, 1e6)]
    out += [('lle', 'Ttop', T, ID) for T in (300., 350.) for ID in comp]
    out += [('lle', 'Tnc', 300., None)]
    out += [('vlle', 'TP', T, P) for T in (300., 365., 400.) for P in (101325., 1e4)]
    return out

def lle_call_coords(a):
    return (a[0] + ':' + a[1], a[2] == 300., a[3] in (None, 101325.))

LLE_GRID = Grid(
    'LL', subsets(LL_IDS, 1, 4) + [tuple(LL_IDS)], ('one', 'lo0', 'hi0'), ('one', 'lo0', 'hi0', 'lo-1', 'hi-1'),
    ('l', 'L', 'lL', 'Sl', 'gl-L', 'g'),
    lle_calls, lle_call_coords,
    bases=[(('Water', '1-Butanol'), 'one', 'l', ('lle:T', True, True)),
           (('Water', 'Octanol', 'Ethanol'), 'one', 'lL', ('lle:Ttop', True, True)),
           (('Water', 'EthylAcetate', 'Hexane', 'Ethanol'), 'lo0', 'Sl', ('vlle:TP', True, True))],
    seed_bases=[(('Water', 'Hexane'), 'hi0', 'L', ('lle:TP', True, True)),
                (('1-Butanol', 'Octanol'), 'one', 'gl-L', ('lle:Tnc', True, True))])

# ---- SLE grid -----------------------------------------------------------------------------------------------------------

SLE_IDS = vc.package_ids('SLE')
SOLUTES = ('Tetradecanol', 'Glucose')
SLE_T = (250., 300., 320., 350., 450.)
SOLUB = (0., 0.0833, 0.5, 1.)

def sle_calls(cfg):
    comp = cfg[1]
    out = []
    for sol in SOLUTES:
        for T in SLE_T:
            out.append(('sle', 'T', sol, T))
        for T in (300., 350.):
            for x in SOLUB:
                out.append(('sle', 'Tx', sol, T, x))
        # solubility relative to the mole fraction at COMPLETE dissolution of all the solute present (liquid + solid): below, at, just above, far above
        for r in SOLUB_REL:
            out.append(('sle', 'Txr', sol, 300., r))
    return out
SOLUB_REL = (0.5, 0.98, 1.0, 1.02, 1.5)

def sle_call_coords(a):
    return (a[1], a[2], a[3] == 300., (a[4] in (0.0833, 1.0)) if len(a) > 4 else True)

SLE_GRID = Grid(
    'SLE', [c for c in subsets(SLE_IDS) if any(x in c for x in SOLUTES)], ('one', 'lo-1', 'hi-1'), ('one', 'lo0', 'hi0', 'lo-1', 'hi-1'),
    ('l', 'ls', 'Sl', 'half', 'sS', 'sH'),
    sle_calls, sle_call_coords,
    bases=[(('Water', 'Glucose'), 'one', 'l', ('T', 'Glucose', True, True)),
           (('Water', 'Glucose'), 'one', 'sS', ('Txr', 'Glucose', True, True)),
           (('Methanol', 'Ethanol', 'Tetradecanol'), 'one', 'sH', ('Txr', 'Tetradecanol', True, True)),
           (('Methanol', 'Tetradecanol'), 'one', 'ls', ('T', 'Tetradecanol', True, True)),
           (('Water', 'Methanol', 'Ethanol', 'Tetradecanol', 'Glucose'), 'one', 'l', ('Tx', 'Glucose', True, True))],
    max_dev=2)

# the same grid on the ideal variant of the package: with IdealActivityCoefficients the computed-solubility path is a single-shot update
SLEI_GRID = Grid(
    'SLEi', [c for c in subsets(SLE_IDS) if any(x in c for x in SOLUTES)], ('one', 'lo-1', 'hi-1'), ('one', 'lo0', 'hi0', 'lo-1', 'hi-1'),
    ('l', 'Sl', 'sS', 'sH'),
    sle_calls, sle_call_coords,
    bases=[(('Water', 'Glucose'), 'one', 'sS', ('T', 'Glucose', True, True)),
           (('Methanol', 'Tetradecanol'), 'one', 'sH', ('T', 'Tetradecanol', True, True)),
           (('Water', 'Methanol', 'Ethanol', 'Tetradecanol', 'Glucose'), 'one', 'l', ('Txr', 'Glucose', True, True))],
    max_dev=2)

class TwoGrids:
    def __init__(self, *grids): self.grids = {g.pkg: g for g in grids}
    def enum_configs(self, system, tier, seed):
        return [c for g in self.grids.values() for c in g.enum_configs(system, tier, seed)]
    def enum_actions(self, system, st):
        return self.grids[st.config[0]].enum_actions(system, st)
SLE_BOTH = TwoGrids(SLE_GRID, SLEI_GRID)

# ---- the other VLE solver method ('shgo': Gibbs energy minimisation) on a reduced grid incl. non-condensable gas ---------------------------
SHGO = ('opts', (('vle_method', 'shgo'),))
# explicit flows: the non-condensable gas is a SMALL part of the stream in most cases (a large gas flow vaporises everything and the
# solver is never asked for a split in which one volatile chemical is almost completely in the vapour)
METHOD_COMPS_Q = [(('Water', 'Ethanol', 'N2'), (3., 1., 0.5)), (('Water', 'Ethanol', 'N2', 'Glucose'), (3., 1., 0.5, 0.2)), (('Water', 'Ethanol'), (1., 1.)),
                  (('Ethanol', 'Propanol', 'N2'), (1., 1., 0.1)), (('Water', 'Ethanol', 'Propanol', 'N2', 'Glucose'), (1., 1., 1., 0.3, 0.3)), (('Water', 'Ethanol', 'N2'), (1., 1., 1.))]
METHOD_CALLS_Q = [('vle', 'TP', 350., 101325.), ('vle', 'TP', 361., 101325.), ('vle', 'TP', 400., 1e6), ('vle', 'PV', 101325., 0.5), ('vle', 'PV', 101325., 0.8),
                  ('vle', 'PV', 101325., 0.98), ('vle', 'TV', 350., 0.5), ('vle', 'TV', 355., 0.8), ('vle', 'PH', 101325., 0.3), ('vle', 'PH', 101325., 0.7), ('vle', 'PS', 101325., 0.3)]
def method_configs(system, tier, seed):
    out = []
    if tier == 'quick':
        for c, f in METHOD_COMPS_Q:
            for dist in ('l', 'half'):
                out.append(('VLE', c, f, dist, SHGO))
    else:
        locked = vc.locked_of('VLE')
        for c in subsets(VLE_IDS):
            if n_volatile('VLE', c) < 2: continue
            for lock_flow in ((0.1, 1.0) if any(i in locked for i in c) else (1.0,)):
                for first in (1., 3.):
                    f = tuple((lock_flow if i in locked else 1.) for i in c)
                    f = (first * f[0],) + f[1:] if c[0] not in locked else f
                    for dist in ('l', 'Sl'):
                        cfg = ('VLE', c, f, dist, SHGO)
                        if cfg not in out: out.append(cfg)
    k = seed % len(out)
    return out[k:] + out[:k]
def method_actions(system, st):
    if st.n_calls >= 1: return []
    if system.tier == 'quick': return list(METHOD_CALLS_Q)
    out = []
    V = {'T': (300., 350., 355., 361., 400.), 'P': (1e4, 101325., 1e6), 'V': (0.02, 0.5, 0.8, 0.98), 'H': (0., 0.3, 0.7, 1.), 'S': (0., 0.3, 0.7, 1.)}
    for pair in ('TP', 'TV', 'PV', 'PH', 'PS'):
        for a in V[pair[0]]:
            for b in V[pair[1]]: out.append(('vle', pair, a, b))
    return out

# ---- vlle with vapour and a SINGLE liquid (at most one LLE-capable chemical + light gas), incl. the constructor flag vlle=True ------------
def vlle_calls(cfg):
    out = [('vlle', 'TP', T, P) for T in (300., 320., 350., 365., 380.) for P in (101325., 1e4)]
    out += [('ctor', k, T, 101325.) for k in ('S', 'M') for T in (300., 320., 365.)]
    return out
def vlle_call_coords(a):
    return (a[0] + ':' + a[1], a[2] == 300., a[3] == 101325.)
VLLE_GRIDS = TwoGrids(
    Grid('VLE', [c for c in subsets(VLE_IDS) if sum(1 for i in c if i in ('Water', 'Ethanol', 'Propanol')) <= 2], ('one', 'hi0'), ('one', 'hi0'),
         ('l', 'half', 'g', 'Sl', 'gl-L'), vlle_calls, vlle_call_coords,
         bases=[(('Water', 'N2'), 'one', 'l', ('vlle:TP', True, True)), (('Water', 'Ethanol', 'N2', 'Glucose'), 'one', 'half', ('ctor:S', True, True)),
                (('Water', 'N2', 'Glucose'), 'one', 'g', ('ctor:M', True, True))], max_dev=1),
    Grid('VL3', subsets(vc.package_ids('VL3')), ('one', 'hi0'), ('one', 'hi0', 'lo-1'),
         ('l', 'half', 'g', 'Sl', 'gl-L'), vlle_calls, vlle_call_coords,
         bases=[(('Water', 'N2'), 'one', 'l', ('vlle:TP', True, True)), (('Water', 'Octane', 'N2'), 'one', 'gl-L', ('ctor:M', True, True)),
                (('Ethanol', 'N2'), 'hi0', 'Sl', ('vlle:TP', True, True))], max_dev=1))

# ---- LLE warm-start cache with enlarged tolerances: binary pairs, second call inside the tolerance but outside the two-liquid envelope ----
LLC_PAIRS = [(('Water', '1-Butanol'), (1., 0.05)), (('Water', 'EthylAcetate'), (1., 0.04)), (('Water', 'Octanol'), (1., 0.05)), (('Hexane', 'Ethanol'), (1., 0.3)),
             (('Water', '1-Butanol'), (0.3, 1.))]
LLC_OPTS = [('opts', (('lle_ctol', 0.05),)), ('opts', (('lle_ctol', 0.05), ('lle_ttol', 30.))), ('opts', ()), ('opts', (('lle_ctol', 0.5), ('lle_ttol', 100.)))]
def llc_configs(system, tier, seed):
    pairs = LLC_PAIRS[:2] if tier == 'quick' else LLC_PAIRS
    opts = LLC_OPTS[:2] if tier == 'quick' else LLC_OPTS
    out = [('LL', c, f, dist, o) for c, f in pairs for o in opts for dist in (('l',) if tier == 'quick' else ('l', 'lL'))]
    k = seed % len(out)
    return out[k:] + out[:k]
def llc_actions(system, st):
    comp = st.config[1]
    calls = [('lle', 'T', 298.15, None), ('lle', 'T', 320., None), ('lle', 'Ttop', 298.15, comp[0])]
    out = list(calls)
    if st.extra.get('last_kind') not in (None, 'edit'):
        fs = (0.2, 5.0) if system.tier == 'quick' else (0.2, 0.5, 2.0, 5.0)
        out += [('edit', comp[1], f) for f in fs]
        if system.tier != 'quick': out += [('edit', comp[0], 0.5), ('edit', comp[0], 2.0)]
    return out

# ---- reactive flash followed by plain flashes ---------------------------------------------------------------------------------------------
REACT_CONFIGS = [('RX', ('Water', 'Ethanol', 'LacticAcid'), (1., 5., 1.), 'Sl'), ('RX', ('EthylLactate', 'LacticAcid', 'Water', 'Ethanol'), (0.5, 1., 1., 3.), 'l'),
                 ('RX', ('Water', 'Ethanol', 'LacticAcid'), (2., 2., 2.), 'half')]
REACT_PLAIN = [('vle', 'TP', 362., 101325.), ('vle', 'PV', 101325., 0.4), ('vle', 'TP', 358., 101325.), ('vle', 'TV', 360., 0.5), ('vle', 'PH', 101325., 0.5)]
REACT_RX = [('vle', 'TPl', 360., 101325.), ('vle', 'TPg', 365., 101325.)]
def react_configs(system, tier, seed):
    c = REACT_CONFIGS[:2] if tier == 'quick' else REACT_CONFIGS
    k = seed % len(c)
    return c[k:] + c[:k]
def react_actions(system, st):
    plain = REACT_PLAIN[:3] if system.tier == 'quick' else REACT_PLAIN
    return list(plain) + list(REACT_RX)

# ---- histories ----------------------------------------------------------------------------------------------------------------

HIS_CONFIGS_Q = [
    ('HIS', ('Water', 'Ethanol', 'Octanol', 'N2', 'Glucose'), 'one', 'l'),
    ('HIS', ('Water', 'Octanol'), 'one', 'half'),
    ('HIS', ('Water', 'Ethanol', 'Tetradecanol'), 'lo0', 'l'),
    ('VLE', ('Water', 'Ethanol', 'Propanol', 'N2', 'Glucose'), 'one', 'alt'),
    ('VLE', ('Water', 'Ethanol'), 'one', 'Sl'),
    ('VLE', ('Ethanol',), 'one', 'l'),
]
HIS_CONFIGS_T = HIS_CONFIGS_Q + [
    ('HIS', ('Water', 'Ethanol', 'Octanol', 'Tetradecanol', 'N2', 'Glucose'), 'hi0', 'Ls'),
    ('HIS', ('Ethanol', 'Octanol', 'N2'), 'one', 'g'),
    ('VLE', ('Water', 'Propanol', 'Glucose'), 'lo0', 'half'),
    ('VLE', ('Water', 'N2'), 'one', 'g'),
]

# 30-call alphabet (thorough depth 2); the first 12 form the quick depth-2 alphabet, the first 8 the thorough depth-3 one.
# Chosen so that T, P, V and the specification pair move both up and down between consecutive calls and so that every
# solver (VLE / LLE / SLE) is followed by every other.
HIS_CALLS = [
    ('vle', 'TP', 350., 101325.), ('vle', 'PV', 101325., 0.5), ('vle', 'PH', 101325., 0.3), ('lle', 'T', 300., None),
    ('vle', 'TV', 350., 0.02), ('vle', 'TP', 400., 1e6), ('vle', 'PS', 1e4, 0.7), ('sle', 'T', 'Tetradecanol', 300.),
    ('vle', 'TP', 300., 101325.), ('vle', 'TH', 350., 0.7), ('vle', 'PV', 1e6, 0.98), ('lle', 'Ttop', 350., 'Water'),
    ('vle', 'TP', 500., 1e4), ('vle', 'TP', 250., 5e6), ('vle', 'PV', 101325., 0.), ('vle', 'PV', 101325., 1.),
    ('vle', 'TV', 300., 0.98), ('vle', 'PH', 1e6, -0.1), ('vle', 'PH', 1e4, 1.1), ('vle', 'PS', 101325., 0.3),
    ('vle', 'TS', 350., 0.3), ('vle', 'TH', 300., 0.3), ('vle', 'Px', 101325., 0.7), ('vle', 'Ty', 350., 0.3),
    ('lle', 'T', 350., None), ('lle', 'Tnc', 300., None), ('sle', 'Tx', 'Tetradecanol', 300., 0.0833), ('sle', 'T', 'Tetradecanol', 350.),
    ('vlle', 'TP', 350., 101325.), ('lle', 'TP', 320., 1e6),
]

def his_enum_configs(system, tier, seed):
    c = HIS_CONFIGS_Q if tier == 'quick' else HIS_CONFIGS_T
    k = seed % len(c)
    return c[k:] + c[:k]

# 'refill' = the user empties the stream and fills it with another subset of the package (same number of volatile chemicals /
# another number); the cached VLE / LLE / SLE objects stay on the stream.  Never first, never twice in a row.
HIS_REFILLS = {
    'VLE': [(('Ethanol', 'Propanol'), (1., 1.)), (('Water', 'Ethanol', 'Propanol', 'N2'), (1., 1., 1., 0.5)), (('Water', 'Propanol', 'Glucose'), (1., 2., 0.5))],
    'HIS': [(('Ethanol', 'Octanol'), (1., 1.)), (('Water', 'Ethanol', 'Octanol', 'N2', 'Glucose'), (1., 1., 1., 0.5, 0.5)), (('Water', 'Octanol', 'Tetradecanol'), (2., 1., 0.5))],
}

def _his_actions(n_q, n_t):
    def f(system, st):
        n = n_q if system.tier == 'quick' else n_t
        out = []
        if st.extra.get('last_kind') not in (None, 'refill'):
            nr = 2 if system.tier == 'quick' else 3
            out += [('refill', c, fl) for c, fl in HIS_REFILLS[st.config[0]][:nr]]
        IDs = st.s.chemicals.IDs
        for a in HIS_CALLS[:n]:
            if a[0] == 'sle' and a[2] not in IDs: continue
            if a[0] == 'vle' and 'S' in a[1]:
                present = [IDs[i] for i, x in enumerate(vc.totals(st.s)) if x]
                if not vc.entropy_ok_for(st.config[0], present): continue
            if a[0] == 'lle' and a[1] == 'Ttop' and a[3] not in IDs: continue
            if a[0] == 'vle' and a[1][1] in 'xy':
                vol, light, heavy, tot = vc.classify(st)
                if len(vol) != 2: continue
            out.append(a)
        return out
    return f

SLE_HIS_CONFIGS = [
    ('SLE', ('Water', 'Glucose'), 'one', 'l'), ('SLE', ('Methanol', 'Tetradecanol'), 'one', 'ls'),
    ('SLE', ('Tetradecanol',), 'one', 'l'), ('SLE', ('Water', 'Ethanol', 'Tetradecanol', 'Glucose'), 'lo0', 'Sl'),
    ('SLE', ('Water', 'Methanol', 'Ethanol', 'Tetradecanol', 'Glucose'), 'hi-1', 'l'), ('SLE', ('Ethanol', 'Glucose'), 'hi0', 'ls'),
]
def sle_his_configs(system, tier, seed):
    k = seed % len(SLE_HIS_CONFIGS)
    return SLE_HIS_CONFIGS[k:] + SLE_HIS_CONFIGS[:k]
def sle_his_actions(system, st):
    return sle_calls(st.config)

# ---- small edits between identical calls ---------------------------------------------------------------------------------------------
# A large two-liquid / two-phase bulk with a TRACE chemical.  Actions: identical calls; 'edit' = multiply the trace chemical's flow
# (every mole fraction moves by < 1e-5, i.e. inside LLE's composition_cache_tolerance and below every solver tolerance);
# 'scale' = multiply all flows in place (composition identical, magnitude changed).  First action is a call, never two non-call
# actions in a row.  The cached LLE / VLE / SLE objects keep what they remember from the first call.
TRACE = {
    ('LL', ('Water', 'Octanol', 'Ethanol'), (500., 500., 8e-3), 'l'):
        ([('lle', 'T', 300., None), ('lle', 'T', 350., None), ('lle', 'Ttop', 300., 'Octanol'), ('lle', 'TP', 300., 1e6), ('vlle', 'TP', 365., 101325.)], 'Ethanol'),
    ('LL', ('Water', 'Hexane', '1-Butanol'), (500., 500., 8e-3), 'lL'):
        ([('lle', 'T', 300., None), ('lle', 'T', 350., None), ('lle', 'Ttop', 300., 'Water')], '1-Butanol'),
    ('VLE', ('Water', 'Propanol', 'Ethanol', 'N2', 'Glucose'), (500., 500., 8e-3, 5., 5.), 'l'):
        ([('vle', 'TP', 362., 101325.), ('vle', 'PV', 101325., 0.5), ('vle', 'TV', 362., 0.5), ('vle', 'PH', 101325., 0.3)], 'Ethanol'),
    ('SALT', ('Water', 'Ethanol', 'Propanol', 'NaCl'), (500., 40., 8e-3, 40.), 'l'):
        ([('vle', 'TP', 375., 101325.), ('vle', 'PV', 101325., 0.5), ('vle', 'TV', 375., 0.9), ('vle', 'PV', 3e5, 0.9)], 'Propanol'),
    ('SLE', ('Water', 'Glucose', 'Ethanol'), (1000., 400., 8e-3), 'l'):
        ([('sle', 'T', 'Glucose', 300.), ('sle', 'T', 'Glucose', 320.), ('sle', 'Tx', 'Glucose', 300., 0.0833)], 'Ethanol'),
}
def trace_configs(system, tier, seed):
    c = list(TRACE)
    k = seed % len(c)
    return c[k:] + c[:k]
def trace_actions(system, st):
    calls, trace = TRACE[st.config]
    if system.tier == 'quick': calls = calls[:3]
    out = list(calls)
    if st.extra.get('last_kind') not in (None, 'edit', 'scale'):
        out += [('edit', trace, 0.125), ('edit', trace, 4.0), ('scale', 2.0), ('scale', 0.5)]
        if system.tier != 'quick': out += [('scale', 3.0), ('edit', trace, 0.999)]
    return out

def describe_grid(grid):
    def d(tier):
        return dict(package=grid.pkg, compositions=len(grid.comps), magnitudes=list(grid.mags_q if tier == 'quick' else grid.mags_t),
                    distributions=list(grid.dists), bound=('deviation<=%d from base points' % grid.max_dev) if tier == 'quick' else 'full product')
    return d

SYSTEMS = [
    FlashSystem('c03.vle.grid', VLE_GRID.enum_configs, VLE_GRID.enum_actions, oracle, 1, 1, describe=describe_grid(VLE_GRID)),
    FlashSystem('c03.order.grid', OVLE_GRID.enum_configs, OVLE_GRID.enum_actions, oracle, 1, 1, describe=describe_grid(OVLE_GRID)),
    FlashSystem('c03.salt.grid', SALT_GRID.enum_configs, SALT_GRID.enum_actions, oracle, 1, 1, describe=describe_grid(SALT_GRID)),
    FlashSystem('c03.lle.grid', LLE_GRID.enum_configs, LLE_GRID.enum_actions, oracle, 1, 1, describe=describe_grid(LLE_GRID)),
    FlashSystem('c03.sle.grid', SLE_BOTH.enum_configs, SLE_BOTH.enum_actions, oracle, 1, 1,
                describe=lambda tier: dict(packages=['SLE (Dortmund)', 'SLEi (ideal activity coefficients)'], **describe_grid(SLE_GRID)(tier))),
    FlashSystem('c03.method.grid', method_configs, method_actions, oracle, 1, 1,
                describe=dict(package='VLE', vle_method='shgo', compositions='quick 6 explicit (N2 1-33 % of the stream, with / without Glucose); thorough every subset with >= 2 volatile chemicals x locked members at 0.1 / 1 x first chemical x1 / x3 x {l, Stream l}',
                              calls='quick 10; thorough TP/TV/PV/PH/PS on T {300,350,361,400}, P {1e4,101325,1e6}, V {.02,.5,.8,.98}, fractions {0,.3,.7,1}')),
    FlashSystem('c03.vlle.grid', VLLE_GRIDS.enum_configs, VLLE_GRIDS.enum_actions, oracle, 1, 1,
                describe=lambda tier: dict(packages=['VLE (N2 gas-locked, Glucose solid-locked; <= 2 of the volatile chemicals)', 'VL3 = (Water, Ethanol, Octane, N2) without locks'],
                                           calls='vlle(T,P) T {300,320,350,365,380} x P {101325,1e4}; Stream(..., vlle=True) and MultiStream(..., vlle=True) built from the current totals, T {300,320,365}',
                                           bound='deviation<=1 from base points' if tier == 'quick' else 'full product')),
    FlashSystem('c03.lle.cache', llc_configs, llc_actions, oracle, 3, 3,
                describe=dict(package='LL', what='binary pairs; LLE.composition_cache_tolerance / temperature_cache_tolerance enlarged (0.05 / 30 K; thorough also default and 0.5 / 100 K); '
                              'lle calls at 298.15 / 320 K separated by edits of one chemical (x0.2, x5; thorough x0.5, x2 and the major chemical)',
                              rule='first action is a call; never two edits in a row')),
    FlashSystem('c03.react', react_configs, react_actions, oracle, 3, 3,
                describe=dict(package='RX = (EthylLactate, LacticAcid, Water, Ethanol)', alphabet='plain TP / PV / TV / PH calls + vle(T,P, liquid_conversion=) + vle(T,P, gas_conversion=) '
                              '(LacticAcid + Ethanol -> Water + EthylLactate, X = 0.2); the reactive call itself is not judged, every later plain call is')),
    FlashSystem('c03.sle.hist', sle_his_configs, sle_his_actions, oracle, 2, 3,
                describe=dict(alphabet='all 26 sle calls (2 solutes x (5 T + 2 T x 4 solubilities))', configurations='SLE_HIS_CONFIGS')),
    FlashSystem('c03.trace', trace_configs, trace_actions, oracle, 3, 3,
                describe=dict(alphabet='3 (quick) / all identical calls per configuration + edit of a trace flow (x0.125, x4, t: x0.999) + in-place scaling (x2, x0.5, t: x3)',
                              configurations='TRACE: bulk 1000 kmol/hr + trace 8e-3 kmol/hr on LL, VLE, SALT, SLE',
                              rule='first action is a call; never two non-call actions in a row')),
    FlashSystem('c03.hist2', his_enum_configs, _his_actions(12, 30), oracle, 2, 2,
                describe=dict(alphabet='first 12 (quick) / all 30 (thorough) calls of HIS_CALLS + 2 / 3 refills with another chemical subset', configurations='HIS_CONFIGS')),
    FlashSystem('c03.hist3', his_enum_configs, _his_actions(5, 8), oracle, 3, 3,
                describe=dict(alphabet='first 5 (quick) / first 8 (thorough) calls of HIS_CALLS + 2 / 3 refills with another chemical subset', configurations='HIS_CONFIGS')),
]
