"""
C20 — the stream-level separation helpers close the material balance and meet their targets.

One small system per helper family of `thermosteam.separations`; every system is an exhaustive
grid (depth 1: fresh outlets) plus a history layer (depth 2-3: the helper re-applied to its own
outlets / to outlets that still hold the previous result, as happens in a flowsheet loop).
The reference model is plain NumPy on dense per-chemical arrays read back from the streams
(`mol.to_array()`), with the expected result computed independently from the inputs.
"""
from __future__ import annotations
import itertools, warnings, signal
import numpy as np
from mc.engine import System, Violation, Rejected, HarnessError
from mc import fixtures as fx

PROPERTY = 'C20'
RULE = ('Depth-1 grids: every combination of (feed vectors over the dyadic alphabet {0, 0.375, 1, 2.5} with 1-6 non-zero chemicals) x (helper '
        'arguments: split scalars/vectors over {0, 0.25, 1}; K in {1e-3, 0.5, 1, 2, 1e3}^k with forced top / bottom chemicals and strict; moisture in '
        '{0.05, 0.5, 0.95} x sufficient / insufficient water x strict x ID form x single / multi-phase streams; VLE specifications; LLE efficiencies; phase '
        'sets; 2x2 and 3x3 invertible inlet matrices x every order of chemical_IDs x 0-2 constant inlets x both balance modes).  History layers: the same helpers applied 2-3 times in a row to the SAME outlet '
        'objects (and to their own outlets as inlets).  A case is non-trivial when material really moved: >= 2 inlets overlapping on a chemical, both '
        'outlets non-empty, water transferred, two phases returned, >= 2 non-empty phases split, all scale factors != 1.')
ASSUMPTIONS = [
    'all streams of one case share one property package (6 chemicals: Water, Ethanol, Methanol, Glucose[locked s], Octanol, Hexane; VLE: Water, Ethanol, Propanol, N2[g], Glucose[s]; '
    'LLE: Water, Ethanol, Octanol, Hexane); feeds hold 1-6 non-zero chemicals',
    'numeric clauses are decided on the stated grids only; nothing is claimed between grid points',
    'documented rejections (InfeasibleRegion, the RuntimeError of phase_split for a wrong number of outlets, solver non-convergence) are counted, not violations; '
    'InfeasibleRegion must be raised when and only when the independent model says the request is infeasible (moisture) ',
    'adjust_moisture_content: insufficient water with strict=False is the helper\'s infeasibility-handling branch: no infeasibility is reported, so balance and non-negativity are demanded; '
    'the moisture target is demanded only with sufficient water; with water in a non-liquid phase of a multi-phase retentate only the balance is demanded',
    'partition: the K clause is demanded when both outlet streams are non-empty: top_i / bottom_i / K_i is the same number for all partitioning chemicals present in the feed; '
    'without forced chemicals additionally y_i / x_i == K_i with y, x normalised over the partitioning chemicals',
    'material_balance: outlet targets are constructed as positive combinations of the variable inlets (feasible, positive factors); flow mode: in - out == 0 on the chosen chemicals, '
    'composition mode: net inlet composition == net outlet composition on the chosen chemicals',
    'chemical_splits needs the default thermo of settings (ChemicalIndexer.from_data); the harness sets it to the package of the case',
]
TOLERANCES = dict(exact_rtol=1e-12, moisture_rel=1e-9, K_ratio_rel=1e-8, K_normalised_rel=1e-5, equilibrium_balance_rtol=1e-9,
                  negative_flow=-1e-12, material_balance_rtol=1e-9, composition_balance_atol=1e-4)

PK6 = ('Water', 'Ethanol', 'Methanol', 'Glucose', 'Octanol', 'Hexane')
MW_WATER = 18.01528


def th6(): return fx.custom_thermo(PK6, locked={'Glucose': 's'})
def thV(): return fx.thermo('VLE')
def thL(): return fx.custom_thermo(('Water', 'Ethanol', 'Octanol', 'Hexane'))


def arr(s):
    """total molar flow per chemical (dense)"""
    tmo = fx.tmo()
    if isinstance(s, tmo.MultiStream):
        return np.asarray(s.imol.data.to_array(), float).sum(axis=0)
    return np.asarray(s.mol.to_array(), float)

def phase_arrays(s):
    tmo = fx.tmo()
    if isinstance(s, tmo.MultiStream):
        return {p: np.asarray(s.imol.data.rows[i].to_array(), float) for i, p in enumerate(s.imol._phases)}
    return {s.phase: np.asarray(s.mol.to_array(), float)}

def close(a, b, rtol=1e-12, scale=None):
    a = np.asarray(a, float); b = np.asarray(b, float)
    sc = max(1.0, float(np.max(np.abs(b))) if b.size else 1.0) if scale is None else scale
    return bool(np.all(np.abs(a - b) <= rtol * sc)) and not np.isnan(a).any()

def has_negative(a, total=None):
    a = np.asarray(a, float)
    tot = max(1.0, float(np.abs(a).sum())) if total is None else max(1.0, total)
    return bool(np.any(a < -1e-12 * tot)) or bool(np.isnan(a).any())


class _Timeout(Exception): pass
def _alarm(signum, frame): raise _Timeout()

def guarded(f, seconds=20):
    """run f(); a call that does not return within `seconds` is reported as non-termination"""
    old = signal.signal(signal.SIGALRM, _alarm)
    signal.setitimer(signal.ITIMER_REAL, seconds)
    try:
        return f()
    finally:
        signal.setitimer(signal.ITIMER_REAL, 0)
        signal.signal(signal.SIGALRM, old)


LIB_ERRSTATE = dict(divide='raise', over='warn', under='ignore', invalid='raise')    # what `import thermosteam` installs (checked in warm)
UNDOCUMENTED = (TypeError, IndexError, AttributeError, KeyError, UnboundLocalError, NameError, ZeroDivisionError, AssertionError)

def call(helper, f, match, allowed=()):
    """run the real helper; classify exceptions (BUILDING.md)"""
    tmo = fx.tmo()
    from thermosteam.exceptions import InfeasibleRegion
    try:
        with warnings.catch_warnings():
            warnings.simplefilter('ignore')
            with np.errstate(**LIB_ERRSTATE):
                return guarded(f)
    except InfeasibleRegion as e:
        return ('infeasible', str(e))
    except _Timeout:
        raise Violation('no-termination', f'{helper} did not return within 20 s', match=dict(match, helper=helper))
    except allowed as e:
        raise Rejected(f'{helper}:{type(e).__name__}', cut=True)
    except Exception as e:
        doc = not isinstance(e, UNDOCUMENTED) and type(e).__name__ in ('NoEquilibrium', 'DomainError', 'NotImplementedError')
        if doc: raise Rejected(f'{helper}:{type(e).__name__}', cut=True)
        raise Violation('unexpected-exception', f'{helper} raised {type(e).__name__}: {e}',
                        match=dict(match, helper=helper, exc=type(e).__name__))


class Base(System):
    nontrivial_per_config = True
    def __init__(self, name, depth_q=1, depth_t=1):
        self.name = name; self._dq = depth_q; self._dt = depth_t
    _tier = 'thorough'
    def configs(self, tier, seed):
        self._tier = tier            # set in the master before the worker pool is forked; actions() widens the alphabets for the thorough tier
        cfgs = list(self._configs(tier))
        k = seed % len(cfgs) if cfgs else 0
        return cfgs[k:] + cfgs[:k]
    def warm(self):
        th6(); thV(); thL()
        fx.tmo().settings.set_thermo(th6())
        if np.geterr() != LIB_ERRSTATE: raise HarnessError(f'numpy error state after importing thermosteam is {np.geterr()}, the harness assumes {LIB_ERRSTATE}')
    def reset_globals(self): fx.reset_globals()
    def depth(self, tier): return self._dq if tier == 'quick' else self._dt
    def canon(self, st):
        ids = {}
        return (st.cfg,) + tuple((k, fx.stream_digest(s, ids)) for k, s in sorted(st.S.items()))
    def build(self, config):
        st = self._build(config); st.cfg = config
        return st
    def step(self, st, a):
        # the oracle's own arithmetic runs with numpy warnings off; the library call runs under the error state the library installed (see `call`)
        old = np.geterr()
        np.seterr(all='ignore')
        try: return self._step(st, a)
        finally: np.seterr(**old)
    def nontrivial(self, st, a, obs): return bool(obs and obs[-1] == 'nt')
    def outcome(self, st, a, obs): return repr(obs)[:120]


class St:
    pass


# ======================================================================================================
# mix_and_split

VEC3 = [(0, 0, 0), (1, 0, 0), (0, 2.5, 0.375), (1, 2.5, 0.375), (0.375, 1, 0), (2.5, 2.5, 2.5)]
VEC6 = [(0,) * 6, (1, 0, 0, 0, 0, 0), (0, 0, 0, 2.5, 0, 0), (1, 2.5, 0, 0, 0, 0), (0, 0.375, 1, 0, 2.5, 0), (1, 1, 1, 1, 0, 0),
        (2.5, 0.375, 1, 1, 0.375, 0), (1, 2.5, 0.375, 1, 2.5, 0.375)]
TS = (298.15, 330.0)

def split_menu(n, tier):
    out = [('s', 0.0), ('s', 0.25), ('s', 1.0)]
    if n <= 3:
        out += [('v', v) for v in itertools.product((0.0, 0.25, 1.0), repeat=n)]
    else:
        base = (0.25,) * n
        seen = set()
        for i in range(n):
            for j in range(i, n):
                for vi in (0.0, 0.25, 1.0):
                    for vj in (0.0, 0.25, 1.0):
                        v = list(base); v[i] = vi; v[j] = vj; v = tuple(v)
                        if v not in seen: seen.add(v); out.append(('v', v))
    return out


class MixSplit(Base):
    """config = (n chemicals used, outlets 'fresh'|'dirty'); action = ('ms', inlets, split)
    inlet = ('new', vector index, T index) | ('top',) | ('bottom',)"""
    def __init__(self, name, hist=False, phases=False, **kw):
        super().__init__(name, **kw); self.hist = hist; self.phases = phases

    def _configs(self, tier):
        if self.phases: return [(3,)]           # Water / Ethanol / Methanol: the package that flashes
        return [(3,), (6,), (1,)]

    def _build(self, config):
        tmo = fx.tmo(); th = th6()
        st = St(); st.n = config[0]; st.th = th
        st.S = dict(top=tmo.Stream(None, thermo=th), bottom=tmo.Stream(None, thermo=th))
        st.tier = None
        return st

    def _vecs(self, n):
        if n == 1: return [(0,), (1,), (2.5,), (0.375,)]
        return VEC3 if n == 3 else VEC6

    def actions(self, st):
        n = st.n
        vecs = self._vecs(n)
        splits = split_menu(n, None)
        acts = []
        if not self.hist:
            news = [('new', i, i % 2) for i in range(len(vecs))]
            for k in (1, 2, 3):
                if k == 3 and n != 3 and self._tier == 'quick':
                    # all pairs of deviations from a base triple
                    combos = set()
                    base = (news[3 % len(news)],) * 3
                    for i in range(3):
                        for j in range(i, 3):
                            for x in news:
                                for y in news:
                                    c = list(base); c[i] = x; c[j] = y; combos.add(tuple(c))
                    combos = sorted(combos)
                else:
                    combos = list(itertools.product(news, repeat=k))
                for c in combos:
                    for sp in splits: acts.append(('ms', c, sp))
        else:
            news = [('new', i, i % 2) for i in (1, 3 % len(vecs), (len(vecs) - 1))]
            inl = [(('top',), ('bottom',)), (('bottom',), ('top',)), (('top',),), (('bottom',),)]
            inl += [(x,) for x in news] + [(('top',), x) for x in news] + [(x, ('bottom',)) for x in news] + [(news[0], ('top',), ('bottom',))]
            # several fresh liquid inlets (no outlet among them), and - where the package flashes (Water / Ethanol / Methanol) - a two-phase inlet alone, with an
            # empty stream and with a liquid: the phase set of the inlets GROWS and SHRINKS between consecutive calls on the same outlets
            if self.phases:
                # the inlet phase set GROWS and SHRINKS between consecutive calls on the same outlets: a two-phase (flashed) inlet alone / with an empty stream /
                # with a liquid / with the previous top, against one, two and three fresh liquid inlets and the outlets themselves
                fl = ('flashed', 3, 0); empty = ('new', 0, 0)
                inl = [(fl,), (fl, news[0]), (news[0], news[2]), (news[1],), (('top',), ('bottom',))]
                if self._tier == 'thorough':
                    inl += [(fl, empty), (('top',), fl), (news[2], news[1], news[0]), (('top',), news[0]), (news[0], ('bottom',))]
            sps = [('s', 0.25), ('s', 1.0), ('s', 0.0), ('v', tuple((0.0, 0.25, 1.0)[i % 3] for i in range(n)))]
            for c in inl:
                for sp in sps: acts.append(('ms', c, sp))
        return acts

    def _step(self, st, a):
        tmo = fx.tmo(); sep = tmo.separations
        _, inl, sp = a
        n = st.n; vecs = self._vecs(n)
        N = len(PK6)
        ins = []; new_before = []
        for d in inl:
            if d[0] in ('new', 'flashed'):
                v = vecs[d[1]]
                s = tmo.Stream(None, thermo=st.th, T=TS[d[2]])
                for i, x in enumerate(v):
                    if x: s.imol[PK6[i]] = x
                if d[0] == 'flashed':          # a two-phase (g, l) inlet: the outlets become two-phase as well
                    with warnings.catch_warnings():
                        warnings.simplefilter('ignore')
                        s.vle(V=0.5, P=101325.0)
                ins.append(s); new_before.append((s, arr(s)))
            else:
                ins.append(st.S[d[0]])
        mixed = sum((arr(s) for s in ins), np.zeros(N))
        nonempty = [arr(s) for s in ins if arr(s).any()]
        overlap = len(nonempty) >= 2 and bool((np.sum([x > 0 for x in nonempty], axis=0) >= 2).any())
        if sp[0] == 's': split = sp[1]; svec = np.full(N, sp[1])
        else:
            svec = np.zeros(N); svec[:n] = sp[1]; split = svec.copy()
        match = dict(reuse=bool([d for d in inl if d[0] in ('top', 'bottom')]), split=sp[0], two_phase_inlet=any(d[0] == 'flashed' for d in inl))
        r = call('mix_and_split', lambda: sep.mix_and_split(ins, st.S['top'], st.S['bottom'], split), match)
        top = arr(st.S['top']); bot = arr(st.S['bottom'])
        if isinstance(r, tuple) and r and r[0] == 'infeasible':
            raise Violation('spurious-infeasible', f'mix_and_split reported infeasibility: {r[1]}', match=match)
        det = dict(mixed=mixed, top=top, bottom=bot, split=svec)
        if not close(top + bot, mixed):
            raise Violation('balance', f'mix_and_split: top + bottom = {top + bot} but the inlets sum to {mixed}', match=match, detail=det,
                            residual=float(np.max(np.abs(top + bot - mixed))))
        if has_negative(top) or has_negative(bot):
            raise Violation('negative-flow', f'mix_and_split: top {top} bottom {bot}', match=match, detail=det)
        if not close(top, svec * mixed):
            raise Violation('split-target', f'mix_and_split: top = {top}, expected split * mixed = {svec * mixed}', match=match, detail=det)
        for s, b in new_before:
            if not close(arr(s), b): raise Violation('inlet-modified', 'mix_and_split changed an inlet that is not an outlet', match=match)
        nt = overlap and top.any() and bot.any()
        return ('ms', int(top.any()), int(bot.any()), 'nt' if nt else '-')


# ======================================================================================================
# adjust_moisture_content / mix_and_split_with_moisture_content

RET = [  # (water, glucose, ethanol) in the retentate;  for multi: water in l, glucose in s, ethanol in l
    (0, 1, 0), (0.375, 1, 0), (2.5, 1, 1), (0, 2.5, 0.375)]
PERM = [(64, 0.125, 0), (1, 0.125, 1), (0, 0, 1), (1024, 0, 0)]
MCS = (0.05, 0.5, 0.95)

class Moisture(Base):
    """config = (kind, retentate template, permeate template, water-in-solid-phase flag)
       action = ('adj', mc, ID form, strict)  |  ('msm', vec index, mc, strict)   (mix_and_split_with_moisture_content)"""
    def __init__(self, name, kinds=('ss', 'mm'), copies=False, **kw):
        super().__init__(name, **kw); self.kinds = kinds; self.copies = copies

    def _configs(self, tier):
        out = []
        if self.copies:
            # outlets that are `copy()`s of streams built with units='kg/hr' (their mass view exists before the copy is taken):
            # 1 = both outlets are copies, 2 = only the retentate, 3 = only the permeate
            return [('ss', r, p, 0, cp) for r in range(len(RET)) for p in range(len(PERM)) for cp in (1, 2, 3)]
        for kind in self.kinds:
            for r in range(len(RET)):
                for p in range(len(PERM)):
                    out.append((kind, r, p, 0))
            if kind[0] == 'm':
                out.append((kind, 1, 0, 1)); out.append((kind, 2, 3, 1))
        return out

    def _mk(self, th, multi, w, g, e, ws=0.0):
        tmo = fx.tmo()
        if multi:
            s = tmo.MultiStream(None, thermo=th, phases=('l', 's'))
            if w: s.imol['l', 'Water'] = w
            if e: s.imol['l', 'Ethanol'] = e
            if g: s.imol['s', 'Glucose'] = g
            if ws: s.imol['s', 'Water'] = ws
        else:
            s = tmo.Stream(None, thermo=th)
            if w + ws: s.imol['Water'] = w + ws
            if e: s.imol['Ethanol'] = e
            if g: s.imol['Glucose'] = g
        return s

    def _mk_mass(self, th, w, g, e):
        tmo = fx.tmo()
        kw = {k: v for k, v in (('Water', w), ('Ethanol', e), ('Glucose', g)) if v}
        s = tmo.Stream(None, thermo=th, units='kg/hr', **kw)
        s.imass['Water']; s.mass            # the mass views exist (and were used) before any copy is taken
        return s

    def _build(self, config):
        kind, r, p, ws = config[:4]
        cp = config[4] if len(config) > 4 else 0
        th = th6()
        st = St(); st.th = th; st.kind = kind; st.ws = ws; st.cp = cp
        if cp:
            ro = self._mk_mass(th, *RET[r]); po = self._mk_mass(th, *PERM[p])
            st.S = dict(ret=ro.copy() if cp in (1, 2) else ro, perm=po.copy() if cp in (1, 3) else po)
            if cp in (1, 2): st.S['ret_orig'] = ro
            if cp in (1, 3): st.S['perm_orig'] = po
            return st
        st.S = dict(ret=self._mk(th, kind[0] == 'm', *RET[r], ws=0.25 if ws else 0.0),
                    perm=self._mk(th, kind[1] == 'm', *PERM[p]))
        return st

    def actions(self, st):
        acts = []
        for mc in (MCS if self._tier == 'quick' else (0.05, 0.25, 0.5, 0.75, 0.95)):
            for ID in (None, 'Water'):
                for strict in (None, False, True):
                    acts.append(('adj', mc, ID, strict))
        return acts

    def _step(self, st, a):
        tmo = fx.tmo(); sep = tmo.separations
        _, mc, ID, strict = a
        ret, perm = st.S['ret'], st.S['perm']
        MW = np.array([c.MW for c in st.th.chemicals])
        r0 = arr(ret); p0 = arr(perm)
        rw, pw = r0[0], p0[0]
        dry = float((r0 * MW).sum() - rw * MW[0])
        need = dry * mc / (1 - mc) / MW[0]          # water the retentate must hold
        transfer = need - rw
        sufficient = transfer <= pw * (1 - 1e-9)
        borderline = abs(transfer - pw) <= 1e-9 * max(1.0, pw)
        branch = 'sufficient' if sufficient else ('insufficient-strict' if strict in (None, True) else 'insufficient-nonstrict')
        match = dict(kind=st.kind if st.kind in ('sm', 'ms') else 'same', branch=branch, water_in_solid=bool(st.ws))
        orig0 = {k: arr(v) for k, v in st.S.items() if k.endswith('_orig')}
        if orig0: match['copies'] = st.cp
        r = call('adjust_moisture_content', lambda: sep.adjust_moisture_content(ret, perm, mc, ID, strict), dict(kind=match['kind']))
        r1 = arr(ret); p1 = arr(perm)
        det = dict(ret_before=r0, perm_before=p0, ret_after=r1, perm_after=p1, need=need, mc=mc)
        for k, before in orig0.items():
            if not close(arr(st.S[k]), before):
                raise Violation('other-stream-modified', f'adjust_moisture_content(ID={ID}) on a copy changed the stream the copy was taken from: {before} -> {arr(st.S[k])} '
                                f'(copy: {r0 if k == "ret_orig" else p0} -> {r1 if k == "ret_orig" else p1})', match=dict(match, copies=getattr(st, 'cp', 0)), detail=det)
        if isinstance(r, tuple) and r and r[0] == 'infeasible':
            if sufficient and not borderline:
                raise Violation('spurious-infeasible', f'adjust_moisture_content raised InfeasibleRegion although the permeate holds {pw} kmol water and '
                                f'{transfer} are needed', match=match, detail=det)
            raise Rejected('adjust_moisture_content:InfeasibleRegion', cut=True)
        if borderline: raise Rejected('borderline', cut=True)
        if not sufficient and strict in (None, True):
            raise Violation('infeasibility-not-reported', f'adjust_moisture_content returned normally with strict={strict} although only {pw} kmol water are available '
                            f'and {transfer} are needed; permeate now {p1}', match=match, detail=det)
        tot0 = r0 + p0; tot1 = r1 + p1
        if not close(tot1, tot0, rtol=1e-9):
            raise Violation('balance', f'adjust_moisture_content(mc={mc}, ID={ID}, strict={strict}): retentate + permeate was {tot0}, is {tot1} '
                            f'(retentate {r0} -> {r1}, permeate {p0} -> {p1})', match=match, detail=det,
                            residual=float(np.max(np.abs(tot1 - tot0))))
        neg = has_negative(r1) or has_negative(p1)
        for s in (ret, perm):
            for ph, x in phase_arrays(s).items():
                if has_negative(x, total=float(np.abs(tot0).sum())): neg = True
        if neg:
            raise Violation('negative-flow', f'adjust_moisture_content left a negative flow without reporting infeasibility: retentate {r1}, permeate {p1}',
                            match=match, detail=det)
        if not close(r1[1:], r0[1:]) or not close(p1[1:], p0[1:]):
            raise Violation('other-chemical-moved', f'adjust_moisture_content changed a chemical other than water: {r0}->{r1}, {p0}->{p1}', match=match, detail=det)
        if sufficient and not st.ws:
            mass = float((r1 * MW).sum())
            frac = r1[0] * MW[0] / mass if mass else float('nan')
            if not abs(frac - mc) <= 1e-9:
                raise Violation('moisture-target', f'requested moisture {mc}, retentate water mass fraction is {frac}', match=match, detail=det,
                                residual=abs(frac - mc))
        moved = abs(r1[0] - r0[0]) > 0
        return ('adj', bool(sufficient), 'nt' if moved else '-')


# ======================================================================================================
# partition / phase_fraction

KS = (1e-3, 0.5, 1.0, 2.0, 1e3)
PFEEDS = [  # over PK6
    (1, 2.5, 0.375, 1, 2.5, 0.375), (2.5, 1, 1, 0, 0, 0), (0.375, 0, 2.5, 1, 0, 1), (1, 1, 0, 0, 1, 0)]
# forced / free variants: (top_chemicals, bottom_chemicals) as indices in PK6 beyond the partitioning chemicals
def forced_menu(k):
    rest = list(range(k, 6))
    out = [((), ())]
    if len(rest) >= 1: out += [((rest[0],), ()), ((), (rest[0],))]
    if len(rest) >= 2: out += [((rest[0],), (rest[1],)), ((rest[0], rest[1]), ())]
    if len(rest) >= 3: out += [((rest[2],), (rest[0], rest[1]))]
    return out


class Partition(Base):
    """config = (k partitioning chemicals, feed index); action = ('part', K tuple, forced index, strict, bare-string flag, feed index | None)"""
    def __init__(self, name, hist=False, ks=(1, 2, 3), **kw):
        super().__init__(name, **kw); self.hist = hist; self.ks = ks

    def _configs(self, tier):
        return [(k, f) for k in self.ks for f in range(len(PFEEDS))]

    def _build(self, config):
        tmo = fx.tmo(); th = th6()
        st = St(); st.th = th; st.k, st.f = config
        st.S = dict(top=tmo.Stream(None, thermo=th), bottom=tmo.Stream(None, thermo=th))
        return st

    def k_menu(self, k, tier=None):
        if k <= 3 or (self._tier == 'thorough' and not self.hist): return list(itertools.product(KS, repeat=k))
        base = (0.5, 2.0, 1.0, 1e3)[:k]
        out = {base}
        for i in range(k):
            for j in range(i, k):
                for x in KS:
                    for y in KS:
                        v = list(base); v[i] = x; v[j] = y; out.add(tuple(v))
        return sorted(out)

    def actions(self, st):
        k = st.k
        acts = []
        if not self.hist:
            for K in self.k_menu(k):
                for fi in range(len(forced_menu(k))):
                    for strict in (False, True):
                        acts.append(('part', K, fi, strict, 0, None))
            # the docstring form: a bare string for a single forced chemical
            acts.append(('part', (0.5, 2.0, 1.0, 1e3)[:k], 2, False, 1, None))
        else:
            Ks = [(0.5, 2.0, 1e-3, 1e3)[:k], (2.0, 0.5, 1e3, 1.0)[:k], (0.5,) * k, (2.0,) * k]
            if self._tier == 'thorough': Ks += [(1e-3, 1e3, 0.5, 2.0)[:k], (1e3, 1e-3, 2.0, 0.5)[:k], (1.0,) * k, (1e3,) * k]
            for K in Ks:
                for fi in range(min(4, len(forced_menu(k)))):
                    for f in range(len(PFEEDS)):
                        acts.append(('part', K, fi, False, 0, f))
        return acts

    def _step(self, st, a):
        tmo = fx.tmo(); sep = tmo.separations
        _, K, fi, strict, bare, f = a
        k = st.k
        f = st.f if f is None else f
        feed = tmo.Stream(None, thermo=st.th)
        for i, x in enumerate(PFEEDS[f]):
            if x: feed.imol[PK6[i]] = x
        tops, bots = forced_menu(k)[fi]
        IDs = tuple(PK6[:k])
        tc = tuple(PK6[i] for i in tops) or None
        bc = tuple(PK6[i] for i in bots) or None
        if bare and bc and len(bc) == 1: bc = bc[0]
        Karr = np.array(K, float)
        top, bot = st.S['top'], st.S['bottom']
        dirty = bool(arr(top).any() or arr(bot).any())
        f0 = arr(feed)
        match = dict(forced=bool(tops or bots), dirty_outlets=dirty)
        r = call('partition', lambda: sep.partition(feed, top, bot, IDs, Karr.copy(), top_chemicals=tc, bottom_chemicals=bc, strict=strict), match)
        t1 = arr(top); b1 = arr(bot)
        det = dict(feed=f0, top=t1, bottom=b1, K=K, IDs=IDs, top_chemicals=tc, bottom_chemicals=bc, phi=r if not isinstance(r, tuple) else None)
        if isinstance(r, tuple) and r and r[0] == 'infeasible':
            raise Rejected('partition:InfeasibleRegion', cut=True)
        phi = float(r)
        if not close(arr(feed), f0): raise Violation('inlet-modified', 'partition changed its feed', match=match, detail=det)
        if not close(t1 + b1, f0):
            raise Violation('balance', f'partition: top + bottom = {t1 + b1}, feed = {f0}', match=match, detail=det, residual=float(np.max(np.abs(t1 + b1 - f0))))
        if has_negative(t1, f0.sum()) or has_negative(b1, f0.sum()):
            raise Violation('negative-flow', f'partition (strict={strict}) returned normally with top {t1}, bottom {b1} for feed {f0}, K {K}, '
                            f'forced top {tc}, forced bottom {bc}', match=match, detail=det)
        for i in tops:
            if not (close(t1[i], f0[i]) and abs(b1[i]) <= 1e-12):
                raise Violation('forced-chemical', f'{PK6[i]} was forced to the top but top {t1[i]} bottom {b1[i]} feed {f0[i]}', match=match, detail=det)
        for i in bots:
            if not (close(b1[i], f0[i]) and abs(t1[i]) <= 1e-12):
                raise Violation('forced-chemical', f'{PK6[i]} was forced to the bottom but top {t1[i]} bottom {b1[i]} feed {f0[i]}', match=match, detail=det)
        # an outlet is 'non-empty' when it holds partitioning or forced chemicals; chemicals that are neither ride along to the top by the
        # documented convention and are not part of the equilibrium
        eq_top = list(range(k)) + list(tops); eq_bot = list(range(k)) + list(bots)
        both = t1[eq_top].sum() > 0 and b1[eq_bot].sum() > 0
        present = [i for i in range(k) if f0[i] > 0]
        if both and present:
            ratios = []
            for i in present:
                if b1[i] <= 0 or t1[i] <= 0:
                    ratios = None; break
                ratios.append(t1[i] / b1[i] / K[i])
            if ratios is None:
                raise Violation('partition-coefficients', f'both outlets are non-empty but a partitioning chemical is missing from one of them: top {t1[:k]}, bottom {b1[:k]}, '
                                f'K {K}, phi {phi}, feed {f0}, forced top {tc}, forced bottom {bc}', match=dict(match, sub='one-sided'), detail=det)
            spread = max(ratios) / min(ratios) - 1
            tol = 1e-8 + 64 * 2.2e-16 * max(f0[i] / min(t1[i], b1[i]) for i in present)
            if spread > tol:
                raise Violation('partition-coefficients', f'achieved (top_i/bottom_i)/K_i = {ratios} is not one common factor: top {t1[:k]}, bottom {b1[:k]}, K {K}, phi {phi}, '
                                f'feed {f0}, forced top {tc}, forced bottom {bc}', match=dict(match, sub='ratio'), detail=det, residual=spread)
            if not tops and not bots:
                y = t1[:k] / t1[:k].sum(); x = b1[:k] / b1[:k].sum()
                rel = max(abs(y[i] / x[i] / K[i] - 1) for i in present)
                if rel > 1e-5:
                    raise Violation('partition-coefficients', f'no forced chemicals: y/x = {y / x} but K = {K} (phi {phi})', match=dict(match, sub='normalised'), detail=det,
                                    residual=rel)
        # phase_fraction must agree with what partition did and leave the feed alone
        if not dirty:
            r2 = call('phase_fraction', lambda: sep.phase_fraction(feed, IDs, Karr.copy(), top_chemicals=tc, bottom_chemicals=bc, strict=strict), match)
            if not (isinstance(r2, tuple)):
                if not close(arr(feed), f0): raise Violation('inlet-modified', 'phase_fraction changed its feed', match=match, detail=det)
                if not (0.0 <= float(r2) <= 1.0): raise Violation('phase-fraction-range', f'phase_fraction returned {r2}', match=match, detail=det)
        return ('part', 0 if phi <= 0 else (2 if phi >= 1 else 1), int(dirty), 'nt' if both else '-')


# ======================================================================================================
# vle / lle wrappers

VFEEDS = [  # over the VLE package (Water, Ethanol, Propanol, N2, Glucose), T
    ((1, 2.5, 0, 0, 0), 350.0), ((1, 1, 1, 0.375, 0.375), 340.0), ((2.5, 0, 0, 0, 0), 300.0), ((0.375, 1, 0, 1, 0), 360.0),
    # feeds whose material sits in the GAS phase ('g'), and two-phase feeds ('gl' = flashed to V = 0.5 at 1 atm before the call); with and without a non-condensable
    ((1, 2.5, 0, 0, 0), 400.0, 'g'), ((1, 1, 1, 0, 0), 400.0, 'g'), ((0.375, 1, 0, 1, 0), 400.0, 'g'), ((2.5, 0, 0, 0, 0), 400.0, 'g'),
    ((1, 2.5, 0, 0, 0), 350.0, 'gl'), ((1, 1, 1, 0.375, 0), 340.0, 'gl')]
VSPECS = [dict(T=360.0, P=101325.0), dict(T=300.0, P=101325.0), dict(T=400.0, P=101325.0), dict(V=0.5, P=101325.0), dict(V=0.0, P=101325.0),
          dict(V=1.0, P=101325.0), dict(V=0.25, T=355.0), dict(P=101325.0, Q=0.0), dict(P=101325.0, Q=5e4), dict(P=50000.0, Q=-1e4),
          dict(V=0.0, T=350.0), dict(V=1.0, T=350.0), dict(V=0.0, P=2e5), dict(V=1.0, P=2e5)]      # end points at given T and at a second pressure
LFEEDS = [  # over (Water, Ethanol, Octanol, Hexane)
    (20, 1, 20, 0), (2.5, 0.375, 1, 1), (1, 1, 0, 0), (1, 0, 2.5, 0), (0, 0, 1, 0)]

class Equil(Base):
    """config = ('vle'|'lle', feed index); action = ('vle', spec index, ms flag) | ('lle', efficiency, top chemical, ms flag)"""
    def __init__(self, name, which, hist=False, **kw):
        super().__init__(name, **kw); self.which = which; self.hist = hist

    def _configs(self, tier):
        if self.hist: return [(self.which, 0)]       # history layers name the feed in every action; the configuration's feed is not used
        return [(self.which, f) for f in range(len(VFEEDS if self.which == 'vle' else LFEEDS))]

    def _build(self, config):
        tmo = fx.tmo()
        which, f = config
        th = thV() if which == 'vle' else thL()
        st = St(); st.th = th; st.which = which; st.f = f
        st.S = dict(a=tmo.Stream(None, thermo=th), b=tmo.Stream(None, thermo=th),
                    ms=tmo.MultiStream(None, thermo=th, phases=('g', 'l') if which == 'vle' else ('L', 'l')))
        return st

    def actions(self, st):
        acts = []
        if st.which == 'vle':
            specs = range(len(VSPECS)) if not self.hist else ((0, 3, 7) if self._tier == 'quick' else (0, 1, 3, 6, 7, 8))
            for si in specs:
                for ms in (0, 1):
                    for f in ((None,) if not self.hist else ((0, 1, 3) if self._tier == 'quick' else (0, 1, 2, 3, 4, 8))):
                        acts.append(('vle', si, ms, f))
        else:
            full = not self.hist or self._tier == 'thorough'
            for eff in ((0.0, 0.5, 1.0) if full else (0.5, 1.0)):
                for tc in ((None, 'Octanol', 'Water') if full else (None, 'Octanol')):
                    for ms in (0, 1):
                        for f in ((None,) if not self.hist else (0, 1, 2)):
                            acts.append(('lle', eff, tc, ms, f))
        return acts

    def _step(self, st, a):
        tmo = fx.tmo(); sep = tmo.separations
        th = st.th
        chems = [c.ID for c in th.chemicals]
        if a[0] == 'vle':
            _, si, ms, f = a
            f = st.f if f is None else f
            vec, T, *ph = VFEEDS[f]
            ph = ph[0] if ph else 'l'
            feed = tmo.Stream(None, thermo=th, T=T, phase='g' if ph == 'g' else 'l')
            for i, x in enumerate(vec):
                if x: feed.imol[chems[i]] = x
            if ph == 'gl':
                with warnings.catch_warnings():
                    warnings.simplefilter('ignore')
                    feed.vle(V=0.5, P=101325.0)
            feed_type = type(feed)
            f0 = arr(feed); fp0 = phase_arrays(feed); TP0 = (feed.T, feed.P)
            spec = VSPECS[si]
            match = dict(helper='vle', spec=tuple(sorted(spec)), ms=bool(ms), feed_phase=ph)
            r = call('vle', lambda: sep.vle(feed, st.S['a'], st.S['b'], multi_stream=st.S['ms'] if ms else None, **spec), match,
                     allowed=(RuntimeError, ValueError))
            names = ('vapor', 'liquid')
        else:
            _, eff, tc, ms, f = a
            f = st.f if f is None else f
            feed = tmo.Stream(None, thermo=th)
            feed_type = type(feed)
            for i, x in enumerate(LFEEDS[f]):
                if x: feed.imol[chems[i]] = x
            f0 = arr(feed); fp0 = phase_arrays(feed); TP0 = (feed.T, feed.P)
            match = dict(helper='lle', efficiency=eff, top_chemical=tc is not None, ms=bool(ms))
            if tc is not None and f0[chems.index(tc)] == 0: raise Rejected('top chemical absent', cut=False)
            r = call('lle', lambda: sep.lle(feed, st.S['a'], st.S['b'], top_chemical=tc, efficiency=eff, multi_stream=st.S['ms'] if ms else None), match,
                     allowed=(RuntimeError,))
            names = ('top', 'bottom')
        if isinstance(r, tuple) and r and r[0] == 'infeasible': raise Rejected(a[0] + ':InfeasibleRegion', cut=True)
        A = arr(st.S['a']); B = arr(st.S['b'])
        det = dict(feed=f0, a=A, b=B)
        fp1 = phase_arrays(feed)
        if set(fp1) != set(fp0) or any(not close(fp1[p], fp0[p]) for p in fp0) or (feed.T, feed.P) != TP0 or type(feed) is not feed_type:
            raise Violation('inlet-modified', f'{a[0]} wrapper changed its feed: {fp0} at {TP0} -> {type(feed).__name__} {fp1} at {(feed.T, feed.P)}', match=match, detail=det)
        if not close(A + B, f0, rtol=1e-9):
            raise Violation('balance', f'{a[0]} wrapper: {names[0]} + {names[1]} = {A + B}, feed = {f0} (action {a})', match=match, detail=det,
                            residual=float(np.max(np.abs(A + B - f0))))
        if has_negative(A, f0.sum()) or has_negative(B, f0.sum()):
            raise Violation('negative-flow', f'{a[0]} wrapper: {names[0]} {A}, {names[1]} {B}', match=match, detail=det)
        if a[0] == 'vle':
            if st.S['a'].phase != 'g' or st.S['b'].phase != 'l':
                raise Violation('phase-outlet', f'vle wrapper: vapor outlet phase {st.S["a"].phase}, liquid outlet phase {st.S["b"].phase}', match=match)
            # locked chemicals: N2 only in the vapour, Glucose never in the vapour
            if A[4] != 0 or B[3] != 0:
                raise Violation('phase-outlet', f'vle wrapper: N2 in the liquid ({B[3]}) or glucose in the vapour ({A[4]})', match=match, detail=det)
        if ms:
            M = arr(st.S['ms'])
            if a[0] == 'vle' or a[1] == 1.0:
                if not close(M, f0, rtol=1e-9): raise Violation('balance', f'{a[0]} wrapper: multi_stream holds {M}, feed {f0}', match=dict(match, where='ms'), detail=det)
        two = bool(A.any() and B.any())
        return (a[0], int(A.any()), int(B.any()), 'nt' if two else '-')


# ======================================================================================================
# phase_split, chemical_splits, material_balance

PSETS = [('g', 'l'), ('l', 's'), ('g', 'l', 's'), ('L', 'l'), ('L', 'g', 'l', 's')]
PVECS = [(1, 2.5, 0, 0, 0, 0), (0, 0.375, 1, 0, 0, 0), (0, 0, 0, 1, 0, 0), (0, 0, 0, 0, 2.5, 1), ()]

class PhaseSplit(Base):
    """config = (phase set index, rotation of the content vectors); action = ('ps', n outlets delta, outlets dirty flag)"""
    def _configs(self, tier):
        return [(p, r) for p in range(len(PSETS)) for r in range(len(PVECS))]

    def _build(self, config):
        tmo = fx.tmo(); th = th6()
        p, r = config
        st = St(); st.th = th
        phases = PSETS[p]
        ms = tmo.MultiStream(None, thermo=th, phases=phases, T=320.0)
        st.phases = tuple(ms.phases)
        for i, ph in enumerate(st.phases):
            v = PVECS[(i + r) % len(PVECS)]
            for j, x in enumerate(v):
                if x and not (PK6[j] == 'Glucose' and ph != 's'): ms.imol[ph, PK6[j]] = x
        st.S = dict(feed=ms)
        for i in range(len(phases) + 1):
            st.S[f'o{i}'] = tmo.Stream(None, thermo=th)
        return st

    def actions(self, st):
        return [('ps', d, dirty) for d in (0, -1, 1) for dirty in (0, 1)]

    def _step(self, st, a):
        tmo = fx.tmo(); sep = tmo.separations
        _, d, dirty = a
        feed = st.S['feed']
        n = len(st.phases)
        outs = [st.S[f'o{i}'] for i in range(n + d)]
        if dirty:
            for i, o in enumerate(outs):
                o.imol['Hexane'] = n + 1 - i; o.T = 350.0
        before = phase_arrays(feed)
        match = dict(nphases=n, delta=d, dirty=bool(dirty))
        try:
            r = call('phase_split', lambda: sep.phase_split(feed, outs), match, allowed=())
        except Violation as v:
            if d != 0 and v.match.get('exc') == 'RuntimeError': raise Rejected('phase_split:RuntimeError(number of outlets)', cut=True)
            raise
        if d != 0:
            raise Violation('no-rejection', f'phase_split accepted {n + d} outlets for {n} phases', match=match)
        after = phase_arrays(feed)
        tot = np.zeros(len(PK6))
        nonempty = 0
        for ph, o in zip(st.phases, outs):
            x = arr(o); tot += x
            if not close(x, before[ph]):
                raise Violation('phase-outlet', f'phase_split: outlet for phase {ph!r} holds {x}, the feed holds {before[ph]} in that phase', match=match)
            if x.any():
                nonempty += 1
                if o.phase != ph:
                    raise Violation('phase-outlet', f'phase_split: outlet for phase {ph!r} reports phase {o.phase!r}', match=match)
            if not close(after[ph], before[ph]): raise Violation('inlet-modified', 'phase_split changed its feed', match=match)
        if not close(tot, arr(feed)): raise Violation('balance', f'phase_split: outlets sum to {tot}, feed {arr(feed)}', match=match)
        return ('ps', nonempty, 'nt' if nonempty >= 2 else '-')


CYC_FLOWS = [(10, 10, 2), (30, 10, 0), (1, 1, 1)]        # Water, Ethanol, Methanol
CYC_V = (0.5, 0.3)

class PhaseSplitCycle(Base):
    """one feed OBJECT that goes single-phase -> (g, l) -> single-phase -> (g, l) between uses, and one pair of outlets that is reused.
    config = (initial flow index,); actions (enabled by the current representation of the feed):
       single phase : ('flash', V index)  feed.vle(V=, P=101325) | ('flows', index) new flows
       multi phase  : ('split',) phase_split(feed, [vapor, liquid])  | ('collapse', 'l' | 'g') feed.phase = p
       ('wvle', V index): the vle wrapper with the feed as it is (single phase only) into the same outlets"""
    def _configs(self, tier):
        return [(0,)] if tier == 'quick' else [(0,), (1,)]

    def _build(self, config):
        tmo = fx.tmo(); th = th6()
        st = St(); st.th = th
        feed = tmo.Stream(None, thermo=th)
        for ID, x in zip(PK6[:3], CYC_FLOWS[config[0]]):
            if x: feed.imol[ID] = x
        st.S = dict(feed=feed, vapor=tmo.Stream(None, thermo=th), liquid=tmo.Stream(None, thermo=th))
        return st

    def actions(self, st):
        tmo = fx.tmo()
        feed = st.S['feed']
        if isinstance(feed, tmo.MultiStream):
            return [('split',), ('collapse', 'l'), ('collapse', 'g')]
        nfl = 2 if self._tier == 'quick' else len(CYC_FLOWS)
        return [('flash', 0), ('flash', 1)] + [('flows', i) for i in range(nfl)] + [('wvle', 0)]

    def _step(self, st, a):
        tmo = fx.tmo(); sep = tmo.separations
        feed = st.S['feed']; outs = [st.S['vapor'], st.S['liquid']]
        match = dict(action=a[0])
        if a[0] == 'flash':
            r = call('Stream.vle', lambda: feed.vle(V=CYC_V[a[1]], P=101325.0), match, allowed=(RuntimeError,))
            return ('flash', '-')
        if a[0] == 'flows':
            feed.T = 298.15
            for ID, x in zip(PK6[:3], CYC_FLOWS[a[1]]): feed.imol[ID] = x
            return ('flows', '-')
        if a[0] == 'collapse':
            tot = arr(feed)
            feed.phase = a[1]
            if not close(arr(feed), tot): raise Rejected('collapse changed the totals (C12 subject)', cut=True)
            return ('collapse', '-')
        if a[0] == 'wvle':
            f0 = arr(feed)
            r = call('vle', lambda: sep.vle(feed, outs[0], outs[1], V=CYC_V[a[1]], P=101325.0), match, allowed=(RuntimeError,))
            A, B = arr(outs[0]), arr(outs[1])
            if not close(A + B, f0, rtol=1e-9):
                raise Violation('balance', f'vle wrapper after the feed went through {type(feed).__name__}: vapor + liquid = {A + B}, feed = {f0}', match=match)
            return ('wvle', 'nt' if A.any() and B.any() else '-')
        # split
        before = phase_arrays(feed)
        phases = tuple(feed.phases)
        r = call('phase_split', lambda: sep.phase_split(feed, outs), match)
        tot = np.zeros(len(PK6)); nonempty = 0
        for ph, o in zip(phases, outs):
            x = arr(o); tot += x
            if not close(x, before[ph], rtol=1e-9):
                raise Violation('phase-outlet', f'phase_split (feed re-used after collapse / re-flash): outlet for phase {ph!r} holds {x}, the feed holds {before[ph]} in that phase',
                                match=match)
            if x.any():
                nonempty += 1
                if o.phase != ph: raise Violation('phase-outlet', f'outlet for phase {ph!r} reports phase {o.phase!r}', match=match)
        if not close(tot, arr(feed), rtol=1e-9):
            raise Violation('balance', f'phase_split: outlets sum to {tot}, feed {arr(feed)}', match=match)
        after = phase_arrays(feed)
        if any(not close(after[p], before[p]) for p in before): raise Violation('inlet-modified', 'phase_split changed its feed', match=match)
        return ('split', 'nt' if nonempty >= 2 else '-')


class Splits(Base):
    """chemical_splits(a, b) and chemical_splits(a, mixed=): config = (a vector index, b vector index); action = ('cs', form)"""
    def _configs(self, tier):
        return [(i, j) for i in range(1, len(VEC6)) for j in range(len(VEC6))]

    def _build(self, config):
        tmo = fx.tmo(); th = th6()
        st = St(); st.th = th
        def mk(v):
            s = tmo.Stream(None, thermo=th)
            for i, x in enumerate(v):
                if x: s.imol[PK6[i]] = x
            return s
        st.S = dict(a=mk(VEC6[config[0]]), b=mk(VEC6[config[1]]))
        return st

    def actions(self, st): return [('cs', 'b'), ('cs', 'mixed')]

    def _step(self, st, a):
        tmo = fx.tmo(); sep = tmo.separations
        tmo.settings.set_thermo(st.th)
        A, B = st.S['a'], st.S['b']
        a0 = arr(A); b0 = arr(B); mixed = a0 + b0
        match = dict(form=a[1])
        if a[1] == 'b':
            r = call('chemical_splits', lambda: sep.chemical_splits(A, B), match)
        else:
            m = tmo.Stream(None, thermo=st.th)
            for i, x in enumerate(mixed):
                if x: m.imol[PK6[i]] = x
            r = call('chemical_splits', lambda: sep.chemical_splits(A, mixed=m), match)
        if isinstance(r, tuple): raise Rejected('chemical_splits:InfeasibleRegion', cut=True)
        sp = np.asarray(r.data.to_array() if hasattr(r.data, 'to_array') else r.data, float)
        back = sp * mixed
        if not close(back, a0):
            raise Violation('splits-target', f'chemical_splits = {sp}; splits * mixed = {back} but the first stream holds {a0}', match=match)
        if np.any((sp < 0) | (sp > 1 + 1e-12)) :
            raise Violation('splits-target', f'chemical_splits outside [0, 1]: {sp}', match=match)
        if not close(arr(A), a0) or not close(arr(B), b0): raise Violation('inlet-modified', 'chemical_splits changed a stream', match=match)
        return ('cs', 'nt' if (a0 > 0).any() and (b0 > 0).any() and ((a0 > 0) & (b0 > 0)).any() else '-')


MATS = {2: [((1, 0), (0, 1)), ((1, 1), (0, 1)), ((2.5, 1), (0.375, 1)), ((1, 0.375), (2.5, 0.375))],
        3: [((1, 0, 0), (0, 1, 0), (0, 0, 1)), ((1, 1, 0), (0, 1, 1), (1, 0, 1)), ((2.5, 1, 0.375), (0, 1, 1), (0.375, 0, 1))]}
XS = {2: [(0.5, 3.0), (1.0, 1.0), (3.0, 0.5), (2.0, 2.0)], 3: [(0.5, 1.0, 3.0), (3.0, 0.5, 2.0), (2.0, 2.0, 2.0)]}

class MatBal(Base):
    """config = (size, matrix index, which chemicals carry the matrix); action = ('mb', x index, number of constant inlets 0-2, n outlets, balance, is_exact, permutation index of chemical_IDs)
    variable inlet j holds MATS[j] on the chosen chemicals (plus a passenger chemical that is not balanced)"""
    def _configs(self, tier):
        return [(n, m, off, pas) for n in (2, 3) for m in range(len(MATS[n])) for off in (0, 1) for pas in (0, 1)]

    def _build(self, config):
        tmo = fx.tmo(); th = th6()
        n, m, off, pas = config
        st = St(); st.th = th; st.n = n; st.pas = pas
        idx = [0, 1, 2] if not off else [1, 4, 5]       # Water/Ethanol/Methanol or Ethanol/Octanol/Hexane
        st.idx = idx[:n]
        st.S = {}
        for j, row in enumerate(MATS[n][m]):
            s = tmo.Stream(None, thermo=th)
            for i, x in zip(st.idx, row):
                if x: s.imol[PK6[i]] = x
            if j == 0 and pas: s.imol['Glucose'] = 0.375         # passenger, scales with the stream
            st.S[f'v{j}'] = s
        return st

    def actions(self, st):
        n = st.n
        # a passenger chemical that the outlets do not hold makes a *composition* target unreachable, so it is used in flow mode only
        # chemical_IDs is passed in EVERY order (index of the permutation of the chosen chemicals; 0 = property-package order), with 0 / 1 / 2 constant inlets
        nperm = len(list(itertools.permutations(range(n))))
        return [('mb', xi, ci, no, bal, ex, pi) for xi in range(len(XS[n])) for ci in (0, 1, 2) for no in (1, 2)
                for bal in (('flow',) if st.pas else ('flow', 'composition')) for ex in (True, False) for pi in range(nperm)]

    def _step(self, st, a):
        tmo = fx.tmo(); sep = tmo.separations
        _, xi, ci, no, bal, ex, *rest = a
        pi = rest[0] if rest else 0                      # (witnesses recorded before the ID order was enumerated have no 7th field)
        n = st.n; idx = st.idx
        IDs = tuple(PK6[i] for i in idx)
        IDs_given = tuple(IDs[k] for k in list(itertools.permutations(range(n)))[pi])
        var = [st.S[f'v{j}'] for j in range(n)]
        v0 = [arr(s) for s in var]
        x = XS[n][xi]
        g = np.zeros(len(PK6))
        cin = []
        if ci:
            c = tmo.Stream(None, thermo=st.th)
            c.imol[IDs[0]] = 1; c.imol[IDs[-1]] = 0.375
            cin = [c]; g = arr(c)
            if ci == 2:
                c2 = tmo.Stream(None, thermo=st.th)
                c2.imol[IDs[1]] = 2.5
                if n == 3: c2.imol[IDs[0]] = 0.375
                cin.append(c2); g = g + arr(c2)
        target = sum(xj * vj for xj, vj in zip(x, v0)) + g
        # the balanced chemicals of the outlets follow the target; split over `no` outlet streams
        outs = []
        for k in range(no):
            o = tmo.Stream(None, thermo=st.th)
            for i in idx:
                val = target[i] * (1.0 if no == 1 else (0.25 if k == 0 else 0.75))
                if val: o.imol[PK6[i]] = val
            outs.append(o)
        out_tot = sum(arr(o) for o in outs)
        match = dict(balance=bal, is_exact=ex, constant_inlets=bool(ci), ids_in_package_order=(pi == 0))
        r = call('material_balance', lambda: sep.material_balance(IDs_given, var, cin, outs, is_exact=ex, balance=bal), match)
        if isinstance(r, tuple): raise Rejected('material_balance:InfeasibleRegion', cut=True)
        v1 = [arr(s) for s in var]
        inl = sum(v1) + g
        det = dict(before=v0, after=v1, constant_inlet=g, outlets=out_tot, x=x)
        # each variable inlet is scaled as a whole (composition preserved)
        factors = []
        for b0, b1 in zip(v0, v1):
            nz = b0 > 0
            fct = b1[nz] / b0[nz]
            if not close(fct, np.full(fct.shape, fct[0]), rtol=1e-9, scale=max(1.0, abs(fct[0]))) or np.any(b1[~nz] != 0):
                raise Violation('not-a-scaling', f'material_balance changed the composition of a variable inlet: {b0} -> {b1}', match=match, detail=det)
            factors.append(float(fct[0]))
        if has_negative(np.array(factors)):
            raise Violation('negative-flow', f'material_balance scaled by negative factors {factors} although positive factors {x} solve the balance', match=match, detail=det)
        if bal == 'flow':
            res = (inl - out_tot)[idx]
            if not close(res, np.zeros(n), rtol=1e-9, scale=max(1.0, float(out_tot.max()))):
                raise Violation('material-balance', f'flow balance: inlets - outlets = {res} on {IDs} (chemical_IDs given as {IDs_given}, {len(cin)} constant inlets; factors {factors}, expected {x})', match=match, detail=det,
                                residual=float(np.max(np.abs(res))))
        else:
            zi = inl / inl.sum(); zo = out_tot / out_tot.sum()
            res = (zi - zo)[idx]
            if not np.all(np.abs(res) <= 1e-4):
                raise Violation('material-balance', f'composition balance: z_in - z_out = {res} on {IDs} (factors {factors})', match=match, detail=det,
                                residual=float(np.max(np.abs(res))))
        return ('mb', bal, 'nt' if all(abs(f - 1) > 1e-9 for f in factors) else '-')


SYSTEMS = [
    MixSplit('c20.mix_and_split.grid'),
    MixSplit('c20.mix_and_split.reuse', hist=True, depth_q=2, depth_t=3),
    MixSplit('c20.mix_and_split.reuse.phases', hist=True, phases=True, depth_q=2, depth_t=3),
    Moisture('c20.moisture.grid'),
    Moisture('c20.moisture.repeat', depth_q=2, depth_t=2),
    Moisture('c20.moisture.mixed-kinds', kinds=('sm', 'ms')),
    Moisture('c20.moisture.copies', copies=True, depth_q=1, depth_t=2),
    Partition('c20.partition.grid'),
    Partition('c20.partition.k4', ks=(4,)),
    Partition('c20.partition.reuse', hist=True, ks=(2, 3), depth_q=2, depth_t=2),
    Equil('c20.vle', 'vle'),
    Equil('c20.vle.reuse', 'vle', hist=True, depth_q=2, depth_t=2),
    Equil('c20.lle', 'lle'),
    Equil('c20.lle.reuse', 'lle', hist=True, depth_q=2, depth_t=2),
    PhaseSplit('c20.phase_split'),
    PhaseSplitCycle('c20.phase_split.cycle', depth_q=5, depth_t=7),
    Splits('c20.chemical_splits'),
    MatBal('c20.material_balance'),
]
