"""
C12 — changing how a stream represents phases never changes what it contains.

Explicit-state search over ONE real `Stream` / `MultiStream` (plus the phase views, `StreamData`
snapshots and solver caches that hang off it) in lock-step with a boring reference model:

    model = (kind 'S'|'M', phase tuple, {phase: [flow per chemical]}, T, P)
            + which phase views are held (and whether they were taken before the last change of
              the phase set) + the model image of every snapshot.

Actions (preconditions evaluated on the model, DESIGN 3 / C12):
    phases=P   for every P subset of the universe that contains every non-empty phase up to case
    phase=p    when every non-empty phase equals p up to case
    reduce_phases(), as_stream()
    touch .vle / .lle / .sle  (attribute access only)
    v = s[p]  (hold a phase view), write through the parent, write through a held view, set T/P on either side
    d = get_data(), set_data(d) with any earlier snapshot, copy_like(twin built from a snapshot)

Oracle (every transition): per-chemical totals, T and P unchanged by a representation change;
the material of phase p is found in p when p is in the new phase set, else in the other-case
label (which must then be in the new set); an explicitly requested phase set is obtained
exactly; the object is a `Stream` iff it has one phase ... see `_check_repr`.
State oracle (every state): every held view reads the parent's current row, reports the
parent's T and P and its own phase; the mass view (imass / view.mass) equals the molar rows times MW; every snapshot still holds what was saved; no stored zero.
"""
from __future__ import annotations
import itertools
import numpy as np
from mc.engine import System, Violation, Rejected
from mc import fixtures as fx

PROPERTY = 'C12'
RULE = ('BFS over sequences of representation changes / view writes / save-restore on one real stream; a state is the complete '
        'concrete digest (class, phase tuple, sparse rows incl. stored zeros, T, P, memo, which row object every held view and every '
        'cached sub-stream aliases, solver caches created, snapshots) plus the reference model; a case is counted non-trivial when '
        'the operation moved material between rows / changed the class or phase set of a NON-EMPTY stream, read or wrote through a '
        'held view, or restored a snapshot that differs from the current contents.')
ASSUMPTIONS = [
    'package B = (Ethanol, Water); flows are assigned from a small dyadic alphabet, merged rows add; entries are capped (transitions that would exceed the cap are cut and counted as rejected "cap")',
    'phase universes are subsets of {s,l,g,S,L}; closure (all histories of any length) is reached only for the universes/alphabets reported with depth_bound=null and exhaustive=true; the others are complete to the stated depth',
    'reduce_phases / as_stream / accessors choose the new phase set themselves: any choice is accepted as long as every non-empty phase keeps its label or, when that label is absent from the new set, takes the other-case label (two liquid phases l and L folded into l by reduce_phases is therefore accepted)',
    'a phase view is required to stay attached across a change of the parent\'s phase set as long as its phase stays in the set and the object stays multi-phase; views are forgotten when the stream becomes single-phase',
    'as_stream on a stream with two or more non-empty phase classes must raise RuntimeError and leave the stream unchanged (documented rejection)',
    'values between alphabet points, more than 2 chemicals and sequences longer than the completed depth are not claimed (the property text says ~30; closure systems cover any length inside their cap)',
]
TOLERANCES = {'flows': 0.0, 'T_P': 0.0, 'mass_view_rel': 1e-12}

T0, P0 = 300.0, 101325.0
T_ALPH = (300.0, 350.0)
P_ALPH = (101325.0, 202650.0)
ALL = ('s', 'l', 'g', 'S', 'L')
CLASS = {'g': 'g', 'l': 'l', 'L': 'l', 's': 's', 'S': 's'}
PATTERN = {'s': (1.0, 0.0), 'l': (0.0, 1.0), 'g': (1.0, 1.0), 'S': (2.0, 0.0), 'L': (0.0, 2.0)}
NEED = {'vle': ('g', 'l'), 'lle': ('L', 'l'), 'sle': ('l', 's')}

def swap(p): return p.lower() if p.isupper() else p.upper()
def ptuple(P): return tuple(sorted(set(P)))
def subsets(U):
    for k in range(1, len(U) + 1):
        for c in itertools.combinations(U, k): yield c

_th = None
def _thermo():
    global _th
    if _th is None: _th = fx.thermo('B')
    return _th


# ---- reference model -----------------------------------------------------------------------------------

class Model:
    __slots__ = ('kind', 'phases', 'rows', 'T', 'P')
    def __init__(self, kind, phases, rows, T, P):
        self.kind = kind; self.phases = tuple(phases); self.rows = {p: list(r) for p, r in rows.items()}
        self.T = T; self.P = P
    def copy(self): return Model(self.kind, self.phases, self.rows, self.T, self.P)
    def key(self): return (self.kind, self.phases, tuple(tuple(self.rows[p]) for p in self.phases), self.T, self.P)
    def nonempty(self): return [p for p in self.phases if any(self.rows[p])]
    def totals(self):
        n = len(next(iter(self.rows.values())))
        return [sum(self.rows[p][i] for p in self.phases) for i in range(n)]
    def classes(self): return sorted({CLASS[p] for p in self.nonempty()})
    def empty(self): return not self.nonempty()
    def maxentry(self): return max(max(r) for r in self.rows.values())

def place(rows_by_phase, target):
    """Where the property says the material goes: phase p stays p when p is in the target set, else takes the other-case
    label; returns (rows, lost) where lost lists non-empty phases that have no admissible row in the target."""
    n = len(next(iter(rows_by_phase.values())))
    out = {q: [0.0] * n for q in target}
    lost = []
    for p, r in rows_by_phase.items():
        if not any(r): continue
        q = p if p in out else (swap(p) if swap(p) in out else None)
        if q is None: lost.append(p); continue
        out[q] = [a + b for a, b in zip(out[q], r)]
    return out, lost

def convert(m, P):
    P = ptuple(P)
    rows, lost = place(m.rows, P)
    assert not lost
    return Model('S' if len(P) == 1 else 'M', P, rows, m.T, m.P)

def admissible(m, P):
    return all((p in P) or (swap(p) in P) for p in m.nonempty())


# ---- state ---------------------------------------------------------------------------------------------------

class St:
    __slots__ = ('s', 'm', 'views', 'snaps', 'last', 'nontriv', 'IDs', 'sysname', 'scope', 'pending')


def observe(s):
    tmo = fx.tmo()
    if type(s) is tmo.MultiStream:
        phases = tuple(s.phases)
        rows = {p: [float(x) for x in np.asarray(s.imol[p].to_array(), float)] for p in phases}
        return Model('M', phases, rows, float(s.T), float(s.P))
    if type(s) is tmo.Stream:
        p = s.phase
        return Model('S', (p,), {p: [float(x) for x in np.asarray(s.mol.to_array(), float)]}, float(s.T), float(s.P))
    raise Violation('class', f'object became a {type(s).__name__}')


def build_stream(desc, T=T0, P=P0):
    """desc = ('S', phase, flows) | ('M', 'phases', ((phase, flows), ...))"""
    tmo = fx.tmo(); th = _thermo(); IDs = th.chemicals.IDs
    if desc[0] == 'S':
        _, p, fl = desc
        kw = {ID: v for ID, v in zip(IDs, fl) if v}
        return tmo.Stream(None, phase=p, T=T, P=P, thermo=th, **kw)
    _, phases, pf = desc
    kw = {}
    for p, fl in pf:
        items = [(ID, v) for ID, v in zip(IDs, fl) if v]
        if items: kw[p] = items
    return tmo.MultiStream(None, phases=tuple(phases), T=T, P=P, thermo=th, **kw)

def build_from_streams(desc):
    """desc = ('FS', 'phases in the order the streams are passed', (occupied phases...)): MultiStream.from_streams of single-phase
    streams (stream k at T0 + 10 k, P0 + 1000 k: the first one's T and P become the common ones).  Returns (multistream, {phase: stream})."""
    tmo = fx.tmo(); th = _thermo(); IDs = th.chemicals.IDs
    _, order, occ = desc
    streams = []
    for k, p in enumerate(order):
        kw = {ID: v for ID, v in zip(IDs, PATTERN[p]) if v} if p in occ else {}
        streams.append(tmo.Stream(None, phase=p, T=T0 + 10.0 * k, P=P0 + 1000.0 * k, thermo=th, **kw))
    return tmo.MultiStream.from_streams(streams, thermo=th), dict(zip(order, streams))

def model_of(desc, T=T0, P=P0):
    n = 2
    if desc[0] == 'FS':
        phases = ptuple(desc[1])
        return Model('M', phases, {p: list(PATTERN[p]) if p in desc[2] else [0.0] * n for p in phases}, T, P)
    if desc[0] == 'S':
        return Model('S', (desc[1],), {desc[1]: list(map(float, desc[2]))}, T, P)
    phases = ptuple(desc[1])
    rows = {p: [0.0] * n for p in phases}
    for p, fl in desc[2]: rows[p] = list(map(float, fl))
    return Model('M', phases, rows, T, P)

def desc_of(m):
    if m.kind == 'S': return ('S', m.phases[0], tuple(m.rows[m.phases[0]]))
    return ('M', ''.join(m.phases), tuple((p, tuple(m.rows[p])) for p in m.phases))


class C12(System):
    nontrivial_per_config = False
    #: canon() holds the complete concrete state and the whole model; a config only selects the initial objects
    merge_across_configs = True

    def __init__(self, name, universe, writes, cap, depth_q, depth_t, configs='seeds', max_views=2, max_snaps=0,
                 T_writes=(350.0,), P_writes=(), accessors=True, copy_like=False, init_snap=False,
                 tcap_q=None, tcap_t=None, state_cap=3_000_000, first_ops=None, quick_configs=None, init_scope=False, probe=True):
        self.name = name
        self.U = tuple(universe)
        self.writes = tuple(writes)          # ((chemical index, value), ...)
        self.cap = cap
        self._dq, self._dt = depth_q, depth_t
        self.cfgmode = configs
        self.max_views = max_views
        self.max_snaps = max_snaps
        self.T_writes = tuple(T_writes); self.P_writes = tuple(P_writes)
        self.accessors = accessors
        self.copy_like = copy_like
        self.init_snap = init_snap
        self._tq, self._tt = tcap_q, tcap_t
        self.state_cap = state_cap
        self.first_ops = first_ops          # restrict the FIRST action of every history to these operations
        self.quick_configs = quick_configs
        #: actions temp_new (scope = stream.temporary(T=...)) and temp_use (`with scope:`): a use must restore the state AT ENTRY
        self.init_scope = init_scope
        #: probe=True: s[p] is fetched and proven live for every phase inside build and after every step.  probe=False: sub-streams are only
        #: fetched by explicit actions (view, viewx = request by the OTHER-CASE label of a phase whose exact label is absent, probe)
        self.probe = probe

    def warm(self):
        fx.tmo(); _thermo()
        # first use of every lazily created helper, so that forked workers share them
        s = build_stream(('M', 'gl', (('l', (1.0, 2.0)),))); s.vle; s.lle; s.sle; s['l']; s.get_data()

    def reset_globals(self): fx.reset_globals(_thermo())
    def depth(self, tier): return self._dq if tier == 'quick' else self._dt
    def time_cap(self, tier): return self._tq if tier == 'quick' else self._tt
    def describe(self, tier):
        return dict(universe=''.join(self.U), write_alphabet=[list(w) for w in self.writes], entry_cap=self.cap,
                    max_views=self.max_views, max_snapshots=self.max_snaps, T_writes=list(self.T_writes), P_writes=list(self.P_writes),
                    config_mode=self.cfgmode)

    # ---- configurations -----------------------------------------------------------------------------------
    def configs(self, tier, seed):
        U = self.U
        cfgs = []
        if self.cfgmode == 'seeds':
            # closure systems: a handful of seeds, everything else is reachable through writes
            cfgs.append(('S', U[0], PATTERN[U[0]]))
            cfgs.append(('M', ''.join(ptuple(U[:2])), ((U[0], PATTERN[U[0]]),)))
        else:
            # ('grid' and 'pairs') every phase set Q of the universe x every choice of which phases of Q hold material
            for Q in subsets(U):
                for k in range(0, len(Q) + 1):
                    for ne in itertools.combinations(Q, k):
                        pf = tuple((p, PATTERN[p]) for p in ne)
                        cfgs.append(('M', ''.join(ptuple(Q)), pf))
                        if len(Q) == 1:
                            cfgs.append(('S', Q[0], PATTERN[Q[0]] if ne else (0.0, 0.0)))
        if self.cfgmode == 'fs':
            # MultiStream.from_streams: every ORDER in which 2 or 3 single-phase streams of distinct phases can be passed
            cfgs = []
            for k in (2, 3):
                for order in itertools.permutations(U, k):
                    for occ in (order, order[:1], order[-1:], ()):
                        cfgs.append(('FS', ''.join(order), tuple(occ)))
        if self.cfgmode == 'pairs':
            # (current stream, stream whose saved data is restored): every pair of grid configurations
            cfgs = [('pair', a, b) for a in cfgs for b in cfgs]
        k = seed % len(cfgs)
        cfgs = cfgs[k:] + cfgs[:k]
        if tier == 'quick' and self.quick_configs: cfgs = cfgs[:self.quick_configs]
        return cfgs

    def build(self, config):
        st = St()
        pair = None
        if config[0] == 'pair': _, config, pair = config
        st.views = {}           # phase -> [object, epoch]   epoch: 'current' | 'old' (taken before the last phase-set change)
        if config[0] == 'FS':
            st.s, given = build_from_streams(config)
            st.views = {p: [v, 'current'] for p, v in given.items()}      # the streams that were passed ARE the phase views
        else:
            st.s = build_stream(config)
        st.m = model_of(config)
        st.snaps = []           # [(StreamData, Model)]
        st.last = None; st.nontriv = False
        st.IDs = _thermo().chemicals.IDs
        if self.init_snap:
            st.snaps.append((st.s.get_data(), st.m.copy()))
        if pair is not None:
            st.snaps.append((build_stream(pair).get_data(), model_of(pair)))
        st.scope = None          # a `stream.temporary(T=...)` scope, created by the action temp_new
        # oracles that must run inside build (they create memo entries); what they find is reported by invariants() for the initial state
        st.pending = []
        try:
            self._probe_views(st)
            st.pending.extend(self._mass_views(st))
        except Violation as v:
            st.pending.append(v)
        return st

    # ---- canon -----------------------------------------------------------------------------------------------
    def canon(self, st):
        tmo = fx.tmo()
        s = st.s; ids = {}
        core = fx.stream_digest(s, ids)
        multi = isinstance(s, tmo.MultiStream)
        rows = s._imol.data.rows if multi else None
        def rowno(obj):
            if rows is not None:
                for i, r in enumerate(rows):
                    if r is obj: return i
            if obj is s._imol.data: return 'data'
            return ('detached', fx.sparse_digest(obj))
        sub = None; caches = None
        if multi:
            sub = tuple(sorted((p, rowno(v._imol.data), v._thermal_condition is s._thermal_condition,
                                v._imol._phase._phase) for p, v in s._streams.items()))
            caches = tuple((bool(c.value), c.args[0] is s._imol) for c in (s._vle_cache, s._lle_cache, s._sle_cache))
        views = tuple(sorted((p, e, rowno(v._imol.data), v._thermal_condition is s._thermal_condition,
                              multi and s._streams.get(p) is v, fx.stream_digest(v, ids)[3:])
                             for p, (v, e) in st.views.items()))
        snaps = tuple((d._phases if isinstance(d._phases, tuple) else tuple(d._phases), fx.sparse_digest(d._imol.data), d._T, d._P, m.key(),
                       d._imol is s._imol, d._imol.data is s._imol.data) for d, m in st.snaps)
        scope = None
        if st.scope is not None:
            d = st.scope.data
            scope = (tuple(d._phases), fx.sparse_digest(d._imol.data), d._T, d._P)
        return (core, sub, caches, views, snaps, st.m.key(), scope)

    # ---- actions ------------------------------------------------------------------------------------------------
    def actions(self, st):
        m = st.m; acts = []
        for Q in subsets(self.U):
            if admissible(m, Q): acts.append(('phases', ''.join(ptuple(Q))))
        for p in self.U:
            if admissible(m, (p,)): acts.append(('phase', p))
        acts.append(('reduce',)); acts.append(('as_stream',))
        if self.accessors:
            for a in ('vle', 'lle', 'sle'): acts.append(('touch', a))
        if m.kind == 'M' and not self.probe:
            acts.append(('probe',))
            for p in m.phases:
                if swap(p) not in m.phases and swap(p) in ALL: acts.append(('viewx', p))
        if m.kind == 'M':
            for p in m.phases:
                held = st.views.get(p)
                if (held is None and len(st.views) < self.max_views) or (held is not None and held[1] == 'old'):
                    acts.append(('view', p))
        for p in m.phases:
            for c, x in self.writes:
                if m.rows[p][c] != x: acts.append(('wp', p, c, x))
        for p in sorted(st.views):
            for c, x in self.writes:
                if m.rows[p][c] != x: acts.append(('wv', p, c, x))
        for t in self.T_writes + (T0,):
            if t != m.T:
                acts.append(('T', 'parent', t))
                for p in sorted(st.views): acts.append(('T', p, t))
        for q in self.P_writes + (P0,):
            if q != m.P:
                acts.append(('P', 'parent', q))
                for p in sorted(st.views): acts.append(('P', p, q))
        if len(st.snaps) < self.max_snaps + (1 if self.init_snap else 0): acts.append(('get_data',))
        for i in range(len(st.snaps)):
            acts.append(('set_data', i))
            acts.append(('from_data', i))
            if self.copy_like: acts.append(('copy_like', i))
        if self.init_scope: acts.append(('temp_use',) if st.scope is not None else ('temp_new',))
        if self.first_ops is not None and st.last is None:
            acts = [a for a in acts if a[0] in self.first_ops]
        return acts

    # ---- helpers for the oracle ------------------------------------------------------------------------------
    def _diff(self, exp, obs):
        """first field in which two Models differ (None if equal)"""
        if exp.kind != obs.kind: return 'class'
        if exp.phases != obs.phases: return 'phases'
        if exp.T != obs.T: return 'T'
        if exp.P != obs.P: return 'P'
        if exp.totals() != obs.totals(): return 'totals'
        for p in exp.phases:
            if exp.rows[p] != obs.rows[p]: return 'placement'
        return None

    def _check_exact(self, st, exp, obs, op, extra=None):
        d = self._diff(exp, obs)
        if d is None: return
        match = dict(op=op, what=d, kind=st.m.kind)
        if extra: match.update(extra)
        clause = {'class': 'wrong-class', 'phases': 'wrong-phases', 'T': 'TP-changed', 'P': 'TP-changed',
                  'totals': 'totals-changed', 'placement': 'phase-material-moved'}[d]
        raise Violation(clause, f'{op}: expected {exp.key()} observed {obs.key()}', match=match,
                        detail=dict(expected=exp.key(), observed=obs.key(), before=st.m.key()))

    def _check_repr(self, st, before, obs, op, extra=None, need=()):
        """the implementation chose the new phase set itself: contents must be what `place` says for that set"""
        extra = dict(extra or {})
        if obs.T != before.T or obs.P != before.P:
            raise Violation('TP-changed', f'{op}: T,P {before.T},{before.P} -> {obs.T},{obs.P}', match=dict(op=op, what='TP', **extra))
        if obs.totals() != before.totals():
            raise Violation('totals-changed', f'{op}: totals {before.totals()} -> {obs.totals()}', match=dict(op=op, what='totals', **extra),
                            detail=dict(before=before.key(), observed=obs.key()))
        rows, lost = place(before.rows, obs.phases)
        if lost or any(rows[p] != obs.rows[p] for p in obs.phases):
            src = [p for p in before.nonempty() if p in lost or obs.rows.get(p if p in obs.phases else swap(p)) != rows.get(p if p in obs.phases else swap(p))]
            dst = obs.nonempty()
            raise Violation('phase-material-moved',
                            f'{op}: material of phase(s) {before.nonempty()} of {before.key()} is found in {dst} of {obs.key()}',
                            match=dict(op=op, **(dict(src=''.join(sorted(before.nonempty())), dst=''.join(sorted(dst))) if op == 'touch' else {}), **extra),
                            detail=dict(before=before.key(), observed=obs.key(), expected_rows={p: rows[p] for p in obs.phases}))
        for p in need:
            if p not in obs.phases:
                raise Violation('wrong-phases', f'{op}: phase {p!r} missing from {obs.phases}', match=dict(op=op, **extra))

    def _adopt(self, st, new, phase_set_may_change=True):
        """make `new` the model; keep/forget held views according to the rule stated in ASSUMPTIONS"""
        old = st.m
        if new.kind == 'S':
            st.views = {}
        elif old.kind == 'M' and new.phases != old.phases:
            st.views = {p: [v, 'old'] for p, (v, e) in st.views.items() if p in new.phases}
        elif old.kind != 'M':
            st.views = {}
        st.m = new

    # ---- mass views: evaluated inside build/step (reading them creates memo entries, so it must be part of the replayed history)
    def _mass_views(self, st):
        s = st.s; m = st.m; out = []
        op = st.last[0] if st.last else 'init'
        # the mass view (memoised wrapper around the molar rows) reads the current rows
        try:
            MW = np.asarray(s.chemicals.MW, float)
            mol = np.atleast_2d(np.asarray(s._imol.data.to_array(), float))
            mass = np.atleast_2d(np.asarray(s.imass.data.to_array(), float))
            if mass.shape != mol.shape or not np.allclose(mass, mol * MW, rtol=1e-12, atol=0.0):
                out.append(Violation('mass-view-stale', f'after {st.last!r}: imass reads {mass.tolist()}, imol * MW is {(mol * MW).tolist()}',
                                     match=dict(op=op, who='parent')))
            for p, (v, epoch) in sorted(st.views.items()):
                vm = np.asarray(v.mass.to_array(), float); want = np.asarray(m.rows[p], float) * MW
                if not np.allclose(vm, want, rtol=1e-12, atol=0.0):
                    out.append(Violation('mass-view-stale', f'after {st.last!r}: mass view of the phase view {p!r} (taken {epoch}) reads {vm.tolist()}, '
                                         f'parent row * MW is {want.tolist()}', match=dict(op=op, who='view', view=epoch)))
        except Exception as e:
            out.append(Violation('unexpected-exception', f'after {st.last!r}: reading the mass view raised {type(e).__name__}: {e}',
                                 match=dict(op='read-mass-view', exc=type(e).__name__)))
        return out

    def _probe_views(self, st, force=False):
        """Fetch s[p] for EVERY phase of a multi-phase stream and prove that what is handed out is a live view: it reads the
        parent's row, a write through the parent is read by the view, a write through the view is read by the parent (the
        second write restores the entry), same T and P.  Run inside build/step (fetching creates cached sub-streams), so also
        right after a multi -> single -> multi round trip, whatever was cached before the collapse."""
        s = st.s; m = st.m
        if m.kind != 'M' or not (self.probe or force): return
        op = st.last[0] if st.last else 'init'
        ID = st.IDs[0]
        try:
            labels = [v.phase for v in s]
        except Exception as e:
            raise Violation('unexpected-exception', f'after {st.last!r}: iterating over the stream raised {type(e).__name__}: {e}', match=dict(op='iterate', exc=type(e).__name__))
        if labels != list(m.phases):
            raise Violation('view-phase', f'after {st.last!r}: iterating over the stream yields sub-streams labelled {labels}, its phases are {list(m.phases)}',
                            match=dict(op=op, view='iterated'))
        for p in m.phases:
            try:
                v = s[p]
                if v.phase != p:
                    raise Violation('view-phase', f's[{p!r}].phase == {v.phase!r}', match=dict(op=op, view='fetched'))
                vr = [float(x) for x in np.asarray(v.mol.to_array(), float)]
                if vr != m.rows[p]:
                    raise Violation('view-stale', f'after {st.last!r}: s[{p!r}] reads {vr}, parent row is {m.rows[p]}', match=dict(view='fetched', after=op))
                if float(v.T) != m.T or float(v.P) != m.P:
                    raise Violation('view-TP', f'after {st.last!r}: s[{p!r}] has T,P {v.T},{v.P}; parent {m.T},{m.P}', match=dict(view='fetched', writer='parent'))
                old = m.rows[p][0]
                s.imol[p, ID] = old + 1.0
                got = float(v.imol[ID])
                if got != old + 1.0:
                    raise Violation('view-stale', f'after {st.last!r}: wrote {old + 1.0} to the parent\'s ({p!r}, {ID}); the view s[{p!r}] fetched afterwards reads {got}',
                                    match=dict(view='fetched', after=op, probe='parent-write'))
                v.imol[ID] = old
                got = float(s.imol[p, ID])
                if got != old:
                    raise Violation('view-write-lost', f'after {st.last!r}: wrote {old} through s[{p!r}]; the parent reads {got}', match=dict(view='fetched', what='probe'))
            except Violation: raise
            except Exception as e:
                raise Violation('unexpected-exception', f'after {st.last!r}: fetching / probing s[{p!r}] raised {type(e).__name__}: {e}',
                                match=dict(op='fetch-view', exc=type(e).__name__))

    def step(self, st, a):
        obs = self._step(st, a)
        self._probe_views(st)
        for v in self._mass_views(st): raise v
        return obs

    # ---- one transition ---------------------------------------------------------------------------------------------
    def _step(self, st, a):
        tmo = fx.tmo()
        s = st.s; m = st.m; op = a[0]
        before = m.copy()
        st.last = a; st.nontriv = False
        IDs = st.IDs

        def run(f, opname, extra=None, documented=()):
            try:
                return f()
            except documented as e:
                raise
            except Exception as e:
                raise Violation('unexpected-exception', f'{opname} {a!r} on {before.key()} raised {type(e).__name__}: {e}',
                                match=dict(op=opname, exc=type(e).__name__, kind=before.kind, empty=before.empty(), **(extra or {})),
                                detail=dict(before=before.key()))

        if op in ('phases', 'phase'):
            P = tuple(a[1])
            exp = convert(m, P)
            if exp.maxentry() > self.cap: raise Rejected('cap', cut=True)
            if op == 'phases': run(lambda: setattr(s, 'phases', P), op, dict(n_target=min(len(P), 2)))
            else: run(lambda: setattr(s, 'phase', P[0]), op)
            obs = observe(s)
            self._check_exact(st, exp, obs, op, dict(n_target=min(len(P), 2)) if op == 'phases' else None)
            st.nontriv = (not before.empty()) and (exp.kind != before.kind or exp.phases != before.phases)
            self._adopt(st, exp)
            return (op, before.kind + '>' + exp.kind, len(before.nonempty()), len(exp.nonempty()))

        if op == 'reduce':
            run(lambda: s.reduce_phases(), op)
            obs = observe(s)
            if before.kind == 'S':
                self._check_exact(st, before, obs, op)
            else:
                self._check_repr(st, before, obs, op)
                if not before.empty():
                    for p in obs.phases:
                        if not any(obs.rows[p]):
                            raise Violation('empty-phase-kept', f'reduce_phases left the empty phase {p!r} in {obs.key()}', match=dict(op=op))
                    if obs.maxentry() > self.cap: raise Rejected('cap', cut=True)
            st.nontriv = (not before.empty()) and obs.phases != before.phases
            self._adopt(st, obs)
            return (op, before.kind + '>' + obs.kind, len(before.nonempty()), len(obs.nonempty()))

        if op == 'as_stream':
            ncls = len(before.classes())
            try:
                s.as_stream()
                raised = None
            except RuntimeError as e:
                raised = e
            except Exception as e:
                raise Violation('unexpected-exception', f'as_stream on {before.key()} raised {type(e).__name__}: {e}',
                                match=dict(op=op, exc=type(e).__name__, kind=before.kind, empty=before.empty()))
            obs = observe(s)
            if before.kind == 'S':
                if raised: raise Violation('unexpected-exception', f'as_stream on a single-phase stream raised {raised}', match=dict(op=op, exc='RuntimeError', kind='S', empty=before.empty()))
                self._check_exact(st, before, obs, op)
                return (op, 'S')
            if ncls >= 2:
                if raised is None:
                    raise Violation('as-stream-merged-phases', f'as_stream on {before.key()} returned normally: {obs.key()}', match=dict(op=op))
                self._check_exact(st, before, obs, 'as_stream-rejected')
                st.nontriv = True
                raise Rejected('as_stream:multiple-phases', cut=False)
            if raised is not None:
                raise Violation('unexpected-exception', f'as_stream on {before.key()} (one phase class present) raised {raised}',
                                match=dict(op=op, exc='RuntimeError', kind='M', empty=before.empty()))
            self._check_repr(st, before, obs, op)
            if obs.kind != 'S':
                raise Violation('wrong-class', f'as_stream left a {obs.kind} {obs.key()}', match=dict(op=op))
            if obs.maxentry() > self.cap: raise Rejected('cap', cut=True)
            st.nontriv = not before.empty()
            self._adopt(st, obs)
            return (op, 'M>S', len(before.nonempty()))

        if op == 'touch':
            acc = a[1]
            src = ''.join(sorted(before.nonempty()))
            solver = run(lambda: getattr(s, acc), op, dict(accessor=acc, src=src if before.kind == 'S' else 'M'))
            obs = observe(s)
            extra = dict(accessor=acc, kind=before.kind)
            if solver is None:
                raise Violation('no-solver', f'.{acc} returned None', match=dict(op=op, **extra))
            self._check_repr(st, before, obs, op, extra, need=NEED[acc])
            if obs.kind != 'M':
                raise Violation('wrong-class', f'.{acc} left a single-phase object', match=dict(op=op, **extra))
            simol = getattr(solver, '_imol', None)
            if simol is not None and simol is not s._imol:
                raise Violation('solver-detached', f'.{acc} returned a solver bound to another indexer than the stream\'s current one',
                                match=dict(op=op, **extra))
            if obs.maxentry() > self.cap: raise Rejected('cap', cut=True)
            st.nontriv = (not before.empty()) and (obs.kind != before.kind or obs.phases != before.phases)
            self._adopt(st, obs)
            return (op, acc, before.kind, ''.join(before.phases) + '>' + ''.join(obs.phases))

        if op == 'probe':
            self._probe_views(st, force=True)
            st.nontriv = not before.empty()
            return (op, len(before.phases))

        if op == 'viewx':
            # request the sub-stream by the OTHER-CASE label of phase p (exact label absent): on HEAD this resolves to p's row
            p = a[1]; q = swap(p)
            w = run(lambda: s[q], op)
            got = [float(x) for x in np.asarray(w.mol.to_array(), float)]
            if got != before.rows[p] or float(w.T) != before.T or float(w.P) != before.P:
                raise Violation('view-stale', f's[{q!r}] (only {p!r} is defined) reads {got} at {w.T}, {w.P}; row {p!r} is {before.rows[p]} at {before.T}, {before.P}',
                                match=dict(view='other-case', after=op))
            obs = observe(s)
            self._check_exact(st, before, obs, op)
            st.nontriv = any(before.rows[p])
            return (op, p)

        if op == 'from_data':
            # a NEW stream is created from a saved StreamData and becomes the stream under test; the saved object must stay what it was
            # under every later operation (state oracle `snapshot-changed`) and can be restored from again (set_data / from_data)
            d, snap = st.snaps[a[1]]
            cls = tmo.MultiStream if snap.kind == 'M' else tmo.Stream
            new = run(lambda: cls.from_data(d, thermo=_thermo()), op, dict(snap_kind=snap.kind))
            obs = observe(new)
            exp = snap.copy()
            if len(exp.phases) == 1 and obs.kind in ('S', 'M'): exp.kind = obs.kind
            self._check_exact(st, exp, obs, op, dict(snap_kind=snap.kind))
            if observe(s).key() != before.key():
                raise Violation('source-changed', f'from_data changed the stream the data was saved from / the current stream: {before.key()} -> {observe(s).key()}', match=dict(op=op))
            st.s = new; st.views = {}; st.scope = None
            st.m = exp
            st.nontriv = True
            return (op, snap.kind)

        if op == 'view':
            p = a[1]
            v = run(lambda: s[p], op)
            if v.phase != p:
                raise Violation('view-phase', f's[{p!r}].phase == {v.phase!r}', match=dict(op=op))
            st.views[p] = [v, 'current']
            st.nontriv = any(before.rows[p])
            return (op, p, bool(st.nontriv))

        if op == 'wp':
            _, p, c, x = a
            if before.kind == 'M': run(lambda: s.imol.__setitem__((p, IDs[c]), x), op)
            else: run(lambda: s.imol.__setitem__(IDs[c], x), op)
            exp = before.copy(); exp.rows[p][c] = x
            obs = observe(s)
            self._check_exact(st, exp, obs, op)
            st.m = exp
            st.nontriv = p in st.views
            return (op, before.kind, p in st.views)

        if op == 'wv':
            _, p, c, x = a
            v, epoch = st.views[p]
            run(lambda: v.imol.__setitem__(IDs[c], x), op)
            exp = before.copy(); exp.rows[p][c] = x
            obs = observe(s)
            d = self._diff(exp, obs)
            if d is not None:
                raise Violation('view-write-lost', f'write through the held view of phase {p!r} (taken {epoch}) is not seen by the parent: '
                                f'expected {exp.key()} observed {obs.key()}', match=dict(view=epoch, what=d),
                                detail=dict(expected=exp.key(), observed=obs.key()))
            st.m = exp
            st.nontriv = True
            return (op, epoch)

        if op in ('T', 'P'):
            _, who, val = a
            tgt = s if who == 'parent' else st.views[who][0]
            run(lambda: setattr(tgt, op, val), op)
            exp = before.copy(); setattr(exp, op, val)
            obs = observe(s)
            d = self._diff(exp, obs)
            if d is not None:
                if who != 'parent':
                    raise Violation('view-TP', f'{op} set through the view of phase {who!r} (taken {st.views[who][1]}): parent reads {getattr(obs, op)}',
                                    match=dict(view=st.views[who][1], writer='view'))
                self._check_exact(st, exp, obs, op)
            st.m = exp
            st.nontriv = bool(st.views)
            return (op, who != 'parent', bool(st.views))

        if op == 'temp_new':
            st.scope = run(lambda: s.temporary(T=T_ALPH[1]), op)
            obs = observe(s)
            self._check_exact(st, before, obs, op)
            return (op, before.kind)

        if op == 'temp_use':
            # `with scope:` (scope = stream.temporary(T=350) created by temp_new): inside, T is 350 and a flow is overwritten;
            # on exit flows, phases, T and P must be what they were AT ENTRY (whatever happened since the scope was created / last used)
            p0 = before.phases[0]
            key = IDs[0] if before.kind == 'S' else (p0, IDs[0])
            def f():
                with st.scope as t:
                    if t is not s: raise Violation('scope-stream', 'the scope yields another object than the stream')
                    s.imol[key] = before.rows[p0][0] + 1.0
            run(f, op)
            obs = observe(s)
            exp = before.copy()
            if len(exp.phases) == 1 and obs.kind in ('S', 'M'): exp.kind = obs.kind
            self._check_exact(st, exp, obs, op)
            st.nontriv = True
            self._adopt(st, exp)
            return (op, before.kind)

        if op == 'get_data':
            d = run(lambda: s.get_data(), op)
            st.snaps.append((d, before.copy()))
            st.nontriv = not before.empty()
            return (op, before.kind)

        if op == 'set_data':
            d, snap = st.snaps[a[1]]
            differs = snap.key() != before.key()
            lost = [p for p in before.nonempty() if p not in snap.phases and swap(p) not in snap.phases]
            run(lambda: s.set_data(d), op, dict(snap_kind=snap.kind, strays=bool(lost)))
            obs = observe(s)
            exp = snap.copy()
            # the property names flows, phases, T and P, not the class: a one-phase MultiStream may come back as a Stream
            if len(exp.phases) == 1 and obs.kind in ('S', 'M'): exp.kind = obs.kind
            self._check_exact(st, exp, obs, op, dict(snap_kind=snap.kind))
            st.nontriv = differs
            self._adopt(st, exp)
            return (op, before.kind + '>' + snap.kind, differs, bool(lost))

        if op == 'copy_like':
            d, snap = st.snaps[a[1]]
            twin = build_stream(desc_of(snap), snap.T, snap.P)
            run(lambda: s.copy_like(twin), op, dict(src_kind=snap.kind, n_src=min(len(snap.phases), 2)))
            obs = observe(s)
            src = Model(snap.kind, snap.phases, snap.rows, snap.T, snap.P)
            self._check_repr(st, src, obs, op, dict(kind=before.kind, src_kind=snap.kind, n_src=min(len(snap.phases), 2)))
            tw = observe(twin)
            if tw.key() != snap.key():
                raise Violation('source-changed', f'copy_like changed its source: {snap.key()} -> {tw.key()}', match=dict(op=op))
            st.nontriv = snap.key() != before.key()
            self._adopt(st, obs)
            return (op, before.kind + '<' + snap.kind, st.nontriv)

        raise ValueError(a)

    # ---- state oracle --------------------------------------------------------------------------------------------
    def invariants(self, st):
        out = []
        if st.last is None and st.pending: return list(st.pending)
        tmo = fx.tmo()
        s = st.s; m = st.m
        op = st.last[0] if st.last else 'init'
        try:
            obs = observe(s)
        except Violation as v:
            return [v]
        if obs.key() != m.key():
            out.append(Violation('model-mismatch', f'after {st.last!r}: model {m.key()} stream {obs.key()}', match=dict(op=op)))
            return out
        # public totals agree with the rows
        tot = [float(x) for x in np.asarray(s.mol.to_array(), float)]
        if tot != m.totals():
            out.append(Violation('totals-changed', f's.mol == {tot} but the rows sum to {m.totals()}', match=dict(op=op, what='mol-property')))
        # representation: no stored zero / negative
        datas = s._imol.data.rows if m.kind == 'M' else [s._imol.data]
        for r in datas:
            if any((not x) or x < 0 for x in r.dct.values()):
                out.append(Violation('stored-zero', f'after {st.last!r}: row holds {dict(r.dct)}', match=dict(op=op)))
        # held views are live
        for p, (v, epoch) in sorted(st.views.items()):
            writer = {'wp': 'parent', 'wv': 'view'}.get(op, op)
            try:
                vr = [float(x) for x in np.asarray(v.mol.to_array(), float)]
                if v.phase != p:
                    out.append(Violation('view-phase', f'view of {p!r} reports phase {v.phase!r}', match=dict(view=epoch)))
                if vr != m.rows[p]:
                    out.append(Violation('view-stale', f'after {st.last!r}: view of phase {p!r} (taken {epoch}) reads {vr}, parent row is {m.rows[p]}',
                                         match=dict(view=epoch, after=writer)))
                if float(v.T) != m.T or float(v.P) != m.P:
                    out.append(Violation('view-TP', f'after {st.last!r}: view of phase {p!r} (taken {epoch}) has T,P {v.T},{v.P}; parent {m.T},{m.P}',
                                         match=dict(view=epoch, writer='parent')))
            except Violation: raise
            except Exception as e:
                out.append(Violation('unexpected-exception', f'reading the held view of {p!r} raised {type(e).__name__}: {e}',
                                     match=dict(op='read-view', exc=type(e).__name__)))
        # snapshots still hold what was saved
        for i, (d, snap) in enumerate(st.snaps):
            got = (tuple(d._phases), float(d._T), float(d._P))
            if snap.kind == 'M':
                rows = tuple(tuple(float(x) for x in r.to_array()) for r in d._imol.data.rows)
            else:
                rows = (tuple(float(x) for x in d._imol.data.to_array()),)
            want = (snap.phases, snap.T, snap.P)
            wrows = tuple(tuple(snap.rows[p]) for p in snap.phases)
            if got != want or rows != wrows:
                out.append(Violation('snapshot-changed', f'after {st.last!r}: snapshot {i} was {want + wrows}, now holds {got + rows}', match=dict(op=op)))
        return out

    def nontrivial(self, st, a, obs): return bool(st.nontriv)

    def outcome(self, st, a, obs):
        return repr((a[0], obs))[:200]


W1 = ((0, 0.0), (0, 1.0), (1, 2.0))
W0 = ((0, 0.0), (0, 1.0))

SYSTEMS = [
    # depth 1/2 (3): every phase set x every occupancy pattern as the initial flow distribution, all operations incl. one snapshot
    C12('c12.grid', ALL, W1, 8.0, 2, 3, configs='grid', max_views=2, max_snaps=1, P_writes=(202650.0,), copy_like=True, tcap_t=400, init_scope=True),
    # MultiStream.from_streams with the streams passed in every order; the passed streams are held as the phase views
    C12('c12.from_streams', ALL, W1, 8.0, 1, 2, configs='fs', max_views=3, max_snaps=1, tcap_t=200),
    # CLOSURE over three-phase universes (all histories of ANY length): one written chemical with values {0,1} (the second chemical
    # only moves with its row), entry cap 2, one held view, restore of the initial snapshot; quick = depth-5 prefix of the same space
    C12('c12.closure.gls', ('g', 'l', 's'), W0, 2.0, 4, None, max_views=1, init_snap=True, T_writes=(), tcap_t=180),
    C12('c12.closure.lLg', ('l', 'L', 'g'), W0, 2.0, 4, None, max_views=1, init_snap=True, T_writes=(), tcap_t=180),
    C12('c12.closure.sSl', ('s', 'S', 'l'), W0, 2.0, 4, None, max_views=1, init_snap=True, T_writes=(), tcap_t=180),
    # the same universes with two written chemicals, T writes, two views, cap 3: depth-bounded
    C12('c12.deep.lLg', ('l', 'L', 'g'), W1, 3.0, 3, 6, max_views=2, init_snap=True, tcap_t=60, init_scope=True),
    C12('c12.deep.sSl', ('s', 'S', 'l'), W1, 3.0, 3, 6, max_views=2, init_snap=True, tcap_t=120, init_scope=True),
    C12('c12.deep.gls', ('g', 'l', 's'), W1, 3.0, 3, 6, max_views=2, init_snap=True, tcap_t=60, init_scope=True),
    # sub-streams requested by the other-case label BEFORE the exact label exists; nothing is fetched automatically here
    C12('c12.xcase.lLg', ('l', 'L', 'g'), W0, 2.0, 3, 5, max_views=2, init_snap=True, T_writes=(), probe=False, tcap_t=60),
    C12('c12.xcase.sSl', ('s', 'S', 'l'), W0, 2.0, 3, 5, max_views=2, init_snap=True, T_writes=(), probe=False, tcap_t=60),
    # restore / copy a saved state onto every other state: all ordered pairs (current, saved) of grid configurations
    C12('c12.restore4', ('g', 'l', 's', 'L'), W1, 8.0, 1, 2, configs='pairs', max_views=1, max_snaps=0, copy_like=True,
        first_ops=('set_data', 'copy_like', 'from_data'), tcap_t=100),
    C12('c12.restore5', ALL, W1, 8.0, 1, 1, configs='pairs', max_views=0, max_snaps=0, copy_like=True,
        first_ops=('set_data', 'copy_like', 'from_data'), quick_configs=2000, tcap_t=100),
    # the whole universe, depth-bounded, two snapshots
    C12('c12.snap', ALL, W1, 8.0, 3, 5, max_views=1, max_snaps=2, copy_like=True, T_writes=(350.0,), tcap_t=150, init_scope=True),
]
