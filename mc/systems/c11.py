"""
C11 — molar / mass / volumetric views and unit conversions of a stream always agree.

Explicit-state search over a REAL stream `s` and a partner `o` (both `ID=None`, `thermo=` explicit).  The primary
state of a stream is its molar data (`_imol.data`), its phase container(s) and its thermal condition; everything the
property talks about (mass view, volumetric view, totals, unit conversions) is *derived* and partly memoised in
`_imol._data_cache` (the 'mass' view, one 'vol' view per thermal-condition object, and inside each volumetric view a
per-chemical `(TP copy, V)` memo).  The explorer interleaves view reads / view writes with every structural operation
named by the property (T, P, phase, phases, link_with x 8 flag sets, unlink, copy_like, property-package reset, empty)
and checks, against a boring NumPy reference:

  state oracle (every stream of the universe, after every action in the `eager` systems, on explicit read actions in
  the `lazy` systems so that the order *cache creation <-> structural change* is explored both ways):
      mass == mol * MW                                   (per entry, per phase)
      vol  == mol * 1000 * V_i(phase, T, P)              V_i evaluated afresh from chemical.V at the CURRENT phase/T/P
      F_mol, F_mass, F_vol == sums of the views
      get_flow(u) / get_total_flow(u) == base value * conversion constant (constants hard-coded here, not from pint)
  transition oracle:
      a write of x through a view (vector item, indexer item, set_flow in 8 units) puts x / (unit factor * MW or 1000 V)
      into exactly that molar entry, leaves all others untouched and reads back as x in the same unit;
      set_total_flow / F_x = keep the composition and read back as written;
      a unit of the wrong dimension raises DimensionError and changes nothing;
      a write to one stream changes the other iff the two share the molar container.
"""
from __future__ import annotations
import numpy as np
from mc.engine import System, Violation, Rejected
from mc import fixtures as fx

PROPERTY = 'C11'
RULE = ('BFS over interleavings of view reads/writes and structural operations on a real stream s and a partner o; a state is the '
        'complete digest of both streams (flows incl. stored zeros, phase containers, T/P, aliasing graph of data / phase / TP / '
        '_data_cache, the cached mass and volumetric views with the dict they wrap and every per-chemical (TP, V) memo); two '
        'histories merge iff the digests are equal.  A transition is non-trivial when a mutation or structural operation hit a '
        'stream that had at least one cached view, or a read was served by an already cached view.')
ASSUMPTIONS = [
    'packages: A=(Water, Ethanol, Methanol) and the re-ordered superset A2=(Ethanol, Methanol, Water, Propanol) for the property-package reset; '
    'all chemicals have molar-volume models in s, l and g',
    'flow alphabet {0, 0.375, 1, 2.5, 3}; T in {298.15, 350} (partner 330/360), P in {101325, 5e5} (partner 2e5); phases l, g, (g,l), (g,l,s); a solid single-phase partner in the thorough tier',
    'link_with is only applied between streams of the same class, package and phase tuple (the library does not check the latter two; '
    'linking arrays of different shape is outside the property)',
    'which containers a structural operation shares or copies is NOT judged here (C12/C13); after a structural operation the molar data, '
    'phase and T/P read from the real stream are taken as the truth and only the agreement of the derived views with them is judged',
    'values between the grid points and histories longer than the depth bound are not claimed',
]
TOLERANCES = {'view_rtol': 1e-12, 'readback_rtol': 1e-12, 'composition_rtol': 1e-12, 'abs_floor': 1e-300}

RTOL = 1e-12

# conversion constants, hard-coded (NOT taken from pint): value in unit = value in base unit * factor
UNITS = {
    'kmol/hr': ('mol', 1.0),
    'mol/s':   ('mol', 1000.0 / 3600.0),
    'kg/hr':   ('mass', 1.0),
    'lb/hr':   ('mass', 1.0 / 0.45359237),
    'g/min':   ('mass', 1000.0 / 60.0),
    'm3/hr':   ('vol', 1.0),
    'L/min':   ('vol', 1000.0 / 60.0),
    'gal/min': ('vol', 1.0 / (0.003785411784 * 60.0)),
}
HIST_UNITS = ('mol/s', 'lb/hr', 'gal/min')     # one non-base unit per dimension is re-read after every action of a history system
BAD_UNITS = ('kg', 'K', 'kmol', 'm3/kg')
A2_IDS = ('Ethanol', 'Methanol', 'Water', 'Propanol')

_V_memo = {}

def molar_volume(chem, phase, T, P):
    """1000 * V_i(phase, T, P) [m3/kmol], evaluated afresh from the chemical's own model (harness-side memo of a pure function)."""
    key = (id(chem), phase, T, P)
    v = _V_memo.get(key)
    if v is None:
        V = chem.V
        try:
            v = 1000.0 * float(V(phase, T, P))
        except TypeError:
            v = 1000.0 * float(V(T, P))
        _V_memo[key] = v
    return v


def _flat(a):
    if isinstance(a, np.ndarray): return a.ravel().tolist()
    if isinstance(a, (list, tuple)): return [float(v) for v in a]
    return [float(a)]


def close(a, b, rtol=RTOL):
    """|a-b| <= rtol*max(|a|,|b|) elementwise (pure Python: the arrays have 3-4 entries)."""
    a = _flat(a); b = _flat(b)
    if len(a) != len(b): return False
    for x, y in zip(a, b):
        if x == y: continue
        if not (abs(x - y) <= rtol * max(abs(x), abs(y)) + 1e-300): return False
    return True


def resid(a, b):
    a = _flat(a); b = _flat(b)
    if len(a) != len(b): return float('inf')
    r = 0.0
    for x, y in zip(a, b):
        if x == y: continue
        d = abs(x - y) / max(abs(x), abs(y), 1e-300)
        if not d <= r: r = d if d == d else float('inf')
    return r


_chem_memo = {}

def _chem_info(chemicals):
    k = id(chemicals)
    v = _chem_memo.get(k)
    if v is None or v[0] is not chemicals:
        tup = chemicals.tuple
        v = _chem_memo[k] = (chemicals, tup, tuple(c.ID for c in tup), np.array([c.MW for c in tup], float))
    return v


def _class_level_dicts():
    """Every mutable dict that lives on an Indexer class (process-global state next to MaterialIndexer._index_caches, which the shared
    fixture already resets): owned here - cleared before every execution and part of `canon`."""
    import thermosteam.indexer as ix
    out = {}
    for n, c in vars(ix).items():
        if isinstance(c, type) and issubclass(c, ix.Indexer):
            for k, v in vars(c).items():
                if isinstance(v, dict) and not k.startswith('__') and k != '_index_caches':
                    out[f'{n}.{k}'] = v
    return out


class Truth:
    """Primary state of a stream read without touching any cache."""
    __slots__ = ('multi', 'phases', 'rows', 'T', 'P', 'chems', 'IDs', 'MW')
    def __init__(self, x):
        tmo = fx.tmo()
        imol = x._imol
        self.multi = isinstance(x, tmo.MultiStream)
        if self.multi:
            self.phases = tuple(imol._phases)
            self.rows = [np.array(r.to_array(), float) for r in imol.data.rows]
        else:
            self.phases = (imol._phase._phase,)
            self.rows = [np.array(imol.data.to_array(), float)]
        tc = x._thermal_condition
        self.T = tc._T; self.P = tc._P
        _, self.chems, self.IDs, self.MW = _chem_info(x.chemicals)

    def total(self): return sum(self.rows)
    def Vrow(self, phase):
        return np.array([molar_volume(c, phase, self.T, self.P) for c in self.chems], float)
    def factor_rows(self, dim):
        if dim == 'mol': return [np.ones(len(self.chems)) for p in self.phases]
        if dim == 'mass': return [self.MW for p in self.phases]
        return [self.Vrow(p) for p in self.phases]
    def by_cas(self):
        tot = self.total()
        return {c.CAS: float(v) for c, v in zip(self.chems, tot) if v}


class St:
    __slots__ = ('s', 'o', 'cfg', 'thermos', 'last_nontrivial', 'last_info', 'init_violation')


def _kind(x):
    tmo = fx.tmo()
    return 'multi' if isinstance(x, tmo.MultiStream) else 'single'


def _view_rows(x, dim):
    """rows of the mol/mass/vol view as dense arrays (this creates / uses the cached view)."""
    ind = x.imol if dim == 'mol' else (x.imass if dim == 'mass' else x.ivol)
    data = ind.data
    if hasattr(data, 'rows'):
        return tuple(ind._phases), [np.array(r.to_array(), float) for r in data.rows]
    return (ind._phase._phase,), [np.array(data.to_array(), float)]


class C11(System):
    nontrivial_per_config = False

    def __init__(self, name, mode, depth_q, depth_t, s_kinds, o_kinds, alphabet='hist', quick_pairs=None, only_pairs=None, tcap_q=None, tcap_t=None):
        self.name = name
        self.mode = mode            # 'eager' | 'lazy'
        self._dq, self._dt = depth_q, depth_t
        self.s_kinds, self.o_kinds = s_kinds, o_kinds
        self.alphabet = alphabet    # 'hist' | 'units'
        self.quick_pairs = quick_pairs
        self.only_pairs = only_pairs
        self._tq, self._tt = tcap_q, tcap_t

    # ---- engine plumbing ----------------------------------------------------------------------
    def warm(self):
        fx.tmo(); fx.thermo('A'); fx.custom_thermo(A2_IDS)
    def reset_globals(self):
        fx.reset_globals()
        for d in _class_level_dicts().values(): d.clear()
    def depth(self, tier): return self._dq if tier == 'quick' else self._dt
    def time_cap(self, tier): return self._tq if tier == 'quick' else self._tt
    def describe(self, tier):
        return dict(mode=self.mode, alphabet=self.alphabet, s_kinds=list(self.s_kinds), o_kinds=list(self.o_kinds))

    def configs(self, tier, seed):
        cfgs = [(sk, ok) for sk in self.s_kinds for ok in self.o_kinds]
        if self.only_pairs is not None: cfgs = [c for c in cfgs if c in self.only_pairs]
        if tier == 'quick' and self.quick_pairs is not None:
            cfgs = [c for c in cfgs if c in self.quick_pairs]
        k = seed % len(cfgs)
        return cfgs[k:] + cfgs[:k]

    # ---- building ---------------------------------------------------------------------------------
    def _make(self, kind, role, thermo):
        tmo = fx.tmo()
        if role == 's': T, P, a, b = 298.15, 101325., ('Water', 1.0), ('Ethanol', 2.5)
        else:           T, P, a, b = 330., 2e5, ('Water', 0.375), ('Methanol', 1.0)
        if kind in ('l', 'g', 's'):
            return tmo.Stream(None, phase=kind, T=T, P=P, thermo=thermo, **{a[0]: a[1], b[0]: b[1]})
        if kind == 'm':
            return tmo.MultiStream(None, T=T, P=P, phases=('g', 'l'), thermo=thermo, l=[a], g=[b])
        if kind == 'm3':
            return tmo.MultiStream(None, T=T, P=P, phases=('g', 'l', 's'), thermo=thermo, l=[a], s=[b])
        if kind == 'ls':
            # a phase set that a later copy_like from (g,l,s) extends with a phase sorting BEFORE the existing rows
            return tmo.MultiStream(None, T=T, P=P, phases=('l', 's'), thermo=thermo, l=[a], s=[b])
        raise ValueError(kind)

    def build(self, config):
        sk, ok = config
        st = St()
        st.cfg = config
        A = fx.thermo('A'); A2 = fx.custom_thermo(A2_IDS)
        st.thermos = (A, A2)
        st.s = self._make(sk, 's', A)
        st.o = self._make(ok, 'o', A)
        st.last_nontrivial = False
        st.last_info = None
        st.init_violation = None
        if self.mode == 'eager':
            try:
                self._check_stream(st, 's', 'build'); self._check_stream(st, 'o', 'build')
            except Violation as v:
                st.init_violation = self._classify(st, v)       # reported by invariants() for the initial state
        return st

    def invariants(self, st):
        if st.init_violation is not None: return [st.init_violation]
        return ()

    # ---- canonical state ---------------------------------------------------------------------------
    def canon(self, st):
        ids = {}
        def alias(o): return ids.setdefault(id(o), len(ids))
        out = []
        for x in (st.s, st.o):
            d = fx.stream_digest(x, ids)
            imol = x._imol
            data = imol.data
            dcts = tuple(alias(r.dct) for r in data.rows) if hasattr(data, 'rows') else (alias(data.dct),)
            views = []
            for key, view in sorted(imol._data_cache.items(), key=lambda kv: str(kv[0])):
                k = 'mass' if key == 'mass' else ('vol', alias(key[1] if isinstance(key, tuple) else key))
                vd = view.data
                vrows = vd.rows if hasattr(vd, 'rows') else [vd]
                vph = tuple(view._phases) if hasattr(view, '_phases') else (alias(view._phase), view._phase._phase)
                rows = []
                for r in vrows:
                    dv = r.dct
                    ent = [type(dv).__name__, alias(dv.dct), r.size]
                    if hasattr(dv, 'cache'):
                        ent += [alias(dv.TP), dv.phase, None if dv.phase_container is None else alias(dv.phase_container),
                                tuple(sorted((int(i), fx.r12(e[0]._T), fx.r12(e[0]._P), tuple(str(m) for m in e[1:-1]), fx.r12(e[-1])) for i, e in dv.cache.items()))]
                    rows.append(tuple(ent))
                views.append((k, vph, tuple(rows)))
            ic = None
            if hasattr(imol, '_index_cache'):
                from thermosteam.indexer import MaterialIndexer
                bound = MaterialIndexer._index_caches.get((imol._phases, imol._chemicals))
                ic = (bound is imol._index_cache, tuple(sorted(repr(k) for k in imol._index_cache)))
            cc = tuple(sorted(repr(k) for k in x.chemicals._index_cache))
            out.append((d, dcts, tuple(views), ic, cc))
        out.append(tuple((n, tuple(sorted(repr(k) for k in d))) for n, d in sorted(_class_level_dicts().items())))
        return tuple(out)

    # ---- state oracle -------------------------------------------------------------------------------
    def _root_cause(self, x):
        """Structural classification of a broken view cache of stream x: inspects the views that `imass` / `ivol` would hand
        out right now.  Returns (dim, diag) or None.  Only used to *classify* a disagreement that an oracle already found."""
        tmo = fx.tmo()
        imol = x._imol; data = imol.data
        multi = hasattr(data, 'rows')
        own = [r.dct for r in data.rows] if multi else [data.dct]
        tc = x._thermal_condition
        _, chems, _, _ = _chem_info(x.chemicals)
        for key, view in imol._data_cache.items():
            if key == 'mass': dim = 'mass'
            else:
                k = key[1] if isinstance(key, tuple) else key
                if k is not tc: continue           # a view made for an earlier thermal-condition object is never handed out again
                dim = 'vol'
            vd = view.data
            vrows = vd.rows if hasattr(vd, 'rows') else [vd]
            if (multi and tuple(getattr(view, '_phases', ())) != tuple(imol._phases)) or len(vrows) != len(own):
                return dim, 'phase-set-stale'
            for r, d in zip(vrows, own):
                if r.dct.dct is not d: return dim, 'view-wraps-foreign-data'
            if dim == 'vol':
                for r in vrows:
                    dv = r.dct
                    phase = dv.phase or dv.phase_container.phase
                    for i, ent in dv.cache.items():
                        tp, V = ent[0], ent[-1]       # (TP copy, [anything a repaired version may add], V)
                        if len(ent) > 2 and phase not in ent[1:-1]: continue      # memo keyed on something that no longer matches: not in use
                        if tp.in_equilibrium(dv.TP) and i < len(chems) and not close(V, molar_volume(chems[i], phase, tp._T, tp._P), 1e-9):
                            # a memo that records its phase (repaired trees) and still disagrees is stale for another reason
                            return dim, ('volume-memo-stale' if len(ent) > 2 else 'volume-memo-of-another-phase')
        return None

    def _classify(self, st, v):
        """Re-label a violation by its root cause when the view cache of s or o is structurally broken."""
        if v.clause in ('dimension',): return v
        who = (v.detail or {}).get('who') if isinstance(v.detail, dict) else None
        order = ('o', 's') if who == 'o' else ('s', 'o')
        for w in order:
            x = st.s if w == 's' else st.o
            try: rc = self._root_cause(x)
            except Exception: rc = None
            if rc:
                dim, diag = rc
                other = st.o if w == 's' else st.s
                m = dict(kind=_kind(x), diag=diag, door=v.clause)
                if diag == 'view-wraps-foreign-data':
                    # the view dict itself is still shared with the other stream although the molar data no longer is
                    m['shared_cache'] = bool(x._imol._data_cache is other._imol._data_cache and x._imol.data is not other._imol.data)
                return Violation('view-cache', f'[{diag}: cached {dim} view of {w}] ' + v.msg, match=m, detail=v.detail, residual=None)
        return v

    def _check_view(self, st, who, dim, op):
        x = st.s if who == 's' else st.o
        tr = Truth(x)
        kind = 'multi' if tr.multi else 'single'
        try:
            phases, rows = _view_rows(x, dim)
        except Exception as e:
            raise Violation('unexpected-exception', f'reading the {dim} view of {who} raised {type(e).__name__}: {e}',
                            match=dict(exc=type(e).__name__, where='read-' + dim, kind=kind), detail=dict(who=who))
        exp = [m * f for m, f in zip(tr.rows, tr.factor_rows(dim))]
        if tuple(phases) != tr.phases or len(rows) != len(exp) or not all(close(a, b) for a, b in zip(rows, exp)):
            diag = 'unclassified'
            r = max([resid(a, b) for a, b in zip(rows, exp)] or [float('inf')]) if len(rows) == len(exp) else float('inf')
            raise Violation(dim + '-view', f'{dim} view of {who} ({kind}, phases {tr.phases}, T={tr.T}, P={tr.P}) is {[r_.tolist() for r_ in rows]} '
                            f'with phases {tuple(phases)}; mol x factor is {[e.tolist() for e in exp]} ({diag}) after {op}',
                            match=dict(kind=kind, diag=diag),
                            detail=dict(who=who, observed=[r_.tolist() for r_ in rows], expected=[e.tolist() for e in exp], mol=[m.tolist() for m in tr.rows]),
                            residual=r if np.isfinite(r) else None)
        return tr, exp

    def _check_totals(self, st, who, op):
        x = st.s if who == 's' else st.o
        tr = Truth(x)
        kind = 'multi' if tr.multi else 'single'
        exp = dict(F_mol=float(sum(r.sum() for r in tr.rows)),
                   F_mass=float(sum((r * tr.MW).sum() for r in tr.rows)),
                   F_vol=float(sum((r * f).sum() for r, f in zip(tr.rows, tr.factor_rows('vol')))))
        for nm, e in exp.items():
            try:
                got = float(getattr(x, nm))
            except Exception as ex:
                raise Violation('unexpected-exception', f'{who}.{nm} raised {type(ex).__name__}: {ex}',
                                match=dict(exc=type(ex).__name__, where=nm, kind=kind), detail=dict(who=who))
            if not close(got, e, 1e-11):
                raise Violation('totals', f'{who}.{nm} = {got!r}, sum of the view = {e!r} ({kind}, phases {tr.phases}) after {op}',
                                match=dict(total=nm, kind=kind), detail=dict(who=who), residual=resid(got, e))
        if tr.multi:
            # per-chemical totals over phases offered by a multi-phase stream
            for nm, dim in (('mol', 'mol'), ('mass', 'mass'), ('vol', 'vol')):
                e = sum(r * f for r, f in zip(tr.rows, tr.factor_rows(dim)))
                try:
                    got = np.array(getattr(x, nm).to_array(), float)
                except Exception as ex:
                    raise Violation('unexpected-exception', f'{who}.{nm} raised {type(ex).__name__}: {ex}',
                                    match=dict(exc=type(ex).__name__, where=nm, kind=kind), detail=dict(who=who))
                if not close(got, e, 1e-11):
                    raise Violation('totals', f'{who}.{nm} (sum over phases) = {got.tolist()}, expected {e.tolist()} after {op}',
                                    match=dict(total=nm, kind=kind), detail=dict(who=who), residual=resid(got, e))

    def _check_units(self, st, who, op, units=None):
        x = st.s if who == 's' else st.o
        tr = Truth(x)
        kind = 'multi' if tr.multi else 'single'
        for u in (units or UNITS):
            dim, f = UNITS[u]
            frs = tr.factor_rows(dim)
            try:
                obs = []
                for p in tr.phases:
                    key = (p, tr.IDs) if tr.multi else tr.IDs
                    obs.append(np.asarray(x.get_flow(u, key), float))
                exp = [m * fr * f for m, fr in zip(tr.rows, frs)]
                if not all(close(g, e, 1e-11) for g, e in zip(obs, exp)):
                    diag = 'unclassified'
                    raise Violation('unit-read', f'{who}.get_flow({u!r}) per phase {tr.phases} = {[g.tolist() for g in obs]}, expected {[e.tolist() for e in exp]} ({diag}) after {op}',
                                    match=dict(dim=dim, kind=kind, diag=diag), detail=dict(who=who), residual=max(resid(g, e) for g, e in zip(obs, exp)))
                got = float(x.get_total_flow(u))
                e = float(sum((m * fr).sum() for m, fr in zip(tr.rows, frs))) * f
                if not close(got, e, 1e-11):
                    raise Violation('unit-read', f'{who}.get_total_flow({u!r}) = {got!r}, expected {e!r} after {op}',
                                    match=dict(dim=dim, kind=kind, diag='total'), detail=dict(who=who), residual=resid(got, e))
            except Violation:
                raise
            except Exception as ex:
                raise Violation('unexpected-exception', f'{who}.get_flow/get_total_flow({u!r}) raised {type(ex).__name__}: {ex}',
                                match=dict(exc=type(ex).__name__, where='get_flow', kind=kind), detail=dict(who=who))

    def _check_keyed(self, st, who, op):
        """item access by (phase, chemical) key through imol / imass / ivol agrees with the molar rows (the key -> position memo of the
        indexer is a second piece of cached state next to the view cache)."""
        x = st.s if who == 's' else st.o
        tr = Truth(x)
        kind = 'multi' if tr.multi else 'single'
        for dim in ('mol', 'mass', 'vol'):
            frs = tr.factor_rows(dim)
            try:
                ind = x.imol if dim == 'mol' else (x.imass if dim == 'mass' else x.ivol)
                for ri, p in enumerate(tr.phases):
                    for ci, nm in enumerate(tr.IDs):
                        key = (p, nm) if tr.multi else nm
                        got = float(ind[key]); e = float(tr.rows[ri][ci] * frs[ri][ci])
                        if not close(got, e):
                            raise Violation('keyed-read', f'{who}.i{dim}[{key!r}] = {got!r}, row {p!r} of the molar data x factor = {e!r} '
                                            f'(phases {tr.phases}, rows {[r.tolist() for r in tr.rows]}) after {op}',
                                            match=dict(dim=dim, kind=kind), detail=dict(who=who), residual=resid(got, e))
            except Violation:
                raise
            except Exception as ex:
                raise Violation('unexpected-exception', f'{who}.i{dim}[(phase, ID)] raised {type(ex).__name__}: {ex} after {op}',
                                match=dict(exc=type(ex).__name__, where='keyed-' + dim, kind=kind), detail=dict(who=who))

    def _check_stream(self, st, who, op):
        self._check_view(st, who, 'mass', op)
        self._check_view(st, who, 'vol', op)
        self._check_keyed(st, who, op)
        self._check_totals(st, who, op)
        self._check_units(st, who, op, None if self.alphabet == 'units' else HIST_UNITS)

    # ---- actions --------------------------------------------------------------------------------------
    def _linkable(self, st):
        s, o = st.s, st.o
        if type(s) is not type(o): return False
        if s.chemicals is not o.chemicals: return False
        tmo = fx.tmo()
        if isinstance(s, tmo.MultiStream) and tuple(s._imol._phases) != tuple(o._imol._phases): return False
        return True

    def _view_assignable(self, st):
        """key forms through which the partner's VIEW OBJECT can be written into s (same package)"""
        tmo = fx.tmo()
        if st.s.chemicals is not st.o.chemicals: return ()
        if isinstance(st.s, tmo.MultiStream):
            return ('phase', 'phase_ids', 'phase_ellipsis')          # s.ivol[p] = view, s.ivol[p, IDs] = view, s.ivol[p, ...] = view
        if isinstance(st.o, tmo.MultiStream): return ()
        return ('attr', 'slice', 'idx', 'ellipsis')                  # s.vol = view, s.vol[:] = view, s.ivol[IDs] = view, s.ivol[...] = view

    def _targets(self, x):
        """(key for item writes) — one entry that is non-zero at the start, one that is zero."""
        tmo = fx.tmo()
        if isinstance(x, tmo.MultiStream):
            ph = x._imol._phases
            return [(ph[0], 'Water'), ('l' if 'l' in ph else ph[-1], 'Methanol')]
        return [(None, 'Water'), (None, 'Methanol')]

    def actions(self, st):
        tmo = fx.tmo()
        s, o = st.s, st.o
        multi = isinstance(s, tmo.MultiStream)
        acts = []
        tg = self._targets(s)
        if self.alphabet == 'units':
            for (p, nm) in tg:
                for u in UNITS:
                    acts.append(('set_flow', 2.0, u, p, nm))
                acts.append(('set_flow', 0.0, 'lb/hr', p, nm))
            for u in UNITS:
                acts.append(('set_total', 5.0, u))
            for nm in ('F_mol', 'F_mass', 'F_vol'):
                acts.append(('F', nm, 4.0))
            for dim in ('mol', 'mass', 'vol'):
                for (p, nm) in tg:
                    for via in (('idx',) if multi else ('vec', 'idx')):
                        for x in (3.0, 0.0):
                            acts.append(('w', dim, via, p, nm, x))
            for fn in ('get_flow', 'set_flow', 'get_total_flow', 'set_total_flow'):
                for u in BAD_UNITS:
                    acts.append(('baddim', fn, u))
            for u in UNITS:
                acts.append(('ctor', u, None)); acts.append(('ctor', u, 5.0))
                acts.append(('reset_flow', u, None)); acts.append(('reset_flow', u, 5.0))
                if not multi:
                    other_phase = 'g' if s.phase != 'g' else 'l'
                    acts.append(('reset_flow', u, None, other_phase)); acts.append(('reset_flow', u, 5.0, other_phase))
            for dim in ('mol', 'mass', 'vol'):
                acts.append(('wall', dim, (0.375, 0.0, 2.5)))
            for via in self._view_assignable(st):
                for dim in ('mol', 'mass', 'vol'):
                    acts.append(('wview', dim, via))
            # indexer-level get_data / set_data: a unit used validly on its own view, and the same unit on the views of the other dimensions
            for view in ('mol', 'mass', 'vol'):
                for u in HIST_UNITS:
                    if UNITS[u][0] == view: acts.append(('idx_data', view, u))
                    else:
                        acts.append(('baddim_idx', 'get_data', view, u)); acts.append(('baddim_idx', 'set_data', view, u))
            # one structural step so that depth 2 applies every unit to a non-initial state
            acts += [('T', 350.0), ('P', 5e5), ('empty',)]
            if multi: acts.append(('to_single', 'l'))
            else: acts += [('phase', 'g' if s.phase == 'l' else 'l'), ('phases', 'gl' if s.phase.lower() in 'gl' else 'gls')]
            return acts
        # ---- history alphabet
        (p0, n0), (p1, n1) = tg
        acts.append(('w', 'mol', 'idx', p0, n0, 3.0))
        acts.append(('w', 'mass', 'idx' if multi else 'vec', p1, n1, 3.0))
        acts.append(('w', 'vol', 'idx' if multi else 'vec', p0, n0, 0.0))
        acts.append(('w', 'vol', 'idx', p1, n1, 3.0))
        acts.append(('set_flow', 2.0, 'lb/hr', p0, n0))
        acts.append(('set_flow', 2.0, 'L/min', p1, n1))
        acts.append(('set_total', 5.0, 'gal/min'))
        acts.append(('F', 'F_mass', 100.0))
        forms = self._view_assignable(st)
        if 'attr' in forms: acts += [('wview', 'vol', 'attr'), ('wview', 'vol', 'ellipsis'), ('wview', 'mass', 'attr')]
        elif forms: acts += [('wview', 'vol', 'phase'), ('wview', 'vol', 'phase_ellipsis'), ('wview', 'mass', 'phase_ids')]
        acts += [('T', 350.0), ('T', 298.15), ('P', 5e5)]
        if multi:
            acts.append(('to_single', 'l'))
            if tuple(s._imol._phases) == ('g', 'l'): acts.append(('phases', 'gls'))
        else:
            acts.append(('phase', 'g' if s.phase != 'g' else 'l'))
            acts.append(('phases', 'gl' if s.phase.lower() in 'gl' else 'gls'))     # the new phase set must hold the material (C12's precondition)
        if self._linkable(st):
            for fl in (True, False):
                for ph in (True, False):
                    for tp in (True, False):
                        acts.append(('link', fl, ph, tp))
        acts += [('unlink', 's'), ('unlink', 'o')]
        acts.append(('copy_like',))
        acts.append(('reset_thermo',))
        acts.append(('empty',))
        acts += [('oT', 360.0), ('ow', 2.5)]
        if not multi and not isinstance(o, tmo.MultiStream) and s.chemicals is o.chemicals and s.phase != o.phase:
            # documented constructor that re-points every non-first member to the first member's thermal condition
            acts += [('from_streams', 'so'), ('from_streams', 'os')]
        if self.mode == 'lazy':
            for who in ('s', 'o'):
                for v in ('mass', 'vol', 'tot', 'units', 'keyed'):
                    acts.append(('read', who, v))
        return acts

    # ---- one transition ---------------------------------------------------------------------------------
    def _cached(self, x):
        return len(x._imol._data_cache)

    def step(self, st, a):
        try:
            return self._step(st, a)
        except Violation as v:
            raise self._classify(st, v)

    def _step(self, st, a):
        tmo = fx.tmo()
        st.init_violation = None
        s, o = st.s, st.o
        op = a[0]
        st.last_nontrivial = False
        if op == 'read':
            _, who, v = a
            x = st.s if who == 's' else st.o
            st.last_nontrivial = self._cached(x) > 0
            if v in ('mass', 'vol'): self._check_view(st, who, v, 'read')
            elif v == 'tot': self._check_totals(st, who, 'read')
            elif v == 'keyed': self._check_keyed(st, who, 'read')
            else: self._check_units(st, who, 'read')
            st.last_info = ('read', v)
            return ('read', who, v, _kind(x))
        acted = o if op in ('oT', 'ow') else s
        st.last_nontrivial = self._cached(acted) > 0 or (op in ('link', 'unlink', 'copy_like') and self._cached(o) > 0)
        shared_data = s._imol.data is o._imol.data
        before_s, before_o = Truth(s), Truth(o)
        kind = 'multi' if before_s.multi else 'single'
        result = 'ok'
        try:
            result = self._apply(st, a, before_s, before_o, shared_data, kind)
        except (Violation, Rejected):
            raise
        except Exception as e:
            doc = self._documented(a, e)
            if doc is None:
                raise Violation('unexpected-exception', f'{a!r} on a {kind} stream raised {type(e).__name__}: {e}',
                                match=dict(exc=type(e).__name__, where=op, kind=kind))
            raise Rejected(doc, cut=True)
        if self.mode == 'eager':
            self._check_stream(st, 's', op); self._check_stream(st, 'o', op)
        st.last_info = (op, result)
        return (op, result, _kind(st.s), _kind(st.o))

    def _documented(self, a, e):
        tmo = fx.tmo()
        op = a[0]
        if isinstance(e, AttributeError) and 'undefined composition' in str(e): return f'{op}:undefined-composition'
        if isinstance(e, tmo.exceptions.UndefinedPhase) and op == 'copy_like': return 'copy_like:UndefinedPhase'   # C13's subject
        if isinstance(e, RuntimeError) and 'link' in str(e): return f'{op}:RuntimeError'
        return None

    def _key(self, x, p, nm):
        return nm if p is None else (p, nm)

    def _expect_entry(self, st, before, p, nm, new_mol, a, after_check=True):
        """after a write to one entry of s: that entry is new_mol, all others untouched."""
        s = st.s
        tr = Truth(s)
        exp = [r.copy() for r in before.rows]
        ri = 0 if p is None else before.phases.index(p)
        ci = before.IDs.index(nm)
        exp[ri][ci] = new_mol
        if tr.phases != before.phases or not all(close(x_, y_) for x_, y_ in zip(tr.rows, exp)):
            raise Violation('write-effect', f'{a!r}: molar flows became {[r.tolist() for r in tr.rows]}, expected {[e.tolist() for e in exp]}',
                            match=dict(op=a[0], dim=a[1] if a[0] == 'w' else UNITS[a[2]][0], kind='multi' if tr.multi else 'single'),
                            residual=max(resid(x_, y_) for x_, y_ in zip(tr.rows, exp)) if tr.phases == before.phases else None)
        return tr

    def _flows_digest(self, st):
        return tuple((t.phases, tuple(tuple(r.tolist()) for r in t.rows), t.T, t.P) for t in (Truth(st.s), Truth(st.o)))

    def _flows_digest_of(self, bs, bo):
        return tuple((t.phases, tuple(tuple(r.tolist()) for r in t.rows), t.T, t.P) for t in (bs, bo))

    def _bystander(self, st, a, who, before, shared, acted_after=None):
        x = st.s if who == 's' else st.o
        tr = Truth(x)
        if shared:
            ok = acted_after is not None and len(acted_after.rows) == len(tr.rows) and all(np.array_equal(p_, q_) for p_, q_ in zip(tr.rows, acted_after.rows))
            if not ok:
                raise Violation('bystander', f'{a!r}: {who} shares the molar container with the written stream but reads {[r.tolist() for r in tr.rows]}',
                                match=dict(op=a[0], shared=True))
        else:
            if tr.phases != before.phases or not all(np.array_equal(p_, q_) for p_, q_ in zip(tr.rows, before.rows)):
                raise Violation('bystander', f'{a!r}: {who} does not share the molar container but changed from {[r.tolist() for r in before.rows]} to {[r.tolist() for r in tr.rows]}',
                                match=dict(op=a[0], shared=False))

    def _apply(self, st, a, bs, bo, shared, kind):
        tmo = fx.tmo()
        s, o = st.s, st.o
        op = a[0]
        if op == 'w':
            _, dim, via, p, nm, x = a
            ri = 0 if p is None else bs.phases.index(p)
            ci = bs.IDs.index(nm)
            fac = bs.factor_rows(dim)[ri][ci]
            if via == 'vec':
                vec = s.mol if dim == 'mol' else (s.mass if dim == 'mass' else s.vol)
                vec[ci] = x
            else:
                ind = s.imol if dim == 'mol' else (s.imass if dim == 'mass' else s.ivol)
                ind[self._key(s, p, nm)] = x
            tr = self._expect_entry(st, bs, p, nm, x / fac, a)
            # read back through the same door
            if via == 'vec':
                vec = s.mol if dim == 'mol' else (s.mass if dim == 'mass' else s.vol)
                got = float(vec[ci])
            else:
                ind = s.imol if dim == 'mol' else (s.imass if dim == 'mass' else s.ivol)
                got = float(ind[self._key(s, p, nm)])
            if not close(got, x):
                raise Violation('write-readback', f'{a!r}: wrote {x!r}, read back {got!r}', match=dict(op='w', dim=dim, via=via, kind=kind),
                                residual=resid(got, x))
            self._bystander(st, a, 'o', bo, shared, tr)
            return 'ok'
        if op == 'set_flow':
            _, x, u, p, nm = a
            dim, f = UNITS[u]
            ri = 0 if p is None else bs.phases.index(p)
            ci = bs.IDs.index(nm)
            fac = bs.factor_rows(dim)[ri][ci]
            key = self._key(s, p, nm)
            s.set_flow(x, u, key)
            tr = self._expect_entry(st, bs, p, nm, x / f / fac, a)
            got = float(s.get_flow(u, key))
            if not close(got, x):
                raise Violation('write-readback', f'set_flow({x!r}, {u!r}, {key!r}) reads back {got!r} in the same unit',
                                match=dict(op='set_flow', unit=u, kind=kind), residual=resid(got, x))
            # the readback below goes through all three views: classify a disagreeing view as such first
            self._check_view(st, 's', 'mass', op); self._check_view(st, 's', 'vol', op)
            for u2, (dim2, f2) in UNITS.items():
                got = float(s.get_flow(u2, key))
                fac2 = tr.factor_rows(dim2)[ri][ci]
                e = (x * f2 / f) if dim2 == dim else (x / f / fac) * fac2 * f2
                if not close(got, e, 1e-11):
                    raise Violation('unit-conversion', f'set_flow({x!r}, {u!r}, {key!r}) then get_flow({u2!r}) = {got!r}, expected {e!r}',
                                    match=dict(unit=u, unit2=u2, kind=kind), residual=resid(got, e))
            self._bystander(st, a, 'o', bo, shared, tr)
            return 'ok'
        if op in ('set_total', 'F'):
            if op == 'set_total':
                _, x, u = a
                dim, f = UNITS[u]
            else:
                _, nm, x = a
                dim = nm[2:]; f = 1.0; u = None
            tot_rows = [r * fr for r, fr in zip(bs.rows, bs.factor_rows(dim))]
            total = float(sum(r.sum() for r in tot_rows))
            if op == 'set_total': s.set_total_flow(x, u)
            else: setattr(s, nm, x)
            if total == 0.0:
                raise Violation('total-composition', f'{a!r} on an empty stream returned normally', match=dict(op=op, empty=True, kind=kind))
            tr = Truth(s)
            exp = [r * ((x / f) / total) for r in bs.rows]
            if tr.phases != bs.phases or not all(close(p_, q_) for p_, q_ in zip(tr.rows, exp)):
                raise Violation('total-composition', f'{a!r}: molar flows became {[r.tolist() for r in tr.rows]}, expected {[e.tolist() for e in exp]} (composition kept, total {x} {u or dim})',
                                match=dict(op=op, dim=dim, kind=kind), residual=max(resid(p_, q_) for p_, q_ in zip(tr.rows, exp)))
            got = float(s.get_total_flow(u)) if op == 'set_total' else float(getattr(s, nm))
            if not close(got, x, 1e-11):
                raise Violation('write-readback', f'{a!r} reads back {got!r}', match=dict(op=op, unit=u or nm, kind=kind), residual=resid(got, x))
            self._bystander(st, a, 'o', bo, shared, tr)
            return 'ok'
        if op in ('ctor', 'reset_flow'):
            u, total = a[1], a[2]
            new_phase = a[3] if len(a) > 3 else None
            dim, f = UNITS[u]
            given = (('Water', 2.0), ('Methanol', 1.0))
            scale = 1.0 if total is None else total / sum(v for _, v in given)
            if op == 'ctor':
                if bs.multi:
                    ph = bs.phases[-1]
                    x = tmo.MultiStream(None, T=bs.T, P=bs.P, phases=bs.phases, units=u, total_flow=total, thermo=s._thermo, **{ph: list(given)})
                else:
                    ph = bs.phases[0]
                    x = tmo.Stream(None, phase=ph, T=bs.T, P=bs.P, units=u, total_flow=total, thermo=s._thermo, **dict(given))
            else:
                x = s
                if bs.multi:
                    ph = bs.phases[-1]
                    s.reset_flow(total_flow=total, units=u, phases=bs.phases, **{ph: list(given)})
                else:
                    ph = new_phase or bs.phases[0]
                    s.reset_flow(phase=new_phase, units=u, total_flow=total, **dict(given))
            tr = Truth(x)
            ri = tr.phases.index(ph)
            fr = tr.factor_rows(dim)[ri]
            exp = [np.zeros(len(tr.IDs)) for _ in tr.phases]
            for nm, v in given:
                ci = tr.IDs.index(nm)
                exp[ri][ci] = v * scale / f / fr[ci]
            want_phases = (new_phase,) if new_phase else bs.phases
            if tr.phases != want_phases or not all(close(p_, q_) for p_, q_ in zip(tr.rows, exp)):
                raise Violation('write-effect', f'{a!r}: molar flows are {[r.tolist() for r in tr.rows]} in phases {tr.phases}, expected {[e.tolist() for e in exp]} in {want_phases}',
                                match=dict(op=op, dim=dim, kind=kind, total=total is not None, phase_arg=new_phase is not None),
                                residual=max(resid(p_, q_) for p_, q_ in zip(tr.rows, exp)) if tr.phases == want_phases else None)
            for nm, v in given:
                key = (ph, nm) if tr.multi else nm
                got = float(x.get_flow(u, key))
                if not close(got, v * scale, 1e-11):
                    raise Violation('write-readback', f'{a!r}: {nm} given as {v * scale!r} {u} reads back {got!r}', match=dict(op=op, unit=u, kind=kind),
                                    residual=resid(got, v * scale))
            if total is not None:
                got = float(x.get_total_flow(u))
                if not close(got, total, 1e-11):
                    raise Violation('write-readback', f'{a!r}: total {total!r} {u} reads back {got!r}', match=dict(op=op, unit=u, kind=kind, total=True),
                                    residual=resid(got, total))
            if op == 'ctor':
                keep = st.s
                try:
                    st.s = x
                    self._check_stream(st, 's', 'ctor')
                finally:
                    st.s = keep
            else:
                self._bystander(st, a, 'o', bo, shared, tr)
            return 'ok'
        if op == 'wall':
            _, dim, vals = a
            if bs.multi:
                ph = bs.phases[-1]
                ind = s.imol if dim == 'mol' else (s.imass if dim == 'mass' else s.ivol)
                ind[ph, bs.IDs] = list(vals)[:len(bs.IDs)]
            else:
                ph = bs.phases[0]
                setattr(s, dim, np.array(list(vals)[:len(bs.IDs)], float))
            tr = Truth(s)
            ri = bs.phases.index(ph)
            exp = [r.copy() for r in bs.rows]
            exp[ri] = np.array(list(vals)[:len(bs.IDs)], float) / bs.factor_rows(dim)[ri]
            if tr.phases != bs.phases or not all(close(p_, q_) for p_, q_ in zip(tr.rows, exp)):
                raise Violation('write-effect', f'{a!r}: molar flows became {[r.tolist() for r in tr.rows]}, expected {[e.tolist() for e in exp]}',
                                match=dict(op=op, dim=dim, kind=kind), residual=max(resid(p_, q_) for p_, q_ in zip(tr.rows, exp)) if tr.phases == bs.phases else None)
            self._bystander(st, a, 'o', bo, shared, tr)
            return 'ok'
        if op == 'wview':
            # the VALUE written is the partner's own view object (its factors belong to the partner's T, P and phase)
            _, dim, via = a
            # source: the partner's view (single-phase partner) or the liquid / last row of its multi-phase view
            jo = 0 if not bo.multi else (bo.phases.index('l') if 'l' in bo.phases else len(bo.phases) - 1)
            vals = (bo.rows[jo] * bo.factor_rows(dim)[jo])          # what the partner's view reads, in the unit of dim
            if bo.multi:
                oind = o.imol if dim == 'mol' else (o.imass if dim == 'mass' else o.ivol)
                src = oind.data.rows[jo]
            else:
                src = getattr(o, dim)
            ind = s.imol if dim == 'mol' else (s.imass if dim == 'mass' else s.ivol)
            js = 0
            if via == 'attr': setattr(s, dim, src)
            elif via == 'slice': getattr(s, dim)[:] = src
            elif via == 'idx': ind[bs.IDs] = src
            elif via == 'ellipsis': ind[...] = src
            else:
                ps = 'l' if 'l' in bs.phases else bs.phases[-1]
                js = bs.phases.index(ps)
                if via == 'phase': ind[ps] = src
                elif via == 'phase_ids': ind[ps, bs.IDs] = src
                else: ind[ps, ...] = src
            tr = Truth(s)
            exp = [r.copy() for r in bs.rows]
            exp[js] = vals / bs.factor_rows(dim)[js]
            if tr.phases != bs.phases or not all(close(p_, q_) for p_, q_ in zip(tr.rows, exp)):
                raise Violation('write-effect', f'{a!r}: wrote the partner\'s {dim} view {vals.tolist()} (partner {bo.phases} T={bo.T} P={bo.P}) into s ({bs.phases} T={bs.T} P={bs.P}); '
                                f'molar flows became {[r.tolist() for r in tr.rows]}, expected {[e.tolist() for e in exp]}',
                                match=dict(op=op, dim=dim, via=via, kind=kind, shared_data=bool(shared)), residual=max(resid(p_, q_) for p_, q_ in zip(tr.rows, exp)) if tr.phases == bs.phases else None)
            ind = s.imol if dim == 'mol' else (s.imass if dim == 'mass' else s.ivol)
            got = np.array((ind.data.rows[js] if bs.multi else ind.data).to_array(), float)
            if not close(got, vals, 1e-11):
                raise Violation('write-readback', f'{a!r}: wrote {vals.tolist()}, the {dim} view of s reads {got.tolist()}', match=dict(op=op, dim=dim, via=via, kind=kind),
                                residual=resid(got, vals))
            self._bystander(st, a, 'o', bo, shared, tr)
            return 'ok'
        if op == 'idx_data':
            _, view, u = a
            dim, f = UNITS[u]
            ind = s.imol if view == 'mol' else (s.imass if view == 'mass' else s.ivol)
            nm = 'Water'
            key = nm if not bs.multi else (bs.phases[-1], nm)
            ri = 0 if not bs.multi else len(bs.phases) - 1
            ci = bs.IDs.index(nm)
            fac = bs.factor_rows(view)[ri][ci]
            got = float(ind.get_data(u, key)); e = float(bs.rows[ri][ci] * fac * f)
            if not close(got, e, 1e-11):
                raise Violation('unit-read', f's.i{view}.get_data({u!r}, {key!r}) = {got!r}, expected {e!r}', match=dict(dim=view, kind=kind, diag='indexer'),
                                detail=dict(who='s'), residual=resid(got, e))
            ind.set_data(2.0, u, key)
            self._expect_entry(st, bs, None if not bs.multi else bs.phases[-1], nm, 2.0 / f / fac, ('set_flow', 2.0, u, None, nm))
            return 'ok'
        if op == 'baddim_idx':
            _, fn, view, u = a
            import pint
            before = self.canon(st)
            ind = s.imol if view == 'mol' else (s.imass if view == 'mass' else s.ivol)
            nm = 'Water'
            key = nm if not bs.multi else (bs.phases[-1], nm)
            try:
                if fn == 'get_data': ind.get_data(u, key)
                else: ind.set_data(1.0, u, key)
            except (tmo.exceptions.DimensionError, pint.errors.DimensionalityError) as e:
                if self._flows_digest(st) != self._flows_digest_of(bs, bo):
                    raise Violation('dimension', f'i{view}.{fn}(…, {u!r}) raised {type(e).__name__} but changed the flows', match=dict(fn=fn, unit=u, view=view, changed=True))
                return type(e).__name__
            except Exception as e:
                raise Violation('dimension', f'i{view}.{fn}(…, {u!r}) raised {type(e).__name__} instead of a dimensionality error: {e}',
                                match=dict(fn=fn, unit=u, view=view, exc=type(e).__name__))
            raise Violation('dimension', f'i{view}.{fn}(…, {u!r}) accepted a unit of the wrong dimension ({UNITS[u][0]} unit on the {view} view)',
                            match=dict(fn=fn, unit=u, view=view, accepted=True))
        if op == 'baddim':
            _, fn, u = a
            before = self.canon(st)
            tmo_ex = tmo.exceptions.DimensionError
            nm = 'Water'
            key = nm if not bs.multi else (bs.phases[0], nm)
            try:
                if fn == 'get_flow': s.get_flow(u, key)
                elif fn == 'set_flow': s.set_flow(1.0, u, key)
                elif fn == 'get_total_flow': s.get_total_flow(u)
                else: s.set_total_flow(1.0, u)
            except tmo_ex:
                if self.canon(st) != before:
                    raise Violation('dimension', f'{fn}(…, {u!r}) raised DimensionError but changed the stream', match=dict(fn=fn, unit=u, changed=True))
                return 'DimensionError'
            except Exception as e:
                raise Violation('dimension', f'{fn}(…, {u!r}) raised {type(e).__name__} instead of DimensionError: {e}',
                                match=dict(fn=fn, unit=u, exc=type(e).__name__))
            raise Violation('dimension', f'{fn}(…, {u!r}) accepted a unit of the wrong dimension', match=dict(fn=fn, unit=u, accepted=True))
        if op == 'T': s.T = a[1]; return 'ok'
        if op == 'P': s.P = a[1]; return 'ok'
        if op == 'phase': s.phase = a[1]; return 'ok'
        if op == 'phases': s.phases = tuple(a[1]); return 'ok'
        if op == 'to_single': s.phase = a[1]; return 'ok'
        if op == 'link':
            _, fl, ph, tp = a
            s.link_with(o, flow=fl, phase=ph, TP=tp); return 'ok'
        if op == 'unlink':
            (s if a[1] == 's' else o).unlink(); return 'ok'
        if op == 'copy_like': s.copy_like(o); return 'ok'
        if op == 'reset_thermo':
            A, A2 = st.thermos
            s._reset_thermo(A2 if s._thermo is A else A); return 'ok'
        if op == 'empty': s.empty(); return 'ok'
        if op == 'from_streams':
            members = [s, o] if a[1] == 'so' else [o, s]
            ms = tmo.MultiStream.from_streams(members)
            # the multi-phase stream itself (rows shared with the members) is judged once, here; the members, whose thermal condition
            # may have been replaced, are judged like after every other action
            keep = st.s
            try:
                st.s = ms
                self._check_stream(st, 's', 'from_streams')
            finally:
                st.s = keep
            return 'ok'
        if op == 'oT': o.T = a[1]; return 'ok'
        if op == 'ow':
            tro = Truth(o)
            key = 'Water' if not tro.multi else ('l', 'Water')
            o.imol[key] = a[1]
            tr2 = Truth(o)
            self._bystander(st, a, 's', bs, shared, tr2)
            return 'ok'
        raise ValueError(a)

    # ---- evidence -----------------------------------------------------------------------------------------
    def nontrivial(self, st, a, obs):
        return bool(st.last_nontrivial)

    def outcome(self, st, a, obs):
        s, o = st.s, st.o
        share = (s._imol.data is o._imol.data, s._thermal_condition is o._thermal_condition,
                 s._imol._data_cache is o._imol._data_cache)
        caches = (tuple(sorted('mass' if k == 'mass' else 'vol' for k in s._imol._data_cache)),
                  tuple(sorted('mass' if k == 'mass' else 'vol' for k in o._imol._data_cache)))
        return repr((a[0], a[1] if a[0] in ('w', 'read', 'baddim', 'F') else None, obs, share, caches))[:300]


_PAIRS_EAGER = (('l', 'l'), ('l', 'g'), ('g', 'l'), ('m', 'm'), ('m', 'm3'), ('l', 'm3'), ('m', 'l'), ('ls', 'm3'))
_PAIRS_LAZY = (('l', 'l'), ('l', 'g'), ('l', 'm'), ('l', 'm3'), ('m', 'l'), ('m', 'm'), ('m', 'm3'), ('ls', 'm3'))
SYSTEMS = [
    # every unit / every write door, applied to every stream kind at depth 1 and after one structural step at depth 2
    C11('c11.units', 'eager', 2, 2, ('l', 'g', 'm'), ('l',), alphabet='units'),
    # histories with all views (whole arrays AND keyed items) re-read, and thereby cached, after every action; thorough: all 20 start pairs
    C11('c11.eager', 'eager', 3, 3, ('l', 'g', 'm', 'ls'), ('l', 'g', 'm', 'm3', 's'), quick_pairs=_PAIRS_EAGER, tcap_q=120, tcap_t=600),
    # histories in which views / key memos are only created by explicit read actions (cache-creation order is explored); thorough: all 12 pairs
    C11('c11.lazy', 'lazy', 3, 3, ('l', 'm', 'ls'), ('l', 'g', 'm', 'm3'), quick_pairs=_PAIRS_LAZY, tcap_q=120, tcap_t=600),
    # one level deeper from two start pairs each (quick: depth 1, a subset of the systems above)
    C11('c11.eager4', 'eager', 1, 4, ('l', 'm'), ('g', 'm3'), quick_pairs=(('l', 'g'), ('m', 'm3')), only_pairs=(('l', 'g'), ('m', 'm3')), tcap_t=500),
    C11('c11.lazy4', 'lazy', 1, 4, ('l', 'ls'), ('g', 'm3'), quick_pairs=(('l', 'g'), ('ls', 'm3')), only_pairs=(('l', 'g'), ('ls', 'm3')), tcap_t=500),
]
