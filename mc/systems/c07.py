"""
C07 -- pure-component and mixture enthalpy / entropy are thermodynamically consistent.

  c07.pure     depth 1   configuration = (chemical, reference phase in {s,l,g} | locked phase in {g,l,s}); actions = every clause instance on
                         the (phase, T, P) grid: reference state, independent re-assembly of H and S along the path reference state -> (phase, T),
                         dH/dT == Cn (Richardson-checked central difference), entropy increments == my own quadrature of Cn/T, gas pressure term,
                         jumps at Tb and Tm.
  c07.mixture  depth 1   configuration = (chemical tuple, phase, T, P); actions = compositions on the simplex grid (step 1/4, incl. vertices) x
                         scale: H, Cn, S of `thermo.mixture` and of a Stream against the mole-weighted sums of the pure values; extensivity;
                         S_mix - sum n_i S_i == -R sum n_i ln x_i.
  c07.setters  depth 3/4 a private copy of a chemical edited through every public setter that feeds `_init_energies` (Tb, Tm, Hfus, S0, phase_ref,
                         copy, reset_free_energies); reference-state, jump and path clauses re-evaluated after every edit.
  c07.mixing   depth 2/3 universe of streams at one (T, P); action = mix two members into a fresh receiver which joins the universe (mixes of
                         mixes): H and C additive, S(mix) >= S(a) + S(b) and equal to the ideal mixing gain.

Reference model: the heat capacity objects `Chemical.Cn.<phase>` (third-party `thermo` correlations: value, antiderivative, antiderivative
over T), `Hvap(Tb)`, `Hfus`, `Tm`, `Tb`, `S0`, `T_ref`, `P_ref` are the trusted primitives; everything the library builds from them in
`Chemical._init_energies` / `free_energy.py` / `ideal_mixture_model.py` is re-derived here by walking the path from the reference state to the
target state, and compared.
"""
from __future__ import annotations
import itertools, math
import numpy as np
from mc.engine import System, Violation, Rejected
from mc import fixtures as fx

PROPERTY = 'C07'
RULE = ('configurations (chemical x reference phase / locked phase; chemical tuples x phase) are enumerated completely; continuous arguments on a '
        'grid: T in 9 points of [250, 500] K plus T_ref, Tm, Tb, P in {1e4, 101325, 1e6} Pa, compositions on the simplex grid of step 1/4 '
        'including all vertices.  A case is one clause instance (clause, phase, T, P | composition); it is non-trivial when the evaluated phase '
        'differs from the reference phase (the path crosses a transition), the composition has >= 2 components, or the two mixed streams differ in '
        'composition.')
ASSUMPTIONS = [
    'chemicals: 12 (thorough 16) database chemicals with Cn(s,l,g), Tm, Tb, Hvap(Tb), Hfus; every reference phase s/l/g and every locked phase g/l/s',
    'T grid {250, 275, 298.15 (T_ref), 310, 340, 370, 400, 450, 500} + Tm, Tb; P grid {1e4, 101325, 1e6}; derivative clauses only where T lies strictly inside [Tmin, Tmax] of the heat-capacity correlation of that phase ("within model range")',
    'the heat-capacity correlations (value and antiderivatives) of the third-party package `thermo` are trusted primitives; their float noise is measured and enters the entropy-increment tolerance',
    'R = 8.314462618 J/mol/K (CODATA 2018) in the reference; the library uses CODATA 2014 (relative difference 3.4e-7), covered by the 1e-6 tolerance on the R-terms',
    'NOT claimed: the sentence "established symbolically for arbitrary heat-capacity functions and arbitrary Tm, Tb, T, P" (a proof obligation over an uncountable family); nothing is claimed between grid points',
    'excess energies are off (library default); mixtures are ideal',
]
R = 8.314462618
TOLERANCES = {
    'reference_state': 1e-9,
    'assembly_rel': '1e-9 * (sum of absolute path terms)',
    'dH_dT_rel': 1e-5,
    'dS_increment': '1e-5 * |dS| + 2 * eta   (eta: measured float noise of S(T) at the end points, deviation from local linearity over +-0.016 K, plus the deviation of the third-party antiderivative-over-T itself from the quadrature of Cn/T on the interval; cases where 2 eta exceeds 1e-5 |dS| are counted as noise-limited in the outcomes)',
    'R_terms_rel': 1e-6,
    'jumps_rel': 1e-9,
    'mixture_sums_rel': 1e-12,
    'extensive_rel': 1e-12,
    'mixing_entropy': '1e-6 * R * n_total  (+ 10 * (C/T) * 1e-6 K when the receiver temperature was solved)',
}

# CO2 sublimes at atmospheric pressure (Tm > Tb): the liquid leg Tm -> Tb of the path has negative length; it belongs to the quick core
CHEMS_Q = ['Water', 'Ethanol', 'Methanol', 'Propanol', 'Hexane', 'Benzene', 'Toluene', 'Acetone', 'AceticAcid', 'Glycerol', 'Octanol', 'Tetradecanol', 'CO2']
CHEMS_T = CHEMS_Q + ['N2', 'Ammonia', 'Butane', 'Acetylene']
# thorough: every bundled chemical of DESIGN section 2 with complete Cn(s,l,g)/Tm/Tb/Hvap(Tb)/Hfus data (27 of 28; Glucose's Hvap correlation
# cannot be evaluated at its Tb and is left out)
CHEMS_ALL = CHEMS_T + ['1-Butanol', 'Heptane', 'Octane', 'EthylAcetate', 'LacticAcid', 'O2', 'CO', 'H2', 'CH4', 'Propane', 'NaCl',
                       'SF6', 'UF6']          # + further database chemicals with Tm >= Tb (with Acetylene above)
TG_FINE = sorted(set([250. + 5. * i for i in range(51)]))          # thorough: 5 K steps, in addition to TG
PG_T = [1e4, 5e4, 101325., 5e5, 1e6, 1e7]
TG = [250., 275., 298.15, 310., 340., 370., 400., 450., 500.]
PG = [1e4, 101325., 1e6]
# every phase label the library accepts: 'S' (second solid) must behave like 's', 'L' (second liquid) like 'l'.  The label is what is PASSED
# to the library; the reference model always works with the canonical lower-case phase.
ORDER = {'s': 0, 'l': 1, 'g': 2, 'S': 0, 'L': 1}
LABELS = {'s': 'sS', 'l': 'lL', 'g': 'g'}
HVAP_ARG = 38000.     # J/mol, constant user model passed as `Hvap=`
CN_ARG = 80.          # J/mol/K, constant user model passed as `Cn=` to a phase-locked chemical

_chem = {}
def chem(ID, mode):
    """mode: ('ref', p) free chemical with reference phase p;  ('lock', p) phase-locked chemical.  Chemical objects are immutable after
    construction as far as H/S/Cn are concerned, so they are built once per process."""
    key = (ID, tuple(mode))
    if key not in _chem:
        tmo = fx.tmo()
        if mode[0] == 'ref': _chem[key] = tmo.Chemical(ID, phase_ref=mode[1])
        elif mode[0] == 'refHvap': _chem[key] = tmo.Chemical(ID, phase_ref=mode[1], Hvap=HVAP_ARG)     # documented constructor model argument
        elif mode[0] == 'lockCn': _chem[key] = tmo.Chemical(ID, phase=mode[1], Cn=CN_ARG)
        else: _chem[key] = tmo.Chemical(ID, phase=mode[1])
    return _chem[key]


# ---- reference model: walk the path from the reference state ----------------------------------------------------------------------------

def prim(c, mode):
    """trusted primitives of a chemical"""
    Cn = c.Cn
    if mode[0] == 'lock':
        cn = {p: Cn for p in 'slg'}
    else:
        cn = {'s': Cn.s, 'l': Cn.l, 'g': Cn.g}
    return cn

def path_HS(c, mode, ph, T, P):
    """(H, S, scale_H, scale_S) of phase ph at (T, P), assembled from the primitives.  scale_* = sum of absolute terms."""
    cn = prim(c, mode)
    T_ref, P_ref, S0 = c.T_ref, c.P_ref, c.S0
    H = c.H_ref; S = S0
    sH = abs(H); sS = abs(S0)
    if mode[0] == 'lock':
        cur = ORDER[mode[1]]; tgt = cur
    else:
        cur = ORDER[mode[1]]; tgt = ORDER[ph]
    names = 'slg'
    Tcur = T_ref
    Tm, Tb = c.Tm, c.Tb
    while cur != tgt:
        nxt = cur + 1 if tgt > cur else cur - 1
        lo = min(cur, nxt)
        if lo == 0: Tt, L = Tm, c.Hfus
        else: Tt, L = Tb, c.Hvap(Tb)
        dH = cn[names[cur]].T_dependent_property_integral(Tcur, Tt)
        dS = cn[names[cur]].T_dependent_property_integral_over_T(Tcur, Tt)
        sign = 1. if nxt > cur else -1.
        H += dH + sign * L; S += dS + sign * L / Tt
        sH += abs(dH) + abs(L); sS += abs(dS) + abs(L / Tt)
        cur = nxt; Tcur = Tt
    dH = cn[names[cur]].T_dependent_property_integral(Tcur, T)
    dS = cn[names[cur]].T_dependent_property_integral_over_T(Tcur, T)
    H += dH; S += dS; sH += abs(dH); sS += abs(dS)
    gas = (names[cur] == 'g')
    Pterm = -R * math.log(P / P_ref) if gas else 0.
    return H, S, Pterm, sH, sS

def call(f, mode, ph, *args):
    """free chemical: f(phase, T[, P]);  locked chemical: f(T[, P])"""
    return f(ph, *args) if mode[0] == 'ref' else f(*args)

_GLx, _GLw = np.polynomial.legendre.leggauss(12)
def quad(f, a, b, pieces=8):
    tot = 0.
    edges = np.linspace(a, b, pieces + 1)
    for lo, hi in zip(edges[:-1], edges[1:]):
        xm, xr = 0.5 * (lo + hi), 0.5 * (hi - lo)
        tot += xr * sum(w * f(xm + xr * x) for x, w in zip(_GLx, _GLw))
    return tot

def noise(f, T):
    d = 2e-3
    xs = [T + k * d for k in range(-8, 9)]
    ys = [f(x) for x in xs]
    slope = (ys[-1] - ys[0]) / (xs[-1] - xs[0])
    return max(abs(y - (ys[0] + slope * (x - xs[0]))) for x, y in zip(xs, ys))

UNDOC = (TypeError, IndexError, AttributeError, KeyError, UnboundLocalError, NameError, ZeroDivisionError)


class Pure(System):
    name = 'c07.pure'

    def warm(self): fx.tmo()
    def depth(self, tier): return 1

    def configs(self, tier, seed):
        self._tier = tier
        ids = CHEMS_Q if tier == 'quick' else CHEMS_ALL
        if tier == 'quick':            # the seed adds one chemical of the thorough slice
            extra = [c for c in CHEMS_T if c not in CHEMS_Q]
            ids = ids + [extra[seed % len(extra)]]
        cf = [(ID, kind, p) for ID in ids for kind in ('ref', 'lock') for p in 'slg']
        # chemicals AS CONSTRUCTED with a user model passed to the constructor (`Hvap=` constant on a free chemical, `Cn=` constant on a
        # phase-locked one): the functors must be built from the model the chemical ends up with
        vids = ['Ethanol', 'Hexane'] if tier == 'quick' else ['Ethanol', 'Hexane', 'Water', 'Octanol', 'Benzene', 'AceticAcid', 'Butane', 'Glycerol']
        cf += [(ID, 'refHvap', p) for ID in vids for p in 'slg'] + [(ID, 'lockCn', p) for ID in vids for p in 'lg']
        k = seed % len(cf)
        return cf[k:] + cf[:k]

    def build(self, config): return dict(config=config, last=None)
    def canon(self, st): return (st['config'], st['last'])

    def _phases(self, config):
        return 'slgSL' if config[1].startswith('ref') else config[2]

    def actions(self, st):
        if st['last'] is not None: return []
        ID, kind, p = st['config']
        c = chem(ID, (kind, p))
        kind = 'ref' if kind.startswith('ref') else 'lock'
        thorough = getattr(self, '_tier', 'quick') != 'quick'
        Tm, Tb = float(c.Tm), float(c.Tb)
        Ts = sorted(set(TG + [Tm, Tb]))
        Ps = PG
        pairs = list(zip(Ts[:-1], Ts[1:]))
        SgP_T = [275., 400., 500.]; SgP_P = [(1e4, 1e6), (101325., 1e4), (101325., 1e6)]
        if thorough:
            # finer grid: 5 K steps and points just below / above the transitions (the quick points and pairs stay in the set)
            near = [t + d for t in (Tm, Tb) for d in (-0.5, -0.01, 0.01, 0.5)]
            Tf = sorted(set(Ts + TG_FINE + near))
            pairs = sorted(set(pairs + list(zip(Tf[:-1], Tf[1:]))))
            Ts = Tf; Ps = PG_T
            SgP_T = [275., 325., 400., 450., 500.]; SgP_P = SgP_P + [(5e4, 5e5), (1e6, 1e7), (1e7, 1e4)]
        acts = [('ref',)]
        for ph in self._phases(st['config']):
            for T in Ts:
                for P in Ps:
                    acts.append(('assembly', ph, T, P))
            for T in Ts: acts.append(('dH', ph, T))
            for Ta, Tb_ in pairs: acts.append(('dS', ph, Ta, Tb_))
        if kind == 'ref' or p == 'g':
            for T in SgP_T:
                for P1, P2 in SgP_P:
                    acts.append(('SgP', T, P1, P2))
        if kind == 'ref':
            for P in Ps:
                acts.append(('vap', P)); acts.append(('fus', P))
            # the same jumps through the alternative labels of the condensed phases
            for P in PG:
                acts.append(('vap', P, 'g', 'L'))
                for hi, lo in (('L', 's'), ('l', 'S'), ('L', 'S')): acts.append(('fus', P, hi, lo))
        return acts

    def step(self, st, a):
        ID, kind0, p = st['config']
        kind = 'ref' if kind0.startswith('ref') else 'lock'
        mode = (kind, p)
        try:
            c = chem(ID, (kind0, p))
        except Exception as e:
            raise Rejected(f'construct:{type(e).__name__}', cut=True)
        m = dict(clause_kind=a[0], mode=kind0, ref=p)
        try:
            obs = self._check(c, mode, a, m)
        except (Violation, Rejected): raise
        except RuntimeError as e:
            # a third-party correlation refuses to evaluate at this point (extrapolation failure / invalid value): outside the compared domain
            raise Rejected('third-party correlation refuses to evaluate', cut=True)
        except UNDOC as e:
            raise Violation('unexpected-exception', f'{ID} ({kind} {p}) {a!r}: {type(e).__name__}: {e}',
                            match=dict(exc=type(e).__name__, quantity=_which_quantity(c, mode, a), crosses_melting=_crosses_melting(mode, a)),
                            detail=dict(mode=kind, ref=p, action=list(a)))
        st['last'] = (a, obs)
        return obs

    def _check(self, c, mode, a, m):
        ID = c.ID
        T_ref, P_ref = c.T_ref, c.P_ref
        op = a[0]
        if op == 'ref':
            ph = mode[1]
            H0 = call(c.H, mode, ph, T_ref, P_ref); S00 = call(c.S, mode, ph, T_ref, P_ref)
            if abs(H0 - c.H_ref) > 1e-9:
                raise Violation('reference-H', f'{ID} ref {ph}: H(ref state) = {H0!r}', match=m, residual=abs(H0))
            if abs(S00 - c.S0) > 1e-9 * max(1., abs(c.S0)):
                raise Violation('reference-S', f'{ID} ref {ph}: S(ref state) = {S00!r}, S0 = {c.S0!r}', match=m, residual=abs(S00 - c.S0))
            return ('ref', 'ok')
        if op == 'assembly':
            _, ph, T, P = a
            m = dict(m, phase=ph)
            H = call(c.H, mode, ph, T, P)
            Hr, Sr, Pterm, sH, sS = path_HS(c, mode, ph, T, P)
            if not (abs(H - Hr) <= 1e-9 * sH + 1e-9):
                raise Violation('assembly-H', f'{ID} ({mode}) H({ph}, {T}, {P}) = {H!r}, path from the reference state gives {Hr!r}', match=m,
                                residual=abs(H - Hr))
            S = call(c.S, mode, ph, T, P)
            S_noP = S - Pterm
            if not (abs(S_noP - Sr) <= 1e-9 * sS + 1e-6 * abs(Pterm) + 1e-9):
                raise Violation('assembly-S', f'{ID} ({mode}) S({ph}, {T}, {P}) = {S!r}, path from the reference state gives {Sr + Pterm!r}', match=m,
                                residual=abs(S_noP - Sr))
            return ('assembly', ph != mode[1])
        if op == 'dH':
            _, ph, T = a
            m = dict(m, phase=ph)
            cn = prim(c, mode)[ph.lower()]
            h = 0.25
            if not (cn.Tmin + 2 * h < T < cn.Tmax - 2 * h):
                raise Rejected('outside the range of the heat-capacity correlation', cut=True)
            f = lambda t: call(c.H, mode, ph, t, 101325.)
            D1 = (f(T + h) - f(T - h)) / (2 * h); D2 = (f(T + h / 2) - f(T - h / 2)) / h
            D = (4 * D2 - D1) / 3.
            Cn = call(c.Cn, mode, ph, T)
            # the trusted primitive must itself be differentiable to its value, from a nearby base point AND from the base points the
            # library integrates from (tabular correlations integrate inconsistently across the edge of their table)
            for base in (T - 1., c.T_ref, float(c.Tm), float(c.Tb)):
                g = lambda t: cn.T_dependent_property_integral(base, t)
                Dp = (4 * (g(T + h / 2) - g(T - h / 2)) / h - (g(T + h) - g(T - h)) / (2 * h)) / 3.
                if abs(Dp - cn(T)) > 2e-6 * abs(cn(T)):
                    raise Rejected('third-party heat-capacity correlation: antiderivative inconsistent with its value at this T', cut=True)
            if abs(D1 - D2) > 1e-4 * abs(Cn):
                raise Rejected('H not smooth at the grid point (piecewise correlation)', cut=True)
            if not (abs(D - Cn) <= 1e-5 * abs(Cn)):
                raise Violation('dH/dT', f'{ID} ({mode}) dH/dT({ph}, {T}) = {D!r} but Cn = {Cn!r}', match=m, residual=abs(D - Cn))
            return ('dH', ph != mode[1])
        if op == 'dS':
            _, ph, Ta, Tb = a
            m = dict(m, phase=ph)
            cn = prim(c, mode)[ph.lower()]
            if not (cn.Tmin + 0.02 < Ta and Tb < cn.Tmax - 0.02):
                raise Rejected('outside the range of the heat-capacity correlation', cut=True)
            P = 101325.
            f = lambda t: call(c.S, mode, ph, t, P)
            dS = f(Tb) - f(Ta)
            ref = quad(lambda t: call(c.Cn, mode, ph, t) / t, Ta, Tb)
            ref2 = quad(lambda t: call(c.Cn, mode, ph, t) / t, Ta, Tb, pieces=16)
            if abs(ref - ref2) > 1e-7 * abs(ref):
                raise Rejected('Cn/T not smooth enough for the reference quadrature (piecewise correlation)', cut=True)
            eta = max(noise(f, Ta), noise(f, Tb))
            # inconsistency of the trusted third-party primitive itself over this interval (rounding staircase of some polynomial fits)
            eta_prim = abs(cn.T_dependent_property_integral_over_T(Ta, Tb) - ref)
            eta = eta + eta_prim
            tol = 1e-5 * abs(ref) + 2. * eta
            if not (abs(dS - ref) <= tol):
                raise Violation('dS-increment', f'{ID} ({mode}) S({ph},{Tb}) - S({ph},{Ta}) = {dS!r} but the integral of Cn/T is {ref!r} (tol {tol:.3g}, noise {eta:.3g})',
                                match=m, residual=abs(dS - ref))
            return ('dS', ph != mode[1], 'noise-limited' if 2. * eta > 1e-5 * abs(ref) else 'sharp')
        if op == 'SgP':
            _, T, P1, P2 = a
            d = call(c.S, mode, 'g', T, P2) - call(c.S, mode, 'g', T, P1)
            ref = -R * math.log(P2 / P1)
            if not (abs(d - ref) <= 1e-6 * abs(ref)):
                raise Violation('gas-entropy-pressure', f'{ID} ({mode}) S_g({T},{P2}) - S_g({T},{P1}) = {d!r}, -R ln(P2/P1) = {ref!r}', match=m,
                                residual=abs(d - ref))
            return ('SgP', True)
        if op in ('vap', 'fus'):
            P = a[1]
            if op == 'vap': Tt, L, hi, lo = c.Tb, c.Hvap(c.Tb), 'g', 'l'
            else: Tt, L, hi, lo = c.Tm, c.Hfus, 'l', 's'
            if len(a) > 2: hi, lo = a[2], a[3]
            m = dict(m, transition=op, labels=hi + lo)
            dH = c.H(hi, Tt, P) - c.H(lo, Tt, P)
            if not (abs(dH - L) <= 1e-9 * max(abs(L), abs(c.H(hi, Tt, P)), abs(c.H(lo, Tt, P))) + 1e-9):
                raise Violation('jump-H', f'{ID} ({mode}) H_{hi}({Tt}) - H_{lo}({Tt}) = {dH!r}, latent heat = {L!r}', match=m, residual=abs(dH - L))
            Pterm = -R * math.log(P / c.P_ref) if hi == 'g' else 0.
            Shi, Slo = c.S(hi, Tt, P), c.S(lo, Tt, P)
            dS = Shi - Slo - Pterm
            if not (abs(dS - L / Tt) <= 1e-9 * max(abs(L / Tt), abs(Shi), abs(Slo)) + 1e-6 * abs(Pterm) + 1e-9):
                raise Violation('jump-S', f'{ID} ({mode}) S_{hi}({Tt}) - S_{lo}({Tt}) = {dS!r}, latent heat / T = {L / Tt!r}', match=m,
                                residual=abs(dS - L / Tt))
            return (op, True)
        raise ValueError(a)

    def nontrivial(self, st, a, obs):
        return bool(obs[1]) if len(obs) > 1 and isinstance(obs[1], bool) else True
    def outcome(self, st, a, obs):
        return repr((st['config'][1], st['config'][2], a[0], a[1] if a[0] in ('assembly', 'dH', 'dS') else None, obs))


def _phases_involved(a):
    if a[0] in ('assembly', 'dH', 'dS'): return [a[1]]
    if a[0] in ('vap', 'fus') and len(a) > 2: return [a[2], a[3]]
    return {'vap': ['g', 'l'], 'fus': ['l', 's'], 'SgP': ['g']}.get(a[0], [])

def _crosses_melting(mode, a):
    """does the path from the reference phase to an evaluated phase cross the solid/liquid transition"""
    if mode[0] != 'ref': return False
    r = ORDER[mode[1]]
    return any(min(r, ORDER[q]) == 0 and max(r, ORDER[q]) >= 1 for q in _phases_involved(a))

def _which_quantity(c, mode, a):
    """for an unexpected exception: which of H / S / Cn raises (classification only)"""
    if a[0] not in ('assembly', 'dS', 'dH', 'vap', 'fus', 'ref', 'SgP'): return None
    out = []
    ph = a[1] if a[0] in ('assembly', 'dH', 'dS') else None
    T = a[2] if ph else 300.
    for nm in ('H', 'S'):
        phs = [ph] if ph else (['g', 'l'] if a[0] == 'vap' else (['l', 's'] if a[0] == 'fus' else ['g']))
        for q in phs:
            try: call(getattr(c, nm), mode, q, T, 101325.)
            except Exception: out.append(nm); break
    return '+'.join(out) or 'other'


# =========================================================================================================================================
TUPLES_Q = [('Water', 'Ethanol'), ('Water', 'Ethanol', 'Methanol'), ('Hexane', 'Benzene', 'Toluene', 'Acetone')]
TUPLES_T = TUPLES_Q + [('Ethanol', 'Water'), ('Methanol', 'Propanol', 'AceticAcid'), ('Water', 'Glycerol', 'Octanol', 'Ethanol'),
                       ('Water', 'Ethanol', 'Methanol', 'Propanol', 'AceticAcid'), ('N2', 'CO2', 'Butane', 'Ammonia', 'Hexane')]

def simplex(n, steps=4):
    out = []
    for c in itertools.product(range(steps + 1), repeat=n):
        if sum(c) == steps: out.append(tuple(x / steps for x in c))
    return out

class Mixture(System):
    name = 'c07.mixture'
    def warm(self): fx.tmo()
    def depth(self, tier): return 1
    def reset_globals(self): fx.reset_globals()

    def configs(self, tier, seed):
        self._tier = tier
        tups = TUPLES_Q if tier == 'quick' else TUPLES_T
        Ts = [275., 340., 450.] if tier == 'quick' else [250., 275., 298.15, 340., 400., 450., 500.]
        Ps = [101325., 1e6] if tier == 'quick' else [1e4, 101325., 1e6, 1e7]
        phs = ('l', 'g', 'L', 's', 'S')          # every label; the condensed alternatives must give the values of their canonical phase
        cf = [(t, ph, T, P) for t in tups for ph in phs for T in Ts for P in Ps if not (ph in 'sS' and tier != 'quick' and P not in (101325., 1e6))]
        k = seed % len(cf)
        return cf[k:] + cf[:k]

    def build(self, config): return dict(config=config, last=None)
    def canon(self, st): return (st['config'], st['last'])
    def actions(self, st):
        if st['last'] is not None: return []
        n = len(st['config'][0])
        steps = 4 if getattr(self, '_tier', 'quick') == 'quick' else 8       # thorough: simplex grid of step 1/8 (contains the step-1/4 grid)
        return [(cl, x, k) for cl in ('HC', 'S') for x in simplex(n, steps) for k in (1., 0.5, 3., 1000.)]

    def step(self, st, a):
        IDs, ph, T, P = st['config']
        cl, x, k = a
        th = fx.custom_thermo(IDs)
        tmo = fx.tmo()
        chems = th.chemicals.tuple
        n = np.array(x) * k
        nz = [(i, v) for i, v in enumerate(n) if v]
        m = dict(multicomponent=len(nz) > 1)
        cph = ph.lower()          # reference: the pure values of the CANONICAL phase
        Hi = [chems[i].H(cph, T, P) for i, _ in nz]; Ci = [chems[i].Cn(cph, T) for i, _ in nz]; Si = [chems[i].S(cph, T, P) for i, _ in nz]
        Href = sum(v * h for (_, v), h in zip(nz, Hi)); Cref = sum(v * c for (_, v), c in zip(nz, Ci))
        ntot = float(n.sum())
        Smix_ref = -R * sum(v * math.log(v / ntot) for _, v in nz)
        Sref = sum(v * s for (_, v), s in zip(nz, Si)) + Smix_ref
        mix = th.mixture
        s = tmo.Stream(None, thermo=th, phase=ph, T=T, P=P, **{c.ID: v for c, v in zip(chems, n) if v})
        obsv = {}
        for label, Hv, Cv, Sv in (('mixture', mix.H(ph, n, T, P), mix.Cn(ph, n, T), mix.S(ph, n, T, P)),
                                  ('stream', float(s.H), float(s.C), float(s.S))):
            mm = dict(m, via=label)
            sc = sum(abs(v * h) for (_, v), h in zip(nz, Hi))
            if cl == 'S':
                pass
            elif not (abs(Hv - Href) <= 1e-12 * sc + 1e-12):
                raise Violation('H-mole-weighted', f'{IDs} {ph} x={x} k={k}: H = {Hv!r}, sum n_i H_i = {Href!r}', match=mm, residual=abs(Hv - Href))
            if cl == 'HC' and not (abs(Cv - Cref) <= 1e-12 * abs(Cref)):
                raise Violation('Cn-mole-weighted', f'{IDs} {ph} x={x} k={k}: Cn = {Cv!r}, sum n_i Cn_i = {Cref!r}', match=mm, residual=abs(Cv - Cref))
            tolS = 1e-12 * sum(abs(v * s_) for (_, v), s_ in zip(nz, Si)) + 1e-6 * R * ntot * (1 if len(nz) > 1 else 0) + 1e-12
            if cl == 'S' and not (abs(Sv - Sref) <= tolS):
                gain = Sv - sum(v * s_ for (_, v), s_ in zip(nz, Si))
                raise Violation('S-mixing-term', f'{IDs} {ph} x={x} k={k}: S_mix - sum n_i S_i = {gain!r}, ideal mixing term -R sum n_i ln x_i = {Smix_ref!r}',
                                match=mm, residual=abs(Sv - Sref), detail=dict(S=Sv, S_ref=Sref))
            obsv[label] = (Hv, Cv, Sv)
        # extensivity: f(k n) == k f(n) against the k = 1 evaluation
        if k != 1.:
            n1 = np.array(x)
            trip = (('H', mix.H(ph, n1, T, P), obsv['mixture'][0]), ('Cn', mix.Cn(ph, n1, T), obsv['mixture'][1])) if cl == 'HC' else \
                   (('S', mix.S(ph, n1, T, P), obsv['mixture'][2]),)
            for nm, v1, vk in trip:
                if not (abs(vk - k * v1) <= 1e-12 * abs(k * v1) + 1e-12 * k * sum(abs(h) for h in (Hi if nm == 'H' else Ci if nm == 'Cn' else Si))):
                    raise Violation('extensive', f'{IDs} {ph} x={x}: {nm}({k} n) = {vk!r} but {k} {nm}(n) = {k * v1!r}', match=dict(m, quantity=nm),
                                    residual=abs(vk - k * v1))
        st['last'] = (a, len(nz))
        return ('mixture', len(nz), k != 1., cl)

    def nontrivial(self, st, a, obs): return obs[1] >= 2
    def outcome(self, st, a, obs): return repr((st['config'][1], obs))


# =========================================================================================================================================
class Mixing(System):
    """streams at one (T, P); mixing two of them into a fresh receiver never lowers the entropy; mixes join the universe"""
    name = 'c07.mixing'
    nontrivial_per_config = True
    COMPS = {2: [(1., 0.), (0., 1.), (1., 2.5), (0.375, 0.375)],
             3: [(1., 0., 0.), (0., 2.5, 0.), (1., 2.5, 0.375), (0.375, 0., 1.)]}

    def warm(self): fx.tmo()
    def reset_globals(self): fx.reset_globals()
    # thorough: depth 3 for every configuration (universe grows from 4 to at most 7 streams) and depth 4 (8 streams) for the binary
    # Water/Ethanol at two conditions -- expressed as one system of depth 4 whose other configurations stop producing actions at 7 streams
    DEEP = {('l', 340., 1e6), ('g', 400., 101325.)}
    def depth(self, tier): return 2 if tier == 'quick' else 4
    def time_cap(self, tier): return None if tier == 'quick' else 900

    def configs(self, tier, seed):
        tups = [('Water', 'Ethanol'), ('Water', 'Ethanol', 'Methanol')]
        cond = [('l', 298.15, 101325.), ('l', 340., 1e6), ('g', 400., 101325.), ('g', 450., 1e4)]
        if tier != 'quick': cond += [('l', 275., 101325.), ('g', 500., 1e6)]
        cf = [(t, ph, T, P, eb, cl) for t in tups for (ph, T, P) in cond for eb in (False, True) for cl in ('HC', 'S')]
        k = seed % len(cf)
        return cf[k:] + cf[:k]

    def _mk(self, th, IDs, ph, T, P, flows):
        return fx.tmo().Stream(None, thermo=th, phase=ph, T=T, P=P, **{i: f for i, f in zip(IDs, flows) if f})

    def build(self, config):
        IDs, ph, T, P, eb, cl = config
        th = fx.custom_thermo(IDs)
        return dict(th=th, config=config, s=[self._mk(th, IDs, ph, T, P, f) for f in self.COMPS[len(IDs)]])

    def canon(self, st):
        ids = {}
        return (st['config'], tuple(sorted(repr(fx.stream_digest(x, ids)[3:6]) for x in st['s'])))

    def actions(self, st):
        n = len(st['s'])
        IDs, ph, T, P = st['config'][:4]
        cap = 8 if (len(IDs) == 2 and (ph, T, P) in self.DEEP) else 7
        if n >= cap: return []
        return [('mix', i, j) for i in range(n) for j in range(i, n)]

    def step(self, st, a):
        IDs, ph, T, P, eb, cl = st['config']
        th = st['th']
        _, i, j = a
        A, B = st['s'][i], st['s'][j]
        SA, SB, HA, HB, CA, CB = float(A.S), float(B.S), float(A.H), float(B.H), float(A.C), float(B.C)
        nA = np.array(A.mol.to_array() if hasattr(A.mol, 'to_array') else A.mol, float); nB = np.array(B.mol.to_array(), float)
        r = self._mk(th, IDs, ph, T, P, [0] * len(IDs))
        try:
            r.mix_from([A, B], energy_balance=eb)
        except UNDOC as e:
            raise Violation('unexpected-exception', f'mix_from raised {type(e).__name__}: {e}', match=dict(exc=type(e).__name__, what='mix'))
        nR = np.array(r.mol.to_array(), float)
        same = bool(np.allclose(nA / nA.sum(), nB / nB.sum()))
        m = dict(energy_balance=eb)
        if not np.allclose(nR, nA + nB, rtol=1e-12): raise Violation('flows', 'mix does not conserve flows', match=m)
        SR, HR, CR = float(r.S), float(r.H), float(r.C)
        tolT = 10. * 1e-6 if eb else 0.
        if abs(float(r.T) - T) > tolT or float(r.P) != P:
            raise Violation('mix-TP', f'mixing at equal T, P moved T to {float(r.T)!r} / P to {float(r.P)!r}', match=m)
        if cl == 'S': pass
        elif not (abs(HR - HA - HB) <= 1e-12 * (abs(HA) + abs(HB)) + abs(CR) * tolT + 1e-9):
            raise Violation('H-additive', f'H(mix) = {HR!r}, H(a) + H(b) = {HA + HB!r}', match=m, residual=abs(HR - HA - HB))
        if cl == 'HC' and not (abs(CR - CA - CB) <= 1e-9 * abs(CR)):
            raise Violation('C-additive', f'C(mix) = {CR!r}, C(a) + C(b) = {CA + CB!r}', match=m, residual=abs(CR - CA - CB))
        def nlnx(n):
            t = n.sum(); return sum(v * math.log(v / t) for v in n if v)
        gain_ref = -R * (nlnx(nR) - nlnx(nA) - nlnx(nB))           # >= 0
        gain = SR - SA - SB
        tol = 1e-6 * R * nR.sum() + abs(CR) / T * tolT + 1e-12 * (abs(SA) + abs(SB))
        if cl == 'HC':
            st['s'].append(r)
            return ('mix', same, not same, cl)
        if gain < -tol:
            raise Violation('S-lowered-by-mixing', f'{IDs} {ph} T={T} P={P}: S(mix) - S(a) - S(b) = {gain!r} < 0 (ideal gain {gain_ref!r}); a={nA.tolist()} b={nB.tolist()}',
                            match=m, residual=abs(gain - gain_ref))
        if not (abs(gain - gain_ref) <= tol):
            raise Violation('S-mixing-gain', f'{IDs} {ph} T={T} P={P}: S(mix) - S(a) - S(b) = {gain!r}, ideal gain {gain_ref!r}', match=m, residual=abs(gain - gain_ref))
        st['s'].append(r)
        return ('mix', same, gain_ref > tol, cl)

    def nontrivial(self, st, a, obs): return obs[2]
    def outcome(self, st, a, obs): return repr(obs)


# =========================================================================================================================================
class Setters(System):
    """history layer: a chemical (a private copy of a database chemical, or of one built with a user model passed to the constructor) is
    edited through every public entry point that feeds `Chemical._init_energies`: the setters Tb, Tm, Hfus, S0, phase_ref, `copy`,
    `reset_free_energies`, `copy_models_from(donor, [Cn | Hvap | both])`, `at_state(phase)` and `at_state(phase, copy=True)`.  After EVERY
    step the reference-state, jump and path-assembly clauses are re-evaluated on the mutated chemical, against the walk over the primitives
    with the chemical's CURRENT public Tm, Tb, Hfus, Hvap(Tb), Cn, S0, phase_ref / locked phase."""
    name = 'c07.setters'
    merge_across_configs = False
    PTS = [('s', 260.), ('l', 275.), ('l', 340.), ('g', 340.), ('g', 450.), ('S', 260.), ('L', 340.)]
    DONOR = 'Propanol'

    def warm(self): fx.tmo()
    def depth(self, tier): return 3 if tier == 'quick' else 5
    def time_cap(self, tier): return 200 if tier == 'quick' else 900

    def configs(self, tier, seed):
        self._tier = tier
        ids = ['Water', 'Ethanol', 'Hexane', 'AceticAcid'] if tier == 'quick' else ['Water', 'Ethanol', 'Hexane', 'AceticAcid', 'Benzene', 'Glycerol', 'Octanol', 'Butane']
        cf = [(ID, p) for ID in ids for p in 'slg']
        # chemicals built with a user model given to the constructor (`Hvap=` on a free chemical, `Cn=` on a phase-locked one)
        vids = ['Ethanol', 'Hexane'] if tier == 'quick' else ['Ethanol', 'Hexane', 'Water', 'Octanol']
        cf += [(ID, p, 'Hvap-arg') for ID in vids for p in 'slg'] + [(ID, p, 'Cn-arg') for ID in vids for p in 'lg']
        k = seed % len(cf)
        return cf[k:] + cf[:k]

    @staticmethod
    def _mode(c):
        return ('lock', c.locked_state) if c.locked_state else ('ref', c.phase_ref)

    def build(self, config):
        ID, p = config[0], config[1]
        variant = config[2] if len(config) > 2 else 'db'
        base = chem(ID, {'db': ('ref', p), 'Hvap-arg': ('refHvap', p), 'Cn-arg': ('lockCn', p)}[variant])
        donor = chem(self.DONOR, ('ref', 'l'))
        for nm, b in ((ID, base), (self.DONOR, donor)):
            md = self._mode(b)
            fp = (b.Tm, b.Tb, b.Hfus, b.S0, b.phase_ref, b.locked_state, call(b.H, md, 'g', 400., 101325.), call(b.Cn, md, 'l', 300.))
            key = ('fp', nm, p if b is base else 'l', variant if b is base else 'db')
            if key not in _chem: _chem[key] = fp
            elif _chem[key] != fp:
                raise Violation('copy-not-independent', f'editing a copy of / copying models from {nm} changed that chemical: {_chem[key]} -> {fp}')
        return dict(config=config, c=base.copy(ID + '_edit'), last=None, n=0)

    def canon(self, st):
        c = st['c']
        def fdata(h):
            out = []
            parts = [getattr(h, ph, None) for ph in 'slg'] if any(hasattr(h, ph) for ph in 'slg') else [h]
            for f in parts:
                d = getattr(f, '__dict__', {})
                out.append((type(f).__name__, tuple(sorted((k, fx.r12(v)) for k, v in d.items() if isinstance(v, (int, float))))))
            return tuple(out)
        md = self._mode(c)
        try: models = (fx.r12(c.Hvap(c.Tb)), fx.r12(call(c.Cn, md, 'l', 300.)), fx.r12(call(c.Cn, md, 'g', 400.)))
        except Exception as e: models = type(e).__name__
        return (tuple(st['config']), md, fx.r12(c.Tc or 0.), fx.r12(c.Pc or 0.), fx.r12(c.omega or 0.), fx.r12(c.Tm), fx.r12(c.Tb), fx.r12(c.Hfus), None if c.Sfus is None else fx.r12(c.Sfus), fx.r12(c.S0),
                models, fdata(c._H), fdata(c._S))

    def actions(self, st):
        c = st['c']
        acts = [('Tb', 4.), ('Tb', -3.), ('Tm', 2.), ('Hfus', 1.125), ('S0', 5.), ('copy',), ('reset',)]
        if getattr(self, '_tier', 'quick') != 'quick':
            # thorough: the critical constants, which the Hvap / Cn correlations may read
            acts += [('Tc', 5.), ('Pc', 1.0625), ('omega', 0.015625)]
        if not c.locked_state:
            acts += [('phase_ref', q) for q in 'slg' if q != c.phase_ref]
            acts += [('copy_models', nm) for nm in (('Cn',), ('Hvap',), ('Cn', 'Hvap'))]
            acts += [('at_state', q, cp) for q in 'slg' for cp in (False, True)]
        return acts

    def step(self, st, a):
        c = st['c']
        op = a[0]
        try:
            if op == 'Tb': c.Tb = c.Tb + a[1]
            elif op == 'Tm': c.Tm = c.Tm + a[1]
            elif op == 'Hfus': c.Hfus = c.Hfus * a[1]
            elif op == 'S0': c.S0 = c.S0 + a[1]
            elif op == 'Tc': c.Tc = c.Tc + a[1]
            elif op == 'Pc': c.Pc = c.Pc * a[1]
            elif op == 'omega': c.omega = c.omega + a[1]
            elif op == 'phase_ref': c.phase_ref = a[1]
            elif op == 'copy': st['c'] = c.copy(c.ID + 'c')
            elif op == 'reset': c.reset_free_energies()
            elif op == 'copy_models': c.copy_models_from(chem(self.DONOR, ('ref', 'l')), list(a[1]))
            elif op == 'at_state':
                if a[2]: st['c'] = c.at_state(a[1], copy=True)
                else: c.at_state(a[1])
            else: raise ValueError(a)
        except UNDOC as e:
            raise Violation('unexpected-exception', f'{st["config"]} {a!r}: {type(e).__name__}: {e}', match=dict(exc=type(e).__name__, after=op))
        st['last'] = op; st['n'] += 1
        return ('edit', op)

    def invariants(self, st):
        c = st['c']; op = st['last'] or 'construct'
        ID = st['config'][0]
        variant = st['config'][2] if len(st['config']) > 2 else 'db'
        mode = self._mode(c)
        out = []
        P = 101325.
        def V(clause, msg, resid, **mm):
            out.append(Violation(clause, f'{ID} [{variant}] ({mode[0]} {mode[1]}) after {op}: ' + msg, match=dict(after=op, **mm), residual=resid))
        try:
            ph = mode[1]
            H0 = call(c.H, mode, ph, c.T_ref, c.P_ref); S00 = call(c.S, mode, ph, c.T_ref, c.P_ref)
            if abs(H0 - c.H_ref) > 1e-9: V('reference-H', f'H(ref state) = {H0!r}', abs(H0))
            if abs(S00 - c.S0) > 1e-9 * max(1., abs(c.S0)): V('reference-S', f'S(ref state) = {S00!r}, S0 = {c.S0!r}', abs(S00 - c.S0))
            if mode[0] == 'ref':
                for tr, Tt, L, hi, lo in (('vap', c.Tb, c.Hvap(c.Tb), 'g', 'l'), ('fus', c.Tm, c.Hfus, 'l', 's')):
                    Hh, Hl = c.H(hi, Tt, P), c.H(lo, Tt, P)
                    if not (abs(Hh - Hl - L) <= 1e-9 * max(abs(L), abs(Hh), abs(Hl)) + 1e-9):
                        V('jump-H', f'H_{hi}({Tt}) - H_{lo}({Tt}) = {Hh - Hl!r}, latent heat = {L!r}', abs(Hh - Hl - L), transition=tr)
                    Pterm = -R * math.log(P / c.P_ref) if hi == 'g' else 0.
                    Sh, Sl = c.S(hi, Tt, P), c.S(lo, Tt, P)
                    dS = Sh - Sl - Pterm
                    if not (abs(dS - L / Tt) <= 1e-9 * max(abs(L / Tt), abs(Sh), abs(Sl)) + 1e-6 * abs(Pterm) + 1e-9):
                        V('jump-S', f'S_{hi}({Tt}) - S_{lo}({Tt}) = {dS!r}, latent heat / T = {L / Tt!r}', abs(dS - L / Tt), transition=tr)
            if not out:
                pts = self.PTS if mode[0] == 'ref' else [(mode[1], 275.), (mode[1], 340.), (mode[1], 450.)]
                for q, T in pts:
                    Hr, Sr, Pterm, sH, sS = path_HS(c, mode, q, T, P)
                    H = call(c.H, mode, q, T, P); S = call(c.S, mode, q, T, P) - Pterm
                    if not (abs(H - Hr) <= 1e-9 * sH + 1e-9):
                        V('assembly-H', f'H({q}, {T}) = {H!r}, path from the reference state gives {Hr!r}', abs(H - Hr), phase=q); break
                    if not (abs(S - Sr) <= 1e-9 * sS + 1e-6 * abs(Pterm) + 1e-9):
                        V('assembly-S', f'S({q}, {T}) = {S + Pterm!r}, path from the reference state gives {Sr + Pterm!r}', abs(S - Sr), phase=q); break
        except UNDOC as e:
            out.append(Violation('unexpected-exception', f'{ID} [{variant}] ({mode[0]} {mode[1]}) after {op}: {type(e).__name__}: {e}',
                                 match=dict(exc=type(e).__name__, after=op)))
        except RuntimeError:
            # a third-party correlation refuses to evaluate (e.g. the donor's Hvap model above the donor's critical temperature after
            # copy_models_from): the state is outside the compared domain, nothing is demanded of it
            return []
        return out[:1]

    def nontrivial(self, st, a, obs): return a[0] not in ('copy', 'reset')
    def outcome(self, st, a, obs): return repr((self._mode(st['c']), a[0]))


# =========================================================================================================================================
ALT_METHODS = {'Cn.l': 'DADGOSTAR_SHAW', 'Cn.g': 'POLING_POLY', 'Hvap': 'PITZER'}

def _model(c, which):
    return {'Cn.l': lambda: c.Cn.l, 'Cn.g': lambda: c.Cn.g, 'Hvap': lambda: c.Hvap}[which]()

def chem_clauses(c, label, after, P=101325., pts=Setters.PTS):
    """reference state, jumps at Tb / Tm and path assembly of one (free) chemical against its OWN current public data; first violation or None"""
    mode = ('ref', c.phase_ref)
    def V(clause, msg, resid, **mm):
        return Violation(clause, f'{label} (ref {c.phase_ref}) after {after}: ' + msg, match=dict(after=after, **mm), residual=resid)
    ph = mode[1]
    H0 = c.H(ph, c.T_ref, c.P_ref); S00 = c.S(ph, c.T_ref, c.P_ref)
    if abs(H0 - c.H_ref) > 1e-9: return V('reference-H', f'H(ref state) = {H0!r}', abs(H0))
    if abs(S00 - c.S0) > 1e-9 * max(1., abs(c.S0)): return V('reference-S', f'S(ref state) = {S00!r}, S0 = {c.S0!r}', abs(S00 - c.S0))
    for tr, Tt, L, hi, lo in (('vap', c.Tb, c.Hvap(c.Tb), 'g', 'l'), ('fus', c.Tm, c.Hfus, 'l', 's')):
        Hh, Hl = c.H(hi, Tt, P), c.H(lo, Tt, P)
        if not (abs(Hh - Hl - L) <= 1e-9 * max(abs(L), abs(Hh), abs(Hl)) + 1e-9):
            return V('jump-H', f'H_{hi}({Tt}) - H_{lo}({Tt}) = {Hh - Hl!r}, latent heat = {L!r}', abs(Hh - Hl - L), transition=tr)
        Pterm = -R * math.log(P / c.P_ref) if hi == 'g' else 0.
        Sh, Sl = c.S(hi, Tt, P), c.S(lo, Tt, P)
        dS = Sh - Sl - Pterm
        if not (abs(dS - L / Tt) <= 1e-9 * max(abs(L / Tt), abs(Sh), abs(Sl)) + 1e-6 * abs(Pterm) + 1e-9):
            return V('jump-S', f'S_{hi}({Tt}) - S_{lo}({Tt}) = {dS!r}, latent heat / T = {L / Tt!r}', abs(dS - L / Tt), transition=tr)
    for q, T in pts:
        Hr, Sr, Pterm, sH, sS = path_HS(c, mode, q, T, P)
        H = c.H(q, T, P); S = c.S(q, T, P) - Pterm
        if not (abs(H - Hr) <= 1e-9 * sH + 1e-9):
            return V('assembly-H', f'H({q}, {T}) = {H!r}, the path over this chemical\'s own Cn / Hvap / Hfus gives {Hr!r}', abs(H - Hr), phase=q)
        if not (abs(S - Sr) <= 1e-9 * sS + 1e-6 * abs(Pterm) + 1e-9):
            return V('assembly-S', f'S({q}, {T}) = {S + Pterm!r}, the path over this chemical\'s own Cn / Hvap / Hfus gives {Sr + Pterm!r}', abs(S - Sr), phase=q)
    return None


class Copies(System):
    """two-object universe: an original chemical and a copy of it.  Every action edits ONE of the two (model-method switch + the documented
    `reset_free_energies()`, Tb, Hfus, phase_ref, copy_models_from, reset) or re-copies the original; after every action the clauses are
    evaluated on BOTH objects, each against its own current public data -- "copies are independent": an edit of one chemical must not move
    the other's functors."""
    name = 'c07.copies'
    merge_across_configs = False

    def warm(self): fx.tmo()
    def depth(self, tier): return 3 if tier == 'quick' else 4
    def time_cap(self, tier): return 200 if tier == 'quick' else 900

    def configs(self, tier, seed):
        ids = ['Ethanol', 'Hexane'] if tier == 'quick' else ['Ethanol', 'Hexane', 'Water', 'AceticAcid']
        cf = [(ID, p) for ID in ids for p in 'slg']
        k = seed % len(cf)
        return cf[k:] + cf[:k]

    def build(self, config):
        ID, p = config
        base = chem(ID, ('ref', p))
        orig = base.copy(ID + '_o')
        return dict(config=config, o=[orig, orig.copy(ID + '_d')], last=None)

    def _one(self, c):
        def fdata(h):
            out = []
            for f in [getattr(h, ph, None) for ph in 'slg']:
                d = getattr(f, '__dict__', {})
                out.append((type(f).__name__, tuple(sorted((k, fx.r12(v)) for k, v in d.items() if isinstance(v, (int, float))))))
            return tuple(out)
        try: probes = (fx.r12(c.Hvap(c.Tb)), fx.r12(c.Cn('l', 300.)), fx.r12(c.Cn('g', 400.)), fx.r12(c.H('g', 400., 101325.)), fx.r12(c.H('s', 260., 101325.)))
        except Exception as e: probes = type(e).__name__
        return (c.phase_ref, fx.r12(c.Tm), fx.r12(c.Tb), fx.r12(c.Hfus), fx.r12(c.S0), c.Cn.l.method, c.Cn.g.method, c.Hvap.method, probes,
                fdata(c._H), fdata(c._S))

    def canon(self, st):
        return (tuple(st['config']), self._one(st['o'][0]), self._one(st['o'][1]))

    def actions(self, st):
        acts = []
        for t in (0, 1):
            c = st['o'][t]
            acts += [('method', t, w) for w in ('Cn.l', 'Cn.g', 'Hvap')]
            acts += [('Tb', t, 4.), ('Hfus', t, 1.125), ('reset', t), ('copy_models', t, ('Cn',)),
                     ('phase_ref', t, 'slg'[('slg'.index(c.phase_ref) + 1) % 3])]
        acts.append(('recopy',))
        return acts

    def step(self, st, a):
        op = a[0]
        try:
            if op == 'recopy':
                st['o'][1] = st['o'][0].copy(st['o'][0].ID + 'd')
            else:
                c = st['o'][a[1]]
                if op == 'method':
                    # the documented way: change the model, then reset the free energies of THAT chemical
                    mdl = _model(c, a[2]); alt = ALT_METHODS[a[2]]
                    if alt not in mdl.all_methods: raise Rejected('alternative method not available', cut=True)
                    base_method = _model(chem(st['config'][0], ('ref', st['config'][1])), a[2]).method
                    new_method = alt if mdl.method != alt else base_method
                    if new_method not in mdl.all_methods:      # e.g. after the models were copied from another chemical
                        raise Rejected('method to switch back to is not available on the current model object', cut=True)
                    mdl.method = new_method
                    c.reset_free_energies()
                elif op == 'Tb': c.Tb = c.Tb + a[2]
                elif op == 'Hfus': c.Hfus = c.Hfus * a[2]
                elif op == 'reset': c.reset_free_energies()
                elif op == 'copy_models': c.copy_models_from(chem(Setters.DONOR, ('ref', 'l')), list(a[2]))
                elif op == 'phase_ref': c.phase_ref = a[2]
                else: raise ValueError(a)
        except UNDOC as e:
            raise Violation('unexpected-exception', f'{st["config"]} {a!r}: {type(e).__name__}: {e}', match=dict(exc=type(e).__name__, after=op))
        st['last'] = a
        return ('edit', op, a[1] if len(a) > 1 else None)

    def invariants(self, st):
        a = st['last']
        if a is None: after, tgt = 'construct', None
        else: after, tgt = a[0], (a[1] if len(a) > 1 else None)
        for t, c in enumerate(st['o']):
            who = 'original' if t == 0 else 'copy'
            role = 'edited' if tgt == t else ('other' if tgt is not None else 'both')
            try:
                v = chem_clauses(c, f'{st["config"][0]} {who}', after)
            except UNDOC as e:
                v = Violation('unexpected-exception', f'{st["config"][0]} {who} after {after}: {type(e).__name__}: {e}', match=dict(exc=type(e).__name__, after=after))
            except RuntimeError:
                continue          # a third-party correlation refuses to evaluate: outside the compared domain
            if v is not None:
                v.match['object'] = role
                return [v]
        return []

    def nontrivial(self, st, a, obs): return a[0] != 'reset'
    def outcome(self, st, a, obs): return repr(obs)


# =========================================================================================================================================
class MixLive(System):
    """ordering layer: a property package (Chemicals -> Thermo -> mixture object) is built on PRIVATE copies of chemicals FIRST; then a member
    chemical is edited through its public setters; after every edit the EXISTING mixture object must still equal the mole-weighted sum of the
    (edited) pure values for H and Cn, and its entropy must exceed the mole-weighted sum by the same composition-only term as before the edit."""
    name = 'c07.mixlive'
    merge_across_configs = False
    PTS = [('s', 260.), ('l', 320.), ('g', 400.), ('g', 480.), ('S', 260.), ('L', 320.)]
    N = (1., 2.5, 0.375)
    INPLACE = ('S0', 'Hfus')            # setters that update the functors in place; the others rebuild them (reset_free_energies)

    def warm(self): fx.tmo()
    def depth(self, tier): return 2 if tier == 'quick' else 3

    def configs(self, tier, seed):
        tups = [('Water', 'Ethanol')] if tier == 'quick' else [('Water', 'Ethanol'), ('Hexane', 'AceticAcid', 'Ethanol')]
        cf = [(t, m) for t in tups for m in range(len(t))]
        k = seed % len(cf)
        return cf[k:] + cf[:k]

    def build(self, config):
        tmo = fx.tmo()
        IDs, m = config
        cs = [chem(ID, ('ref', 'l')).copy(ID) for ID in IDs]
        th = tmo.Thermo(tmo.Chemicals(cs))
        st = dict(config=config, th=th, last=None, rebuilt=False, rebuilt_before=False)
        st['gain0'] = self._gains(st)
        return st

    def _n(self, st): return np.array(self.N[:len(st['config'][0])])

    def _gains(self, st):
        th = st['th']; n = self._n(st); chems = th.chemicals.tuple
        return {(q, T): th.mixture.S(q, n, T, 101325.) - sum(x * c.S(q, T, 101325.) for x, c in zip(n, chems)) for q, T in self.PTS}

    def canon(self, st):
        out = []
        for c in st['th'].chemicals.tuple:
            out.append((c.phase_ref, fx.r12(c.Tm), fx.r12(c.Tb), fx.r12(c.Hfus), fx.r12(c.S0), c.Cn.g.method,
                        tuple(fx.r12(c.H(q, T, 101325.)) for q, T in self.PTS)))
        th = st['th']; n = self._n(st)
        return (st['config'], st['rebuilt'], tuple(out), tuple(fx.r12(th.mixture.H(q, n, T, 101325.)) for q, T in self.PTS))

    def actions(self, st):
        c = st['th'].chemicals.tuple[st['config'][1]]
        return [('S0', 5.), ('Hfus', 1.125), ('Tb', 4.), ('Tm', 2.), ('reset',), ('method', 'Cn.g'),
                ('phase_ref', 'slg'[('slg'.index(c.phase_ref) + 1) % 3])]

    def step(self, st, a):
        c = st['th'].chemicals.tuple[st['config'][1]]
        op = a[0]
        try:
            if op == 'S0': c.S0 = c.S0 + a[1]
            elif op == 'Hfus': c.Hfus = c.Hfus * a[1]
            elif op == 'Tb': c.Tb = c.Tb + a[1]
            elif op == 'Tm': c.Tm = c.Tm + a[1]
            elif op == 'reset': c.reset_free_energies()
            elif op == 'phase_ref': c.phase_ref = a[1]
            elif op == 'method':
                mdl = _model(c, a[1]); alt = ALT_METHODS[a[1]]
                if alt not in mdl.all_methods: raise Rejected('alternative method not available', cut=True)
                mdl.method = alt if mdl.method != alt else _model(chem(c.ID, ('ref', 'l')), a[1]).method
                c.reset_free_energies()
            else: raise ValueError(a)
        except UNDOC as e:
            raise Violation('unexpected-exception', f'{st["config"]} {a!r}: {type(e).__name__}: {e}', match=dict(exc=type(e).__name__, after=op))
        except (AttributeError, RuntimeError) as e:
            raise Rejected(f'edit refused:{type(e).__name__}', cut=True)
        st['last'] = op
        st['rebuilt_before'] = st['rebuilt']                 # did an earlier step of this history rebuild the functors?
        if op not in self.INPLACE: st['rebuilt'] = True
        return ('edit', op)

    def invariants(self, st):
        op = st['last'] or 'construct'
        th = st['th']; n = self._n(st); chems = th.chemicals.tuple
        kind = 'construct' if st['last'] is None else ('inplace' if op in self.INPLACE else 'rebuild')
        m = dict(after=op, setter_kind=kind, prior_rebuild=bool(st['rebuilt_before']))
        P = 101325.
        try:
            for q, T in self.PTS:
                Hm = th.mixture.H(q, n, T, P); Hp = sum(x * c.H(q, T, P) for x, c in zip(n, chems))
                sc = sum(abs(x * c.H(q, T, P)) for x, c in zip(n, chems))
                if not (abs(Hm - Hp) <= 1e-12 * sc + 1e-9):
                    return [Violation('live-H', f'{st["config"][0]} after {op} on member {st["config"][1]}: the mixture object built before the edit gives '
                                      f'H({q}, {T}) = {Hm!r}, the mole-weighted sum of the pure values is {Hp!r}', match=m, residual=abs(Hm - Hp))]
                Cm = th.mixture.Cn(q, n, T); Cp_ = sum(x * c.Cn(q, T) for x, c in zip(n, chems))
                if not (abs(Cm - Cp_) <= 1e-12 * abs(Cp_)):
                    return [Violation('live-Cn', f'{st["config"][0]} after {op}: mixture Cn({q}, {T}) = {Cm!r}, sum of the pure values {Cp_!r}', match=m,
                                      residual=abs(Cm - Cp_))]
                g = th.mixture.S(q, n, T, P) - sum(x * c.S(q, T, P) for x, c in zip(n, chems))
                ss = sum(abs(x * c.S(q, T, P)) for x, c in zip(n, chems))
                if not (abs(g - st['gain0'][(q, T)]) <= 1e-12 * ss + 1e-9):
                    return [Violation('live-S', f'{st["config"][0]} after {op} on member {st["config"][1]}: S_mix - sum n_i S_i at ({q}, {T}) moved from '
                                      f'{st["gain0"][(q, T)]!r} to {g!r} (it depends on the composition only)', match=m, residual=abs(g - st['gain0'][(q, T)]))]
        except UNDOC as e:
            return [Violation('unexpected-exception', f'{st["config"]} after {op}: {type(e).__name__}: {e}', match=dict(exc=type(e).__name__, after=op))]
        except RuntimeError:
            return []
        return []

    def nontrivial(self, st, a, obs): return a[0] != 'reset'
    def outcome(self, st, a, obs): return repr(obs)


SYSTEMS = [Pure(), Mixture(), Mixing(), Setters(), Copies(), MixLive()]
