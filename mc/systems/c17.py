"""
C17 — reaction arithmetic agrees with applying the reactions and spares its operands.

State: a heap of three real `Reaction`s a, b, c that share a reactant, a result slot r, optionally a
ParallelReaction p built from two of them together with item handles taken at that moment.
Actions: every operator / method of the property applied to every operand combination.  Depth 2
therefore enumerates every expression tree of depth <= 2 (the second operation may consume r).

Reference model: a reaction with reactant slot r is characterised by its extent vector  E = X * nu
(per unit of reactant fed, molar).   a + b -> Ea + Eb,  a - b -> Ea - Eb,  k*a, a*k -> k*Ea,
a/k -> Ea/k,  -a -> -Ea,  copy -> Ea.  From E:  X = -E[r], nu = E / X.
"""
from __future__ import annotations
import numpy as np
from mc.engine import System, Violation, Rejected
from mc import fixtures as fx
from mc.systems import _rxn_common as rc
from mc.systems._rxn_common import IDS, N, POS, MENU, MENU_INDEX

PROPERTY = 'C17'
RULE = ('BFS over operator applications on a heap {a,b,c,r,p} of real Reaction objects sharing a reactant; depth 2 enumerates all '
        'expression trees of depth <= 2 over {a+b, a-b, sum, k*a, a*k, a/k, -a, copy, copy(same basis), copy(other basis), x.basis= (in place), backwards, +=, -=, *=, /=, '
        'ParallelReaction([x,y]), item.X=, set.X[i]=, set.X=, item*=k, item/=k, item*k, reduce, set.copy}.  Two histories are merged iff the complete field digests '
        '(stoichiometry incl. stored zeros, reactant index, X, basis, phases, object identity/aliasing classes) of all heap members '
        'agree.  A transition is non-trivial when it built or changed a reaction whose extent vector differs from every operand\'s, '
        'or when it changed a conversion through an item/set.')
ASSUMPTIONS = [
    'families (three reactions with a common reactant): glucose, ethanol, methane, oxygen (fractional coefficients), liquid water with '
    'phase tags; conversions from {0.2, 0.5} (+ one operand with X = 0 in the "inert" pattern), and patterns in which EVERY member is built with '
    'an integer-typed whole-number conversion (Python int / numpy.int64: 1, 1, 0); k in {0.5, 2}; mol, wt and mixed bases',
    'a - b with equal conversions has no representation as a reaction on that reactant (X = 0 with a non-zero net change); such '
    'transitions are cut and counted, not judged',
    'both sides are compared on three feeds (Stream generous, Stream mixed, bare ndarray) and through their extent vectors',
    'backwards(): only "new object, operands unchanged" is demanded (the property does not state what the reversed reaction does), plus '
    'that the returned reaction has the requested reactant',
]
TOLERANCES = {
    'extent_rtol': 1e-9,       # X*nu of the real object vs the model, relative to max |E|
    'X_rtol': 1e-12,
    'flow_rtol': 1e-9,
}

FAMILIES = {
    # name: (tag, reactant, (menu names))
    'glucose': ('none', 'Glucose', ('ferment', 'acet', 'gluccomb')),
    'ethanol': ('none', 'Ethanol', ('etox', 'etcomb', 'etreform')),
    'methane': ('none', 'CH4', ('ch4comb', 'partox', 'smr')),
    'oxygen':  ('none', 'O2', ('h2comb', 'cocomb', 'ch4comb')),
    'water':   ('nat', 'H2O', ('elec', 'wgs', 'smr')),
}
# thorough tier only: two more phase-tagged triples, three triples with fractional / five-species stoichiometries
FAMILIES_T = dict(FAMILIES)
FAMILIES_T.update({
    'ethanol-t': ('nat', 'Ethanol', ('etox', 'etcomb', 'etreform')),
    'methane-t': ('nat', 'CH4', ('ch4comb', 'partox', 'smr')),
    'glucose2':  ('none', 'Glucose', ('ferment', 'glucacid', 'glucreform')),
    'methane2':  ('none', 'CH4', ('ch4mixed', 'dryreform', 'smr')),
    'oxygen2':   ('none', 'O2', ('etmixed', 'ch4mixed', 'acetcomb')),
})
FAMILIES_ALL = FAMILIES_T
XPATTERNS = {'A': (0.2, 0.5, 0.5), 'B': (0.5, 0.2, 0.2), 'inert': (0.5, 0.2, 0.0)}
# every member constructed with a WHOLE-NUMBER conversion given as an integer object (Python int / numpy int64): a set built only
# from such members must still hold float conversions (item.X = 0.75, set.X = [...], item *= k must not be truncated)
XPATTERNS_INT = {'int': (1, 1, 0), 'npint': ('np1', 'np1', 'np0'), 'int2': (1, 0, 1)}
XPATTERNS_ALL = dict(XPATTERNS, **XPATTERNS_INT)

def _xvalue(x):
    if x == 'np1': return np.int64(1)
    if x == 'np0': return np.int64(0)
    return x
BASES = {'mol': ('mol', 'mol', 'mol'), 'wt': ('wt', 'wt', 'wt'), 'mixed': ('mol', 'wt', 'mol')}
BASES_T = dict(BASES, mixed2=('wt', 'mol', 'wt'))
KS = (0.5, 2.0)
KS_T = (0.5, 2.0, 0.25, 3.0)
NAMES = ('a', 'b', 'c', 'r')

_loaded = False
def _load():
    global _loaded
    if not _loaded:
        fx.tmo(); rc.package('P'); rc.package('R'); rc.MW()
        _loaded = True


class Val:
    """model value of one heap slot"""
    __slots__ = ('E', 'ridx', 'basis', 'phases', 'nu')
    def __init__(self, E, ridx, basis, phases, nu=None):
        self.E = E; self.ridx = ridx; self.basis = basis; self.phases = phases
        # molar stoichiometry normalised to -1 on the reactant; derived from E unless X == 0 (then inherited from the operand)
        X = -float(E[ridx])
        self.nu = E / X if X != 0 else nu
    def X(self): return -float(self.E[self.ridx])
    def copy(self): return Val(self.E.copy(), self.ridx, self.basis, self.phases, self.nu)


def extent_of(rxn):
    """molar extent vector X*nu of a real single reaction"""
    nu = np.array(rxn._stoichiometry.to_array(), float)
    ridx = rxn._reactant_index
    ridx = tuple(int(i) for i in ridx) if isinstance(ridx, (tuple, list)) else (int(ridx),)
    if rxn._basis == 'wt':
        mw = rc.MW()
        nu = nu / mw * mw[ridx[-1]]
    return float(rxn.X) * nu, ridx


def extent_of_unit(rxn):
    """molar stoichiometry (as stored, per unit reactant) of a real single reaction"""
    nu = np.array(rxn._stoichiometry.to_array(), float)
    ridx = rxn._reactant_index
    if rxn._basis == 'wt':
        mw = rc.MW()
        j = ridx[-1] if isinstance(ridx, (tuple, list)) else ridx
        nu = nu / mw * mw[int(j)]
    return nu


class St:
    pass


@rc.guard_build
class Arith(System):
    name = 'c17.arith'
    nontrivial_per_config = True

    def warm(self): _load()
    def reset_globals(self): rc.reset_reaction_globals()
    def depth(self, tier): return 2
    def describe(self, tier):
        q = tier == 'quick'
        return dict(families={k: v[2] for k, v in (FAMILIES if q else FAMILIES_T).items()}, X_patterns=XPATTERNS_ALL,
                    bases=list(BASES if q else BASES_T), k=list(KS if q else KS_T))

    ks = KS

    def configs(self, tier, seed):
        self.ks = KS if tier == 'quick' else KS_T          # set in the master before the workers are forked
        cfgs = []
        fams = list(FAMILIES if tier == 'quick' else FAMILIES_T)
        for fi, fam in enumerate(fams):
            for xp in XPATTERNS:
                for bs in (BASES if tier == 'quick' else BASES_T):
                    if tier == 'quick':
                        # core: pattern A / mol for every family; one seed-selected deviation per family
                        dev = (xp != 'A') + (bs != 'mol')
                        if dev == 2: continue
                        if dev == 1:
                            devs = [('B', 'mol'), ('inert', 'mol'), ('A', 'wt'), ('A', 'mixed')]
                            if (xp, bs) != devs[(fi + seed) % 4]: continue
                    cfgs.append((fam, xp, bs))
        # integer-typed conversions: quick two families (one Python int, one numpy int64), thorough every family x pattern x basis
        if tier == 'quick':
            cfgs += [(fams[seed % len(fams)], 'int', 'mol'), (fams[(seed + 4) % len(fams)], 'npint', 'mol')]
        else:
            cfgs += [(fam, xp, bs) for fam in fams for xp in XPATTERNS_INT for bs in ('mol', 'wt', 'mixed')]
        k = seed % len(cfgs)
        return cfgs[k:] + cfgs[:k]

    # ---- building -------------------------------------------------------------------------------------
    def build(self, config):
        fam, xp, bs = config
        tag, reactant, names = FAMILIES_ALL[fam]
        tg = None if tag == 'none' else tag
        st = St()
        st.config = config
        st.reactant = reactant
        st.tag = tg
        st.obj = {}
        st.val = {}
        for nm, mname, X, basis in zip('abc', names, XPATTERNS_ALL[xp], BASES_T[bs]):
            X = _xvalue(X)                       # handed to Reaction(...) exactly as it is (int / numpy.int64 / float)
            ri = MENU_INDEX[mname]
            st.obj[nm] = rc.make_reaction(ri, reactant, X, 'str', tg, 'mol' if basis == 'mol' else 'wt-set')
            ref = rc.RefRxn(ri, reactant, X, tg)
            st.val[nm] = Val(ref.nu * X, ref.ridx, basis, ref.phases, ref.nu)
        st.obj['r'] = None; st.val['r'] = None
        st.p = None; st.pitems = None; st.pval = None; st.pX = None
        st.last_nontrivial = False
        return st

    # ---- actions --------------------------------------------------------------------------------------------
    def actions(self, st):
        live = [n for n in NAMES if st.obj[n] is not None]
        acts = []
        for x in live:
            for y in live:
                acts.append(('add', x, y))
                if x != y:
                    acts.append(('sub', x, y))
                    acts.append(('iadd', x, y)); acts.append(('isub', x, y))
            for k in self.ks:
                acts += [('mul', x, k), ('rmul', x, k), ('div', x, k), ('imul', x, k), ('idiv', x, k)]
            acts += [('neg', x), ('copy', x), ('copysame', x), ('rebase', x), ('ibasis', x), ('back', x, None)]
            for pr in self._products(st, x): acts.append(('back', x, pr))
        acts.append(('sum', 'a', 'b'))
        for x, y in (('a', 'b'), ('b', 'c'), ('a', 'r'), ('c', 'a')):
            if st.obj[x] is not None and st.obj[y] is not None: acts.append(('pset', x, y))
        if st.p is not None:
            for i in (0, 1):
                for v in (0.25, 0.0):
                    acts += [('itemX', i, v), ('heldX', i, v), ('setXi', i, v)]
            acts += [('setX', 0.125, 0.375), ('reduce',), ('pcopy', None), ('pcopy', 'other')]
            for i in (0, 1):
                for k in self.ks:
                    # arithmetic on an ITEM of the set: in-place forms act on that member only, binary forms spare the set
                    acts += [('itemimul', i, k), ('itemidiv', i, k), ('helditemimul', i, k), ('itemmul', i, k)]
        return acts

    def _products(self, st, x):
        v = st.val[x]
        if v is None: return []
        E = v.E if v.E.ndim == 1 else v.E.sum(0)
        s = np.sign(v.X()) or 1.0
        return [IDS[i] for i in range(N) if E[i] * s > 0][:2]

    # ---- digests ---------------------------------------------------------------------------------------------
    def _digests(self, st):
        d = {n: (None if st.obj[n] is None else rc.rxn_digest(st.obj[n])) for n in NAMES}
        d['p'] = None if st.p is None else rc.rxn_digest(st.p)
        return d

    def _alias(self, st):
        """aliasing classes of the mutable containers (stoichiometry objects / rows) among heap members"""
        ids = {}
        out = []
        def tok(o): return ids.setdefault(id(o), len(ids))
        for n in NAMES:
            o = st.obj[n]
            if o is None: out.append(None); continue
            s = o._stoichiometry
            out.append((tok(o), tok(s), tuple(tok(r) for r in getattr(s, 'rows', ()))))
        if st.p is not None:
            out.append((tok(st.p), tuple(tok(s) for s in st.p._stoichiometry), tok(st.p._X)))
        return tuple(out)

    def canon(self, st):
        return (st.config, tuple(sorted((k, v) for k, v in self._digests(st).items() if v is not None)), self._alias(st),
                None if st.pX is None else tuple(st.pX))

    # ---- oracle helpers ---------------------------------------------------------------------------------------
    def _check_value(self, st, name, match, what):
        """real object in slot `name` must equal the model value: reactant, basis, X, X*nu"""
        o = st.obj[name]; v = st.val[name]
        E, ridx = extent_of(o)
        if ridx != v.ridx:
            raise Violation('result-value', f'{what}: reactant index {ridx} expected {v.ridx}', match=dict(match, field='reactant'))
        if o._basis != v.basis:
            raise Violation('result-value', f'{what}: basis {o._basis} expected {v.basis}', match=dict(match, field='basis'))
        Xm = v.X()
        if not np.isfinite(E).all():
            raise Violation('result-value', f'{what}: non-finite stoichiometry/conversion (X={o.X})', match=dict(match, field='finite'))
        if abs(float(o.X) - Xm) > TOLERANCES['X_rtol'] * max(1.0, abs(Xm)):
            raise Violation('result-value', f'{what}: X = {float(o.X)!r}, expected {Xm!r}', match=dict(match, field='X'),
                            residual=abs(float(o.X) - Xm))
        if v.nu is not None:
            nu_real = E / float(o.X) if float(o.X) != 0 else extent_of_unit(o)
            errn = float(np.abs(nu_real - v.nu).max())
            if errn > TOLERANCES['extent_rtol'] * float(np.abs(v.nu).max()):
                i = np.unravel_index(int(np.abs(nu_real - v.nu).argmax()), nu_real.shape)
                raise Violation('result-value', f'{what}: molar stoichiometry differs from the model by {errn:.6g} at {IDS[i[-1]]} '
                                f'(real {nu_real[i]:.9g}, model {v.nu[i]:.9g})', match=dict(match, field='stoichiometry'),
                                residual=errn, detail=dict(real=nu_real, model=v.nu, reaction=o))
        scale = max(1e-300, float(np.abs(v.E).max()))
        err = float(np.abs(E - v.E).max())
        if err > TOLERANCES['extent_rtol'] * scale:
            i = np.unravel_index(int(np.abs(E - v.E).argmax()), E.shape)
            raise Violation('result-value', f'{what}: X*nu differs from the model by {err:.6g} at {IDS[i[-1]]} '
                            f'(real {E[i]:.9g}, model {v.E[i]:.9g})', match=dict(match, field='stoichiometry'), residual=err / scale,
                            detail=dict(real=E, model=v.E, reaction=o))

    def _feeds(self, st, v):
        """three (kind, array) feeds in the shape of the reaction"""
        g = np.full(N, 64.0); g[POS[st.reactant]] = 1.0
        m = np.array([2.5, 80.0, 30.375, 11.0, 20.0, 40.0, 4.0, 0.5, 60.25]); m[POS[st.reactant]] = 0.5
        out = []
        for kind, base in (('S', g), ('SR', m), ('A', m)):
            if v.phases:
                tm = rc.tags_of(MENU_INDEX[FAMILIES_ALL[st.config[0]][2][0]], st.tag)
                arr = np.zeros((len(v.phases), N))
                for i, ID in enumerate(IDS):
                    p = rc.NAT_PHASE[ID] if rc.NAT_PHASE[ID] in v.phases else v.phases[0]
                    arr[v.phases.index(p), i] = base[i]
                out.append(({'S': 'M', 'SR': 'MR', 'A': 'A2'}[kind], arr))
            else:
                out.append(({'S': 'S.g', 'SR': 'SR', 'A': 'A'}[kind], base))
        return out

    def _apply(self, rxn, kind, arr, phases):
        """apply a real reaction-like object to a fresh target; returns ('ok', flows) | ('infeasible', None)"""
        from mc.systems.c05 import Target
        from thermosteam.exceptions import InfeasibleRegion
        tgt = Target(kind, arr, phases)
        try: rxn(tgt.arg)
        except InfeasibleRegion: return 'infeasible', None, tgt
        return 'ok', tgt.read(), tgt

    def _check_acts(self, st, rxn, Es, ridx, basis, phases, match, what, other=None, other_raw=True):
        """rxn applied to the feeds gives n + n[r] * sum(Es) (extents all drawn from the feed, i.e. 'in parallel');
        `other` (a real object said to be equivalent) must give the same"""
        E = sum(Es)
        dummy = Val(E, ridx, basis, phases)
        for kind, arr in self._feeds(st, dummy):
            if kind in ('MR',) : continue          # cross-package multi-phase targets: a C05 defect lives there, not the subject here
            raw_wt = basis == 'wt' and kind in ('A', 'A2')
            if raw_wt:
                mw = rc.MW()
                Ew = E * mw / mw[ridx[-1]]
                exp = arr + arr[ridx] * Ew
            else:
                exp = arr + arr[ridx] * E
            try:
                out, got, _ = self._apply(rxn, kind, arr, phases)
            except Exception as e:
                raise Violation('unexpected-exception', f'{what} applied to a feed: {type(e).__name__}: {e}',
                                match=dict(match, exc=type(e).__name__, where='apply'))
            s = max(1.0, float(np.abs(arr).max()))
            neg = exp.min() < -1e-9 * s
            if out == 'infeasible':
                if not neg:
                    raise Violation('acts-like', f'{what}: InfeasibleRegion on feed {kind} although the model result is non-negative',
                                    match=dict(match, feed=kind, how='spurious-infeasible'))
            else:
                if neg:
                    raise Violation('acts-like', f'{what}: model result has a negative entry on feed {kind} but the call returned',
                                    match=dict(match, feed=kind, how='negative'))
                err = float(np.abs(got - np.maximum(exp, 0)).max())
                if err > TOLERANCES['flow_rtol'] * s:
                    i = np.unravel_index(int(np.abs(got - exp).argmax()), got.shape)
                    raise Violation('acts-like', f'{what} on feed {kind}: {IDS[i[-1]]} = {got[i]:.9g}, the model gives {exp[i]:.9g}',
                                    match=dict(match, feed=kind, how='flows'), residual=err / s, detail=dict(got=got, expected=exp))
            if other is not None and (other_raw or kind not in ('A', 'A2')):   # a bare array means mass to a wt-basis object
                out2, got2, _ = self._apply(other, kind, arr, phases)
                if out2 != out or (out == 'ok' and float(np.abs(got - got2).max()) > TOLERANCES['flow_rtol'] * s):
                    raise Violation('acts-like', f'{what} on feed {kind}: differs from the equivalent real object '
                                    f'({out}/{out2})', match=dict(match, feed=kind, how='vs-equivalent'),
                                    detail=dict(got=got, other=got2))

    # ---- step ---------------------------------------------------------------------------------------------------
    def step(self, st, a):
        t = fx.tmo()
        op = a[0]
        obj, val = st.obj, st.val
        before = self._digests(st)
        match = dict(op=op)
        st.last_nontrivial = False
        inplace = op in ('iadd', 'isub', 'imul', 'idiv', 'ibasis')
        new = None; newval = None; target = None
        pchange = False

        def run(f):
            try: return f()
            except ZeroDivisionError as e:
                raise Violation('unexpected-exception', f'ZeroDivisionError: {e}', match=dict(match, exc='ZeroDivisionError'))
            except Exception as e:
                raise Violation('unexpected-exception', f'{type(e).__name__}: {e}', match=dict(match, exc=type(e).__name__))

        if op in ('add', 'sub', 'iadd', 'isub', 'sum'):
            _, x, y = a
            vx, vy = val[x], val[y]
            sign = 1.0 if op in ('add', 'iadd', 'sum') else -1.0
            E = vx.E + sign * vy.E
            match['operands'] = 'same' if x == y else ('inert' if vy.X() == 0 else ('lhs-inert' if vx.X() == 0 else 'distinct'))
            match['bases'] = vx.basis if vx.basis == vy.basis else 'mixed'
            if abs(E[vx.ridx]) <= 1e-12 and np.abs(E).max() > 1e-12:
                raise Rejected('degenerate:zero net conversion with non-zero net change', cut=True)
            if abs(E[vx.ridx]) <= 1e-12:
                raise Rejected('degenerate:null reaction', cut=True)
            newval = Val(E, vx.ridx, vx.basis, vx.phases)
            ox, oy = obj[x], obj[y]
            if op == 'add': new = run(lambda: ox + oy)
            elif op == 'sub': new = run(lambda: ox - oy)
            elif op == 'sum': new = run(lambda: sum([ox, oy]))
            elif op == 'iadd':
                def f():
                    z = ox; z += oy; return z
                new = run(f); target = x
            else:
                def f():
                    z = ox; z -= oy; return z
                new = run(f); target = x
            operands = {x, y}
        elif op in ('mul', 'rmul', 'div', 'imul', 'idiv'):
            _, x, k = a
            vx = val[x]
            f_ = k if op in ('mul', 'rmul', 'imul') else 1.0 / k
            match['k'] = k
            newval = Val(vx.E * f_, vx.ridx, vx.basis, vx.phases, vx.nu)
            ox = obj[x]
            if op == 'mul': new = run(lambda: ox * k)
            elif op == 'rmul': new = run(lambda: k * ox)
            elif op == 'div': new = run(lambda: ox / k)
            elif op == 'imul':
                def f():
                    z = ox; z *= k; return z
                new = run(f); target = x
            else:
                def f():
                    z = ox; z /= k; return z
                new = run(f); target = x
            operands = {x}
        elif op == 'ibasis':
            # in-place re-basing of a heap member (typically the RESULT of an earlier copy / k*a / -a / a+b): rescales that object's
            # stoichiometry array in place; every other heap member (the operands it was made from) must stay what it was
            _, x = a
            vx = val[x]; ox = obj[x]
            nb = 'wt' if vx.basis == 'mol' else 'mol'
            match['to'] = nb
            newval = Val(vx.E.copy(), vx.ridx, nb, vx.phases, vx.nu)
            def f():
                ox.basis = nb; return ox
            new = run(f); target = x
            operands = {x}
        elif op in ('neg', 'copy', 'copysame', 'rebase'):
            _, x = a
            vx = val[x]; ox = obj[x]
            if op == 'copysame':            # copy(basis=<the basis it already has>)
                newval = vx.copy(); new = run(lambda: ox.copy(basis=vx.basis))
            elif op == 'neg':
                newval = Val(-vx.E, vx.ridx, vx.basis, vx.phases, vx.nu); new = run(lambda: -ox)
            elif op == 'copy':
                newval = vx.copy(); new = run(lambda: ox.copy())
            else:
                nb = 'wt' if vx.basis == 'mol' else 'mol'
                match['to'] = nb
                newval = Val(vx.E.copy(), vx.ridx, nb, vx.phases, vx.nu); new = run(lambda: ox.copy(basis=nb))
            operands = {x}
        elif op == 'back':
            _, x, pr = a
            vx = val[x]; ox = obj[x]
            match['reactant_given'] = pr is not None
            match['tagged'] = bool(vx.phases)
            prods = self._products(st, x)
            from thermosteam.reaction import _reaction as R
            try:
                new = ox.backwards(reactant=pr) if pr is not None else ox.backwards()
            except ValueError as e:
                # the library counts the positive entries of the stoichiometry AS STORED: after e.g. b -= (a + b) the cancelled
                # species keep round-off residues (1e-17) that count as products; that reading decides whether the documented
                # "must pass reactant" rejection is due
                stored_products = int((np.array(ox._stoichiometry.to_array(), float) > 0).sum())
                if pr is None and 'must pass reactant' in str(e) and (len(self._all_products(vx)) != 1 or stored_products != 1):
                    self._check_untouched(st, before, set(), match, 'backwards() that raised')
                    raise Rejected('ValueError:must pass reactant', cut=False)
                raise Violation('unexpected-exception', f'ValueError: {e}', match=dict(match, exc='ValueError'))
            except Exception as e:
                raise Violation('unexpected-exception', f'{type(e).__name__}: {e}', match=dict(match, exc=type(e).__name__))
            # new object, operands untouched; the value of a reversed reaction is not modelled -> the result is not kept
            self._check_new(st, new, {x}, match, 'backwards')
            self._check_untouched(st, before, set(), match, 'backwards')
            want = pr if pr is not None else self._all_products(vx)[0]
            got = new.reactant[1] if isinstance(new.reactant, tuple) else new.reactant
            if got != want:
                raise Violation('result-value', f'backwards: reactant of the result is {got!r}, requested {want!r}',
                                match=dict(match, field='reactant'))
            st.last_nontrivial = True
            return ('back', got)
        elif op == 'pset':
            _, x, y = a
            if val[x].basis != val[y].basis:
                try: t.ParallelReaction([obj[x], obj[y]])
                except ValueError: raise Rejected('ValueError:all reactions must have the same basis', cut=False)
                raise Violation('missing-rejection', 'a ParallelReaction of reactions on different bases was accepted', match=match)
            st.p = run(lambda: t.ParallelReaction([obj[x], obj[y]]))
            st.pitems = [st.p[0], st.p[1]]
            st.pval = [val[x].copy(), val[y].copy()]
            st.pX = [val[x].X(), val[y].X()]
            self._check_untouched(st, before, set(), match, 'ParallelReaction([x, y])', skip_p=True)
            if not (np.allclose(st.p.X, st.pX, rtol=1e-12)):
                raise Violation('item-set', f'set conversions {st.p.X.tolist()} expected {st.pX}', match=match)
            self._check_p_acts(st, match)
            st.last_nontrivial = True
            return ('pset',)
        elif op == 'itemmul':
            p = st.p
            _, i, k = a
            match['k'] = k
            new = run(lambda: p[i] * k)
            self._check_untouched(st, before, set(), match, f'set[{i}] * {k}')
            if new is None or isinstance(new, type(p[i])) and getattr(new, '_parent', None) is p:
                raise Violation('returns-new-object', f'set[{i}] * {k} returned an item of the set', match=match)
            if any(new._stoichiometry is s_ for s_ in p._stoichiometry):
                raise Violation('returns-new-object', f'set[{i}] * {k}: result shares its stoichiometry with the set', match=dict(match, shared='stoichiometry'))
            pv = st.pval[i]
            obj['r'] = new; val['r'] = Val(pv.nu * st.pX[i] * k, pv.ridx, p._basis, pv.phases, pv.nu)
            self._check_value(st, 'r', match, f'set[{i}] * {k}')
            self._check_p_acts(st, match)
            st.last_nontrivial = True
            return ('itemmul', round(val['r'].X(), 12))
        elif op in ('itemimul', 'itemidiv', 'helditemimul'):
            p = st.p
            _, i, k = a
            match['k'] = k
            def f():
                it = st.pitems[i] if op == 'helditemimul' else p[i]
                if op == 'itemidiv': it /= k
                else: it *= k
                return it
            it = run(f)
            st.pX[i] = st.pX[i] / k if op == 'itemidiv' else st.pX[i] * k
            for j in (0, 1):
                seen = dict(set=float(p.X[j]), fresh_item=float(p[j].X), held_item=float(st.pitems[j].X), iterated=float(list(p)[j].X))
                for k_, x_ in seen.items():
                    if abs(x_ - st.pX[j]) > 1e-12 * max(1.0, abs(st.pX[j])):
                        raise Violation('item-set', f'after {op} on item [{i}] with k={k}: conversion [{j}] seen through {k_} is {x_}, '
                                        f'expected {st.pX[j]}', match=dict(match, seen=k_, member='self' if j == i else 'sibling'))
            self._check_untouched(st, before, set(), match, op, skip_p=True)
            self._check_p_acts(st, match)
            st.last_nontrivial = True
            return (op,)
        elif op in ('itemX', 'heldX', 'setXi', 'setX'):
            p = st.p
            if op == 'setX':
                vals = [a[1], a[2]]
                run(lambda: setattr(p, 'X', np.array(vals)))
                st.pX = list(vals)
            else:
                _, i, v = a
                if op == 'itemX': run(lambda: setattr(p[i], 'X', v))              # a fresh item handle
                elif op == 'heldX': run(lambda: setattr(st.pitems[i], 'X', v))     # the handle taken when the set was built
                else:
                    def f(): p.X[i] = v
                    run(f)
                st.pX[i] = v
            match['via'] = op
            # the set, a fresh item and the held item all report the new conversions
            for i in (0, 1):
                seen = dict(set=float(p.X[i]), fresh_item=float(p[i].X), held_item=float(st.pitems[i].X),
                            iterated=float(list(p)[i].X))
                for k_, x_ in seen.items():
                    if x_ != st.pX[i]:
                        raise Violation('item-set', f'after {op}: conversion [{i}] seen through {k_} is {x_}, expected {st.pX[i]}',
                                        match=dict(match, seen=k_))
            self._check_untouched(st, before, set(), match, op, skip_p=True)
            self._check_p_acts(st, match)
            st.last_nontrivial = True
            return (op,)
        elif op == 'pcopy':
            p = st.p
            nb = None if a[1] is None else ('wt' if p._basis == 'mol' else 'mol')
            match['rebase'] = nb is not None
            cp = run(lambda: p.copy(basis=nb) if nb else p.copy())
            if cp is p:
                raise Violation('returns-new-object', 'copy() of the set returned the set itself', match=match)
            self._check_untouched(st, before, set(), match, f'set.copy({nb!r})')
            if cp._X is p._X:
                raise Violation('returns-new-object', 'the copy of the set shares its conversion array with the set', match=dict(match, shared='X'))
            if any(r1 is r2 for r1 in cp._stoichiometry for r2 in p._stoichiometry):
                raise Violation('returns-new-object', 'the copy of the set shares stoichiometry rows with the set', match=dict(match, shared='rows'))
            Es = [pv.nu * X for pv, X in zip(st.pval, st.pX)]
            v0 = st.pval[0]
            self._check_acts(st, cp, Es, v0.ridx, nb or p._basis, v0.phases, match, f'set.copy({nb!r})', other=p, other_raw=nb is None)
            st.last_nontrivial = True
            return ('pcopy', nb)
        elif op == 'reduce':
            p = st.p
            # same domain rule as for a + b / a - b above: a set whose members' extents cancel on the reactant has no
            # "conversion of the reactant" to be reduced to (e.g. int pattern (1, 1, 0): c -= a gives X = -1, a and c cancel)
            Et = sum(pv.nu * X for pv, X in zip(st.pval, st.pX)); r0 = st.pval[0].ridx
            if abs(Et[r0]) <= 1e-12:
                raise Rejected('degenerate:' + ('zero net conversion with non-zero net change' if np.abs(Et).max() > 1e-12 else 'null reaction'), cut=False)
            red = run(lambda: p.reduce())
            if red is p:
                raise Violation('returns-new-object', 'reduce() returned the set itself', match=match)
            self._check_untouched(st, before, set(), match, 'reduce')
            Es = [pv.nu * X for pv, X in zip(st.pval, st.pX)]
            v0 = st.pval[0]
            self._check_acts(st, red, Es, v0.ridx, p._basis, v0.phases, match, 'reduce()', other=p)
            if len(red.X) != 1:
                raise Violation('result-value', f'reduce() of two reactions with one reactant has {len(red.X)} items',
                                match=dict(match, field='items'))
            st.last_nontrivial = True
            return ('reduce', float(red.X[0]))
        else:
            raise ValueError(a)

        # ---- common part for operators that produce / mutate a single reaction
        what = f'{op}{a[1:]}'
        if inplace:
            if new is not obj[target]:
                raise Violation('in-place-identity', f'{what} did not return the left operand itself', match=match)
            val[target] = newval
            self._check_untouched(st, before, {target}, match, what)
            self._check_value(st, target, match, what)
            vv = val[target]
            self._check_acts(st, obj[target], [vv.E], vv.ridx, vv.basis, vv.phases, match, what)
            st.last_nontrivial = True
            return (op, round(vv.X(), 12))
        self._check_new(st, new, operands, match, what)
        self._check_untouched(st, before, set(), match, what)
        obj['r'] = new; val['r'] = newval
        self._check_value(st, 'r', match, what)
        other = None
        Es = [newval.E]
        if op in ('add', 'sum'):
            x, y = a[1], a[2]
            if x != 'r' and y != 'r':
                try:
                    other = t.ParallelReaction([st.obj[x].copy(val[x].basis), st.obj[y].copy(val[x].basis)])
                except Exception as e:
                    raise Violation('unexpected-exception', f'ParallelReaction of the operands: {type(e).__name__}: {e}',
                                    match=dict(match, exc=type(e).__name__, where='parallel'))
            Es = [val[x].E, val[y].E] if (x != 'r' and y != 'r') else [newval.E]
        self._check_acts(st, new, Es, newval.ridx, newval.basis, newval.phases, match, what, other=other)
        st.last_nontrivial = True
        return (op, round(newval.X(), 12))

    def _all_products(self, v):
        E = v.E if v.E.ndim == 1 else v.E.sum(0)
        s = np.sign(v.X()) or 1.0
        prods = [IDS[i] for i in range(N) if E[i] * s > 0]
        if not prods and v.X() == 0 and v.nu is not None:
            # X == 0 (e.g. a member constructed with the int 0): the extents vanish, the stored stoichiometry still names the products
            nu = np.asarray(v.nu, float); nu = nu if nu.ndim == 1 else nu.sum(0)
            prods = [IDS[i] for i in range(N) if nu[i] > 0]
        return prods

    def _check_new(self, st, new, operands, match, what):
        if new is None or not hasattr(new, '_stoichiometry'):
            raise Violation('returns-new-object', f'{what} returned {type(new).__name__}', match=match)
        for n in NAMES:
            o = st.obj[n]
            if o is None: continue
            if new is o:
                raise Violation('returns-new-object', f'{what} returned its operand {n!r} itself instead of a new reaction',
                                match=dict(match, returned='operand' if n in operands else 'other'))
            if new._stoichiometry is o._stoichiometry:
                raise Violation('returns-new-object', f'{what}: the result shares its stoichiometry container with {n!r}',
                                match=dict(match, shared='stoichiometry'))
            rows_new = getattr(new._stoichiometry, 'rows', None)
            rows_old = getattr(o._stoichiometry, 'rows', None)
            if rows_new is not None and rows_old is not None and any(r1 is r2 for r1 in rows_new for r2 in rows_old):
                raise Violation('returns-new-object', f'{what}: the result shares stoichiometry rows with {n!r}',
                                match=dict(match, shared='rows'))

    def _check_untouched(self, st, before, allowed, match, what, skip_p=False):
        after = self._digests(st)
        for n, d in before.items():
            if n in allowed or d is None: continue
            if n == 'p' and skip_p: continue
            if after[n] != d:
                raise Violation('operand-mutated', f'{what} changed {n!r}: {d} -> {after[n]}', match=dict(match, victim='set' if n == 'p' else 'reaction'))

    def _check_p_acts(self, st, match):
        p = st.p
        Es = [pv.nu * X for pv, X in zip(st.pval, st.pX)]
        v0 = st.pval[0]
        self._check_acts(st, p, Es, v0.ridx, p._basis, v0.phases, match, 'the set')

    def nontrivial(self, st, a, obs): return bool(st.last_nontrivial)

    def outcome(self, st, a, obs):
        fam, xp, bs = st.config
        return repr((a[0], bs, FAMILIES_ALL[fam][0], obs[0], tuple(a[1:2])))


REDUCED = {
    ('add', 'a', 'b'), ('add', 'r', 'a'), ('add', 'r', 'b'), ('add', 'r', 'r'), ('sub', 'a', 'b'), ('sub', 'b', 'a'), ('sub', 'r', 'a'), ('sub', 'r', 'b'),
    ('sub', 'a', 'r'), ('iadd', 'a', 'b'), ('iadd', 'r', 'a'), ('iadd', 'a', 'r'), ('isub', 'a', 'b'), ('isub', 'r', 'b'), ('isub', 'b', 'r'),
    ('mul', 'a', 2.0), ('rmul', 'r', 0.5), ('imul', 'a', 0.5), ('imul', 'r', 2.0), ('div', 'r', 2.0), ('idiv', 'a', 2.0), ('idiv', 'r', 0.5),
    ('neg', 'a'), ('neg', 'r'), ('copy', 'r'), ('copysame', 'a'), ('copysame', 'r'), ('rebase', 'a'), ('rebase', 'r'), ('ibasis', 'r'), ('ibasis', 'a'),
    ('pset', 'a', 'b'), ('pset', 'a', 'r'), ('itemX', 0, 0.25), ('heldX', 1, 0.25), ('setXi', 1, 0.0), ('setX', 0.125, 0.375), ('reduce',),
    ('pcopy', None), ('pcopy', 'other'), ('itemimul', 0, 2.0), ('itemidiv', 1, 2.0), ('helditemimul', 0, 0.5), ('itemmul', 1, 2.0),
}

class Arith3(Arith):
    """expression trees of depth 3 (thorough): the same heap and oracle as c17.arith over a reduced alphabet of 40 operations
    (every operator / in-place form / set and set-item operation is represented, operands restricted to a, b and the result slot)
    for every family, every conversion pattern, on the mol, mixed and wt bases.  The quick tier runs one family to depth 2 (a subset of the thorough space)."""
    name = 'c17.arith.d3'
    def depth(self, tier): return 2 if tier == 'quick' else 3
    def configs(self, tier, seed):
        self.ks = KS
        if tier == 'quick': return [('glucose', 'A', 'mol')]
        cfgs = [(fam, xp, bs) for fam in FAMILIES_T for xp in XPATTERNS_ALL for bs in ('mol', 'mixed', 'wt')]
        k = seed % len(cfgs)
        return cfgs[k:] + cfgs[:k]
    def actions(self, st):
        return [a for a in Arith.actions(self, st) if a in REDUCED]


class ArithFull3(Arith):
    """the FULL alphabet of c17.arith to depth 3 on 15 configurations (every family on the mol basis; mixed bases with fractional
    coefficients, wt with an inert operand, phase-tagged with mixed bases); the quick tier runs the first one to depth 1"""
    name = 'c17.arith.full3'
    def depth(self, tier): return 1 if tier == 'quick' else 3
    def configs(self, tier, seed):
        self.ks = KS
        if tier == 'quick': return [('glucose', 'A', 'mol')]
        return ([(fam, 'A', 'mol') for fam in FAMILIES_T] +
                [('glucose', 'int', 'mol'), ('water', 'npint', 'mol'), ('oxygen', 'A', 'mixed'), ('methane2', 'inert', 'wt'), ('water', 'B', 'mixed2'), ('ethanol-t', 'inert', 'wt'), ('glucose2', 'B', 'mixed')])


@rc.guard_build
class Backwards(System):
    """depth 1: every menu reaction x tagging x basis x reactant, reversed onto every product and without argument"""
    name = 'c17.backwards'

    def warm(self): _load()
    def reset_globals(self): rc.reset_reaction_globals()
    def depth(self, tier): return 1

    def configs(self, tier, seed):
        cfgs = []
        for ri in rc.menu_range(tier):
            for r in rc.reactants_of(ri):
                for tag in (('none', 'nat') if tier == 'quick' else ('none', 'nat', 'wg', 'ws', 'gl', 'vap')):
                    if tag == 'wg' and 'H2O' not in MENU[ri][1]: continue
                    if tag in ('ws', 'gl', 'vap') and rc.tags_of(ri, tag) in (rc.tags_of(ri, 'nat'), rc.tags_of(ri, 'wg')): continue
                    for route in (('mol', 'wt-set') if tier == 'quick' else ('mol', 'wt-set', 'wt-direct')):
                        cfgs.append((ri, r, tag, route))
        k = seed % len(cfgs)
        return cfgs[k:] + cfgs[:k]

    def build(self, config):
        ri, r, tag, route = config
        st = St()
        st.config = config
        st.rxn = rc.make_reaction(ri, r, 0.5, 'str', None if tag == 'none' else tag, route)
        st.last = None
        return st

    def actions(self, st):
        ri = st.config[0]
        prods = [k for k, x in MENU[ri][1].items() if x > 0]
        return [('back', None, None)] + [('back', p, X) for p in prods for X in (None, 0.25)]

    def step(self, st, a):
        ri, r, tag, route = st.config
        _, pr, X = a
        rxn = st.rxn
        prods = [k for k, x in MENU[ri][1].items() if x > 0]
        match = dict(op='back', reactant_given=pr is not None, tagged=tag != 'none')
        d0 = rc.rxn_digest(rxn)
        try:
            kw = {}
            if pr is not None: kw['reactant'] = pr
            if X is not None: kw['X'] = X
            new = rxn.backwards(**kw)
        except ValueError as e:
            if pr is None and len(prods) != 1 and 'must pass reactant' in str(e):
                if rc.rxn_digest(rxn) != d0:
                    raise Violation('operand-mutated', 'backwards() that raised changed its operand', match=dict(match, victim='reaction'))
                raise Rejected('ValueError:must pass reactant', cut=False)
            raise Violation('unexpected-exception', f'ValueError: {e}', match=dict(match, exc='ValueError'))
        except Exception as e:
            raise Violation('unexpected-exception', f'{type(e).__name__}: {e}', match=dict(match, exc=type(e).__name__))
        if new is rxn or new._stoichiometry is rxn._stoichiometry:
            raise Violation('returns-new-object', 'backwards returned / shares its operand', match=match)
        d1 = rc.rxn_digest(rxn)
        if d1 != d0:
            raise Violation('operand-mutated', f'backwards changed its operand: {d0} -> {d1}', match=dict(match, victim='reaction'))
        want = pr if pr is not None else prods[0]
        got = new.reactant[1] if isinstance(new.reactant, tuple) else new.reactant
        if got != want:
            raise Violation('result-value', f'backwards: reactant of the result is {got!r}, requested {want!r}', match=dict(match, field='reactant'))
        wantX = 0.5 if X is None else X
        if float(new.X) != wantX:
            raise Violation('result-value', f'backwards: X = {new.X}, expected {wantX}', match=dict(match, field='X'))
        nu_new = np.array(new._stoichiometry.to_array(), float); nu_old = np.array(rxn._stoichiometry.to_array(), float)
        if not np.isfinite(nu_new).all() or abs(nu_new[new._reactant_index] + 1.0) > 1e-12:
            raise Violation('result-value', f'backwards: coefficient of the new reactant is {nu_new[new._reactant_index]!r}, not -1',
                            match=dict(match, field='normalisation'))
        # same stoichiometric line, opposite direction:  nu_new == -nu_old / nu_old[new reactant]
        exp = -nu_old / nu_old[new._reactant_index]
        if np.abs(nu_new - exp).max() > 1e-12 * np.abs(exp).max():
            raise Violation('result-value', f'backwards: stoichiometry {nu_new.tolist()} is not the operand reversed {exp.tolist()}',
                            match=dict(match, field='stoichiometry'))
        st.last = (a, got)
        return ('back', got)

    def canon(self, st): return (st.config, rc.rxn_digest(st.rxn), st.last)
    def outcome(self, st, a, obs): return repr((st.config[2], st.config[3], a[1] is None, a[2] is None, obs[0]))


SYSTEMS = [Arith(), Arith3(), ArithFull3(), Backwards()]
